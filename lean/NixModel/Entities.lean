import NixModel.Gen.Types
import NixModel.Store
/-
  The nix entity layer over the abstract store: front-end argument checks (src/*.cpp, include/nix/*.hpp) followed by
  the HDF5 backend protocol (backend/hdf5/*HDF5.cpp), in the order the C++ performs them.

  Every operation returns the NEW STORE TOGETHER WITH the result (`Res`), so that a failure after a mutation is
  expressible: `(s', .error e)` with `s' ≠ s` is "threw and left a trace".

  Conventions: entity names are decoded strings (they become link names); every other string field is kept as its
  protocol token, whose empty-string form is `x`; ids and creation times come from the trace (what the library
  itself generated), see DESIGN.md §2.3(4).
-/
namespace Nix.St

abbrev Res (α : Type) := Store × Except Err α

/-- a front-end object: the group it wraps and, for children of a block, the block group it was obtained from -/
structure Handle where
  kind : String
  obj : ObjId
  blk : ObjId := 0
deriving Repr, DecidableEq, Inhabited

def metadataGrp : ObjId := 1
def dataGrp : ObjId := 2

/-- the empty string as a protocol token -/
def tokEmpty (t : String) : Bool := t == "x"

/-- FileHDF5 constructor on a new file: header, then the two root groups, then the creation time -/
def newFile (id created format version : String) : Store :=
  { objs := [ { isGroup := true,
                attrs := [("format", format), ("version", version), ("id", id), ("created_at", created)],
                links := [("metadata", metadataGrp), ("data", dataGrp)] },
              { isGroup := true }, { isGroup := true } ] }

/-- util::checkEntityName / checkEntityType -/
def checkName (n : String) : Except Err Unit :=
  if n.isEmpty then .error .emptyString else if !nameCheck n then .error .invalidName else .ok ()

def checkNameAndType (n t : String) : Except Err Unit :=
  match checkName n with
  | .error e => .error e
  | .ok () => if tokEmpty t then .error .emptyString else .ok ()

/-- NamedEntityHDF5 constructor (EntityHDF5: entity_id, created_at; then type, then name) -/
def initNamed (s : Store) (g : ObjId) (id type name created : String) : Res Unit :=
  let s := (s.setAttr g "entity_id" id).setAttr g "created_at" created
  if tokEmpty type then (s, .error .emptyString) else
  let s := s.setAttr g "type" type
  if name.isEmpty then (s, .error .emptyString) else
  (s.setAttr g "name" name, .ok ())

def nameOf (s : Store) (o : ObjId) : String := (s.attr? o "name").getD ""
def idOf (s : Store) (o : ObjId) : String := (s.attr? o "entity_id").getD ""

/-- objects that can be reached from the given ones by following links (breadth first, fuel = number of objects) -/
def reachFrom (s : Store) : Nat → List ObjId → List ObjId → List ObjId
  | 0, seen, _ => seen
  | fuel + 1, seen, frontier =>
    let next := (frontier.flatMap fun o => (s.linksOf o).map (·.2)).eraseDups.filter fun o => !seen.contains o
    if next.isEmpty then seen else reachFrom s fuel (seen ++ next) next

def inFile (s : Store) (o : ObjId) : Bool := (reachFrom s s.objs.length [0] [0]).contains o

/-- EntityHDF5::isValidEntity: the object still has a hard link and a path in the file -/
def isValidEntity (s : Store) (o : ObjId) : Bool := s.refCount o > 0 && inFile s o

/-- util::checkEntityInput: an initialised front-end object that is still a valid entity -/
def validHandle (s : Store) (h : Option Handle) : Bool :=
  match h with
  | some h => isValidEntity s h.obj
  | none => false

-- ---------------------------------------------------------------------------------------------------------
-- containers of a block (BlockHDF5::groupForObjectType / findEntityGroup / resolveEntityId)

def blockContainer (kind : String) : String :=
  if kind == "A" then "data_arrays" else if kind == "D" then "data_frames" else if kind == "T" then "tags"
  else if kind == "M" then "multi_tags" else if kind == "G" then "groups" else "sources"

/-- nix::Identity from a string: strings that look like a UUID are ids, everything else is a name -/
def identOfString (v : String) : String × String := if looksLikeUUID v then ("", v) else (v, "")

/-- BlockHDF5::findEntityGroup -/
def blkFind (s : Store) (blk : ObjId) (kind iname iid : String) : Option ObjId :=
  match s.optGroup blk (blockContainer kind) with
  | none => none
  | some p =>
    if iname.isEmpty && iid.isEmpty then none else
    let needle := if !iname.isEmpty then iname else iid
    -- `openGroup(needle, false)` on something that is not a group would throw; the containers hold groups only
    let g := if s.hasObject p needle then (if s.hasGroup p needle then s.child? p needle else none)
             else if !iid.isEmpty then s.findGroupByAttribute p "entity_id" iid else none
    match g with
    | some o => if !iname.isEmpty && !iid.isEmpty && s.attr? o "entity_id" != some iid then none else some o
    | none => none

def blkFindKey (s : Store) (blk : ObjId) (kind key : String) : Option ObjId :=
  let (n, i) := identOfString key
  blkFind s blk kind n i

/-- hasEntity / getEntity with the Identity of a front-end object (name and id) -/
def blkFindHandle (s : Store) (blk : ObjId) (kind : String) (h : Handle) : Option ObjId :=
  blkFind s blk kind (nameOf s h.obj) (idOf s h.obj)

/-- BlockHDF5::resolveEntityId -/
def blkResolveId (s : Store) (blk : ObjId) (kind key : String) : String :=
  let (n, i) := identOfString key
  if !i.isEmpty then i else
  match blkFind s blk kind n i with
  | some o => idOf s o
  | none => ""

-- ---------------------------------------------------------------------------------------------------------
-- creation

/-- File::createBlock + FileHDF5::createBlock -/
def createBlock (s : Store) (name type id created : String) : Res ObjId :=
  match checkNameAndType name type with
  | .error e => (s, .error e)
  | .ok () =>
  if (s.findGroupByNameOrAttribute dataGrp "entity_id" name).isSome then (s, .error .duplicateName) else
  let (s, g) := s.openGroupCreate dataGrp name
  match initNamed s g id type name created with
  | (s, .error e) => (s, .error e)
  | (s, .ok ()) => (s, .ok g)

/-- File::createSection / Section::createSection (container = /metadata or the parent's `sections` group, created on demand) -/
def createSectionIn (s : Store) (parent : Option ObjId) (name type id created : String) : Res ObjId :=
  match checkNameAndType name type with
  | .error e => (s, .error e)
  | .ok () =>
  let existing := match parent with
    | none => s.findGroupByNameOrAttribute metadataGrp "entity_id" name
    | some p => match s.optGroup p "sections" with
      | some c => s.findGroupByNameOrAttribute c "entity_id" name
      | none => none
  if existing.isSome then (s, .error .duplicateName) else
  let (s, c) := match parent with
    | none => (s, metadataGrp)
    | some p => s.openGroupCreate p "sections"
  let (s, g) := s.openGroupCreate c name
  match initNamed s g id type name created with
  | (s, .error e) => (s, .error e)
  | (s, .ok ()) => (s, .ok g)

/-- Source::createSource (under a source) -/
def createSourceIn (s : Store) (parent : ObjId) (name type id created : String) : Res ObjId :=
  match checkNameAndType name type with
  | .error e => (s, .error e)
  | .ok () =>
  let existing := match s.optGroup parent "sources" with
    | some c => s.findGroupByNameOrAttribute c "entity_id" name
    | none => none
  if existing.isSome then (s, .error .duplicateName) else
  let (s, c) := s.openGroupCreate parent "sources"
  let (s, g) := s.openGroupCreate c name
  match initNamed s g id type name created with
  | (s, .error e) => (s, .error e)
  | (s, .ok ()) => (s, .ok g)

/-- the part of Block::create* that is common to every kind: name / type / duplicate check, the container on demand,
    the entity group, the NamedEntity constructor -/
def createInBlock (s : Store) (blk : ObjId) (kind name type id created : String) : Res ObjId :=
  match checkNameAndType name type with
  | .error e => (s, .error e)
  | .ok () =>
  if (blkFindKey s blk kind name).isSome then (s, .error .duplicateName) else
  let (s, c) := s.openGroupCreate blk (blockContainer kind)
  let (s, g) := s.openGroupCreate c name
  match initNamed s g id type name created with
  | (s, .error e) => (s, .error e)
  | (s, .ok ()) => (s, .ok g)

/-- element types with a file representation (data_type_to_h5_filetype) -/
def dtypeStorable (dt : String) : Bool :=
  -- `data_type_to_h5_filetype` has a file type for it: read off the table that gen/extract_types.py takes from the source on every run
  (Nix.Gen.Types.fileType.find? (·.1 == dt)).any (·.2 != "")

/-- Block::createDataArray: front-end checks, then the backend refuses an element type without a file type, then creates -/
def createDataArray (s : Store) (blk : ObjId) (name type id created dtype shape : String) : Res ObjId :=
  match checkNameAndType name type with
  | .error e => (s, .error e)
  | .ok () =>
  if (blkFindKey s blk "A" name).isSome then (s, .error .duplicateName) else
  if !dtypeStorable dtype then (s, .error .stdInvalidArgument) else
  if shape == "[]" then (s, .error .invalidRank) else          -- 0-dimensional data is refused before anything is created
  match createInBlock s blk "A" name type id created with
  | (s, .error e) => (s, .error e)
  | (s, .ok g) => (((s.setAttr g "ds:dtype" dtype).setAttr g "ds:shape" shape), .ok g)

/-- Variant::supports_type -/
def variantType (dt : String) : Bool := ["Bool", "Int32", "UInt32", "Int64", "UInt64", "Double", "String", "Nothing"].contains dt

def hasDup : List String → Bool
  | [] => false
  | x :: xs => xs.contains x || hasDup xs

/-- Block::createDataFrame (columns: (name, type) pairs; `cols` is the token the dump will show) -/
def createDataFrame (s : Store) (blk : ObjId) (name type id created : String) (colNames colTypes : List String) (cols : String) : Res ObjId :=
  match checkNameAndType name type with
  | .error e => (s, .error e)
  | .ok () =>
  if (blkFindKey s blk "D" name).isSome then (s, .error .duplicateName) else
  if colNames.isEmpty then (s, .error .stdInvalidArgument) else
  -- one pass over the columns: unsupported type or Nothing → invalid_argument, empty name → EmptyString, repeated name → ConsistencyError
  let rec scan (seen : List String) : List String → List String → Option Err
    | n :: ns, t :: ts =>
      if !variantType t || t == "Nothing" then some .stdInvalidArgument
      else if n.isEmpty then some .emptyString
      else if seen.contains n then some .consistencyError else scan (n :: seen) ns ts
    | _, _ => none
  match scan [] colNames colTypes with
  | some e => (s, .error e)
  | none =>
  match createInBlock s blk "D" name type id created with
  | (s, .error e) => (s, .error e)
  | (s, .ok g) => (s.setAttr g "ds:cols" cols, .ok g)

/-- Block::createTag -/
def createTag (s : Store) (blk : ObjId) (name type id created position : String) : Res ObjId :=
  match createInBlock s blk "T" name type id created with
  | (s, .error e) => (s, .error e)
  | (s, .ok g) => (s.setAttr g "ds:position" position, .ok g)

/-- Block::createGroup / Block::createSource -/
def createGroup (s : Store) (blk : ObjId) (name type id created : String) : Res ObjId := createInBlock s blk "G" name type id created
def createSource (s : Store) (blk : ObjId) (name type id created : String) : Res ObjId := createInBlock s blk "O" name type id created

/-- MultiTagHDF5::positions(name_or_id) / extents / FeatureHDF5::data: resolve in the block FIRST, then replace the link -/
def setArrayLink (s : Store) (holder blk : ObjId) (field key : String) : Res Unit :=
  match blkFindKey s blk "A" key with
  | none => (s, .error .stdRuntime)
  | some a =>
    let s := s.removeGroup holder field
    (s.addLink holder field a, .ok ())

/-- Block::createMultiTag -/
def createMultiTag (s : Store) (blk : ObjId) (name type id created : String) (positions : Option Handle) : Res ObjId :=
  match checkNameAndType name type with
  | .error e => (s, .error e)
  | .ok () =>
  if !validHandle s positions then (s, .error .uninitializedEntity) else
  match positions with
  | none => (s, .error .uninitializedEntity)
  | some ph =>
  if (blkFindKey s blk "M" name).isSome then (s, .error .duplicateName) else
  if (blkFindHandle s blk "A" ph).isNone then (s, .error .stdRuntime) else
  match createInBlock s blk "M" name type id created with
  | (s, .error e) => (s, .error e)
  | (s, .ok g) =>
    match setArrayLink s g blk "positions" (idOf s ph.obj) with
    | (s, .error e) => (s, .error e)
    | (s, .ok ()) => (s, .ok g)

/-- Section::createProperty(name, dtype) -/
def createProperty (s : Store) (sec : ObjId) (name id created dtype : String) : Res ObjId :=
  match checkName name with
  | .error e => (s, .error e)
  | .ok () =>
  let existing := match s.optGroup sec "properties" with
    | some c => s.findDataByNameOrAttribute c "entity_id" name
    | none => none
  if existing.isSome then (s, .error .duplicateName) else
  if !dtypeStorable dtype then (s, .error .stdInvalidArgument) else
  let (s, c) := s.openGroupCreate sec "properties"
  let (s, d) := s.alloc { isGroup := false }
  let s := s.addLink c name d
  let s := (((s.setAttr d "entity_id" id).setAttr d "created_at" created).setAttr d "name" name).setAttr d "ds:dtype" dtype
  (s, .ok d)

/-- Tag::createFeature(DataArray, LinkType) + BaseTagHDF5::createFeature + FeatureHDF5 constructor -/
def createFeature (s : Store) (tag blk : ObjId) (id created linkType : String) (data : Option Handle) : Res ObjId :=
  if !validHandle s data then (s, .error .uninitializedEntity) else
  match data with
  | none => (s, .error .uninitializedEntity)
  | some dh =>
  let key := idOf s dh.obj
  if (blkFindKey s blk "A" key).isNone then (s, .error .stdRuntime) else
  let (s, c) := s.openGroupCreate tag "features"
  let (s, g) := s.openGroupCreate c id
  let s := ((s.setAttr g "entity_id" id).setAttr g "created_at" created).setAttr g "link_type" linkType
  match setArrayLink s g blk "data" key with
  | (s, .error e) => (s, .error e)
  | (s, .ok ()) => (s, .ok g)

-- ---------------------------------------------------------------------------------------------------------
-- lookups

/-- getX(index) of a name-keyed container: the front-end bound check, then lookup by the link name -/
def nthChild (s : Store) (c : Option ObjId) (i : Nat) : Option ObjId :=
  match c with
  | some c => ((s.linksOf c)[i]?).map (·.2)
  | none => none

def countIn (s : Store) (c : Option ObjId) : Nat :=
  match c with
  | some c => s.objectCount c
  | none => 0

/-- ids of the entities linked in a container, in index order (what every enumeration getter returns) -/
def linkedIds (s : Store) (c : Option ObjId) : List String :=
  match c with
  | some c => (s.linksOf c).map fun l => idOf s l.2
  | none => []

-- ---------------------------------------------------------------------------------------------------------
-- deletion

def childIds (s : Store) (o : ObjId) (cname : String) : List String := linkedIds s (s.optGroup o cname)

/-- the loop "for every child: deleteX(child.id())" over the container `cname` of the victim `v` -/
def afterKids (rec : Store → ObjId → String → Store × Bool) (s : Store) (v : ObjId) (cname : String) : Store :=
  match s.optGroup v cname with
  | some vc => (childIds s v cname).foldl (fun s kid => (rec s vc kid).1) s
  | none => s

/-- SectionHDF5::deleteSection / SourceHDF5::deleteSource on the container group `c` of the parent: the children of the
    victim are deleted first (by their ids, through the same function), then every link to the victim goes.
    `cname` is "sections" or "sources".  Fuel bounds the nesting depth (number of objects + 1 suffices for a forest). -/
def deleteNested (cname : String) : Nat → Store → ObjId → String → Store × Bool
  | 0, s, _, _ => (s, false)
  | fuel + 1, s, c, key =>
    match s.findGroupByNameOrAttribute c "entity_id" key with
    | none => (s, false)
    | some v => (afterKids (deleteNested cname fuel) s v cname).removeAllLinks c (nameOf s v)

def fuelOf (s : Store) : Nat := s.objs.length + 1

/-- FileHDF5::deleteBlock -/
def deleteBlock (s : Store) (key : String) : Store × Bool :=
  match s.findGroupByNameOrAttribute dataGrp "entity_id" key with
  | none => (s, false)
  | some b => s.removeAllLinks dataGrp (nameOf s b)

/-- FileHDF5::deleteSection / SectionHDF5::deleteSection -/
def deleteSection (s : Store) (parent : Option ObjId) (key : String) : Store × Bool :=
  match parent with
  | none => deleteNested "sections" (fuelOf s) s metadataGrp key
  | some p => match s.optGroup p "sections" with
    | some c => deleteNested "sections" (fuelOf s) s c key
    | none => (s, false)

/-- SourceHDF5::deleteSource -/
def deleteSubSource (s : Store) (parent : ObjId) (key : String) : Store × Bool :=
  match s.optGroup parent "sources" with
  | some c => deleteNested "sources" (fuelOf s) s c key
  | none => (s, false)

/-- BlockHDF5::deleteSource: the victim is found through findEntityGroup, its children go through SourceHDF5::deleteSource -/
def deleteBlockSource (s : Store) (blk : ObjId) (key : String) : Store × Bool :=
  match s.optGroup blk "sources" with
  | none => (s, false)
  | some c =>
    match blkFindKey s blk "O" key with
    | none => (s, false)
    | some v => (afterKids (deleteNested "sources" (fuelOf s)) s v "sources").removeAllLinks c (nameOf s v)

/-- BlockHDF5::removeEntity for data arrays, data frames, tags, multi tags, groups -/
def removeEntity (s : Store) (blk : ObjId) (kind iname iid : String) : Store × Bool :=
  match s.optGroup blk (blockContainer kind), blkFind s blk kind iname iid with
  | some p, some e => s.removeAllLinks p (nameOf s e)
  | _, _ => (s, false)

/-- SectionHDF5::deleteProperty -/
def deleteProperty (s : Store) (sec : ObjId) (key : String) : Store × Bool :=
  match s.optGroup sec "properties" with
  | none => (s, false)
  | some c =>
    match s.findDataByNameOrAttribute c "entity_id" key with
    | none => (s, false)
    | some p => (s.removeData c (nameOf s p), true)

-- ---------------------------------------------------------------------------------------------------------
-- searches used by the setters (File::findSections / Block::findSources with an IdFilter): breadth first over the tree

/-- level-order list of all nested entities under the given roots (`cname` = "sections" | "sources") -/
def levelOrder (cname : String) : Nat → Store → List ObjId → List ObjId
  | 0, _, _ => []
  | fuel + 1, s, roots =>
    if roots.isEmpty then [] else
    roots ++ levelOrder cname fuel s (roots.flatMap fun r => match s.optGroup r cname with
      | some c => (s.linksOf c).map (·.2)
      | none => [])

def allSections (s : Store) : List ObjId := levelOrder "sections" (fuelOf s) s ((s.linksOf metadataGrp).map (·.2))

def allSources (s : Store) (blk : ObjId) : List ObjId :=
  match s.optGroup blk "sources" with
  | some c => levelOrder "sources" (fuelOf s) s ((s.linksOf c).map (·.2))
  | none => []

def findSectionById (s : Store) (id : String) : Option ObjId := (allSections s).find? fun o => idOf s o == id
def findSourceById (s : Store) (blk : ObjId) (id : String) : Option ObjId := (allSources s blk).find? fun o => idOf s o == id

-- ---------------------------------------------------------------------------------------------------------
-- single-valued links

/-- EntityWithMetadataHDF5::metadata(id) / SectionHDF5::link(id): validate, then drop the old link, then link -/
def setSectionLink (s : Store) (holder : ObjId) (field id : String) : Res Unit :=
  if id.isEmpty then (s, .error .emptyString) else
  match findSectionById s id with
  | none => (s, .error .stdRuntime)
  | some t =>
    let s := s.removeGroup holder field
    (s.addLink holder field t, .ok ())

def unsetLink (s : Store) (holder : ObjId) (field : String) : Res Unit := (s.removeGroup holder field, .ok ())

/-- MultiTagHDF5::extents(name_or_id): the array must be in the block and have the extent of the positions -/
def setExtents (s : Store) (mt blk : ObjId) (key : String) : Res Unit :=
  match blkFindKey s blk "A" key with
  | none => (s, .error .stdRuntime)
  | some a =>
    -- positions(): the link must exist and its target must be found in the block by name and id
    match s.optGroup mt "positions" with
    | none => (s, .error .stdRuntime)
    | some p =>
      if (blkFind s blk "A" (nameOf s p) (idOf s p)).isNone then (s, .error .stdRuntime) else
      if s.attr? a "ds:shape" != s.attr? p "ds:shape" then (s, .error .stdRuntime) else
      let s := s.removeGroup mt "extents"
      (s.addLink mt "extents" a, .ok ())

-- ---------------------------------------------------------------------------------------------------------
-- multi-valued links: tag references, entity sources, group members (all named by the TARGET'S ID)

/-- BaseTagHDF5::addReference(name_or_id): the container is created first, then the array is looked up in the block -/
def addReference (s : Store) (tag blk : ObjId) (key : String) : Res Unit :=
  let (s, c) := s.openGroupCreate tag "references"
  match blkFindKey s blk "A" key with
  | none => (s, .error .stdRuntime)
  | some a =>
    let id := idOf s a
    if s.hasObject c id then (s, .error .h5Error) else
    (s.addLink c id a, .ok ())

/-- BaseTagHDF5::hasReference / getReference -/
def getReference (s : Store) (tag blk : ObjId) (key : String) : Option ObjId :=
  let id := blkResolveId s blk "A" key
  match s.optGroup tag "references" with
  | some c => if s.hasGroup c id then s.child? c id else none
  | none => none

/-- BaseTagHDF5::removeReference -/
def removeReference (s : Store) (tag blk : ObjId) (key : String) : Store × Bool :=
  match s.optGroup tag "references", getReference s tag blk key with
  | some c, some a => (s.removeGroup c (idOf s a), true)
  | _, _ => (s, false)

/-- EntityWithSourcesHDF5::addSource(id) -/
def addSource (s : Store) (holder blk : ObjId) (id : String) : Res Unit :=
  if id.isEmpty then (s, .error .emptyString) else
  let (s, c) := s.openGroupCreate holder "sources"
  match findSourceById s blk id with
  | none => (s, .error .stdRuntime)
  | some t =>
    if s.hasObject c id then (s, .error .h5Error) else
    (s.addLink c id t, .ok ())

/-- EntityWithSourcesHDF5::removeSource(id): true whenever the container exists -/
def removeSource (s : Store) (holder : ObjId) (id : String) : Store × Bool :=
  match s.optGroup holder "sources" with
  | some c => (s.removeGroup c id, true)
  | none => (s, false)

def groupContainer (kind : String) : String :=
  if kind == "A" then "data_arrays" else if kind == "D" then "data_frame" else if kind == "T" then "tags" else "multi_tags"

/-- GroupHDF5::findEntityGroup: links are named by id, so the id is the needle; a name is resolved by attribute scan -/
def grpFind (s : Store) (grp : ObjId) (kind iname iid : String) : Option ObjId :=
  match s.optGroup grp (groupContainer kind) with
  | none => none
  | some p =>
    if iname.isEmpty && iid.isEmpty then none else
    let needle := if !iid.isEmpty then iid else iname
    let g := if s.hasObject p needle then s.child? p needle
             else if !iname.isEmpty && iid.isEmpty then s.findGroupByAttribute p "name" iname else none      -- (fix D44: the name scan only when no id is given)
    match g with
    | some o => if !iname.isEmpty && !iid.isEmpty && s.attr? o "name" != some iname then none else some o
    | none => none

/-- GroupHDF5::addEntity -/
def addMember (s : Store) (grp blk : ObjId) (kind iname iid : String) : Res Unit :=
  let (s, c) := s.openGroupCreate grp (groupContainer kind)
  match blkFind s blk kind iname iid with
  | none => (s, .error .stdRuntime)
  | some t =>
    let id := idOf s t
    if s.hasObject c id then (s, .error .h5Error) else
    (s.addLink c id t, .ok ())

/-- GroupHDF5::removeEntity -/
def removeMember (s : Store) (grp : ObjId) (kind iname iid : String) : Store × Bool :=
  match s.optGroup grp (groupContainer kind), grpFind s grp kind iname iid with
  | some p, some e => (s.removeGroup p (idOf s e), true)
  | _, _ => (s, false)

-- ---------------------------------------------------------------------------------------------------------
-- plain fields

/-- a setter that refuses the empty string and otherwise writes an attribute -/
def setNonEmpty (s : Store) (o : ObjId) (k v : String) : Res Unit :=
  if tokEmpty v then (s, .error .emptyString) else (s.setAttr o k v, .ok ())

def unsetAttr (s : Store) (o : ObjId) (k : String) : Res Unit := (s.removeAttr o k, .ok ())

end Nix.St
