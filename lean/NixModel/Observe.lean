import NixModel.Entities
import NixModel.Dump
/-
  observe : Store → Dump — what the public getters expose, in the canonical order of the harness op `dump`
  (harness/fam_store.cpp dumpFile): file record, blocks by index (per block: data arrays, data frames, tags,
  multi tags, groups, sources depth first), then sections depth first (properties before sub-sections).

  Fields the store model does not carry (array data digest, dimension descriptors, calibration, property values,
  row counts, the file's own creation time) are printed as `?` and skipped by the comparison.
-/
namespace Nix.St
open Nix Nix.Proto

def tokOr (o : Option String) : String := o.getD "~"

def attrTok (s : Store) (o : ObjId) (k : String) : String := tokOr (s.attr? o k)

/-- EntityWithMetadataHDF5::metadata() / SectionHDF5::link(): the link target's id, looked up again in the section tree -/
def sectionLinkTok (s : Store) (o : ObjId) (field : String) : String :=
  match s.optGroup o field with
  | some t => match findSectionById s (idOf s t) with
    | some f => idOf s f
    | none => "~"
  | none => "~"

def idsTok (s : Store) (o : ObjId) (cname : String) : String := fmtList (childIds s o cname)

/-- MultiTag::positions(): the link must exist and the array must be found in the block by name and id -/
def positionsTok (s : Store) (mt blk : ObjId) : String :=
  match s.optGroup mt "positions" with
  | some p => if (blkFind s blk "A" (nameOf s p) (idOf s p)).isSome then idOf s p else "!StdRuntime"
  | none => "!StdRuntime"

/-- MultiTag::extents() / Feature::data(): no link ⇒ none; link to an array that is not in the block ⇒ error -/
def optArrayTok (s : Store) (holder blk : ObjId) (field : String) : String :=
  match s.optGroup holder field with
  | some p => if (blkFind s blk "A" (nameOf s p) (idOf s p)).isSome then idOf s p else "!StdRuntime"
  | none => "~"

def featsTok (s : Store) (tag blk : ObjId) : String :=
  match s.optGroup tag "features" with
  | some c => fmtList ((s.linksOf c).map fun l => s!"{idOf s l.2}:{attrTok s l.2 "link_type"}:{optArrayTok s l.2 blk "data"}")
  | none => "[]"

def baseRec (s : Store) (kind path : String) (o : ObjId) (fields : List (String × String)) : Rec :=
  { kind := kind, path := path, id := idOf s o, name := fmtStr (nameOf s o), type := attrTok s o "type",
    created := attrTok s o "created_at", fields := fields }

def children (s : Store) (o : ObjId) (cname : String) : List ObjId :=
  match s.optGroup o cname with
  | some c => (s.linksOf c).map (·.2)
  | none => []

/-- sources depth first -/
def dumpSources (s : Store) : Nat → String → List ObjId → List Rec
  | 0, _, _ => []
  | fuel + 1, prefix_, os =>
    (os.zipIdx).flatMap fun (o, i) =>
      let p := s!"{prefix_}o{i}"
      baseRec s "O" p o [("def", attrTok s o "definition"), ("meta", sectionLinkTok s o "metadata")]
        :: dumpSources s fuel (p ++ "/") (children s o "sources")

def dumpSections (s : Store) : Nat → String → List ObjId → List Rec
  | 0, _, _ => []
  | fuel + 1, prefix_, os =>
    (os.zipIdx).flatMap fun (o, i) =>
      let p := s!"{prefix_}s{i}"
      let props := ((children s o "properties").zipIdx).map fun (d, k) =>
        ({ kind := "P", path := s!"{p}/p{k}", id := idOf s d, name := fmtStr (nameOf s d), type := "x",
           created := attrTok s d "created_at",
           fields := [("dtype", attrTok s d "ds:dtype"), ("unit", "?"), ("def", "?"), ("unc", "?"), ("n", "?"), ("vals", "?")] } : Rec)
      baseRec s "S" p o [("def", attrTok s o "definition"), ("repo", attrTok s o "repository"), ("link", sectionLinkTok s o "link")]
        :: (props ++ dumpSections s fuel (p ++ "/") (children s o "sections"))

def dumpBlock (s : Store) (b : ObjId) (path : String) : List Rec :=
  let withSrcMeta (o : ObjId) : List (String × String) := [("srcs", idsTok s o "sources"), ("meta", sectionLinkTok s o "metadata")]
  let arrays := ((children s b "data_arrays").zipIdx).map fun (o, i) =>
    baseRec s "A" s!"{path}/a{i}" o ([("def", attrTok s o "definition"), ("label", attrTok s o "label"), ("unit", attrTok s o "unit"),
      ("dtype", attrTok s o "ds:dtype"), ("shape", "?"), ("origin", "?"), ("poly", "?"), ("dims", "?")] ++ withSrcMeta o ++ [("data", "?")])
  let frames := ((children s b "data_frames").zipIdx).map fun (o, i) =>
    baseRec s "D" s!"{path}/d{i}" o ([("def", attrTok s o "definition"), ("cols", attrTok s o "ds:cols"), ("rows", "?")] ++ withSrcMeta o)
  let tags := ((children s b "tags").zipIdx).map fun (o, i) =>
    baseRec s "T" s!"{path}/t{i}" o ([("def", attrTok s o "definition"), ("pos", (s.attr? o "ds:position").getD "[]"),
      ("ext", (s.attr? o "ds:extent").getD "[]"), ("units", (s.attr? o "ds:units").getD "[]"),
      ("refs", idsTok s o "references"), ("feats", featsTok s o b)] ++ withSrcMeta o)
  let mtags := ((children s b "multi_tags").zipIdx).map fun (o, i) =>
    baseRec s "M" s!"{path}/m{i}" o ([("def", attrTok s o "definition"), ("positions", positionsTok s o b),
      ("extents", optArrayTok s o b "extents"), ("units", (s.attr? o "ds:units").getD "[]"),
      ("refs", idsTok s o "references"), ("feats", featsTok s o b)] ++ withSrcMeta o)
  let groups := ((children s b "groups").zipIdx).map fun (o, i) =>
    baseRec s "G" s!"{path}/g{i}" o ([("def", attrTok s o "definition"), ("das", idsTok s o "data_arrays"), ("dfs", idsTok s o "data_frame"),
      ("tags", idsTok s o "tags"), ("mtags", idsTok s o "multi_tags")] ++ withSrcMeta o)
  baseRec s "B" path b [("def", attrTok s b "definition"), ("meta", sectionLinkTok s b "metadata")]
    :: (arrays ++ frames ++ tags ++ mtags ++ groups ++ dumpSources s (fuelOf s) (path ++ "/") (children s b "sources"))

def observe (s : Store) : Dump :=
  let fileRec : Rec := { kind := "F", path := "", id := attrTok s 0 "id", name := "x", type := "x", created := "?",
                         fields := [("format", attrTok s 0 "format"), ("version", attrTok s 0 "version")] }
  let blocks := (((s.linksOf dataGrp).map (·.2)).zipIdx).flatMap fun (b, i) => dumpBlock s b s!"b{i}"
  fileRec :: (blocks ++ dumpSections s (fuelOf s) "" ((s.linksOf metadataGrp).map (·.2)))

/-- equality of two dumps on the fields the model carries (`?` = not modelled) -/
def recAgrees (m i : Rec) : Bool :=
  m.kind == i.kind && m.path == i.path && m.id == i.id && m.name == i.name && m.type == i.type &&
  (m.created == "?" || m.created == i.created) &&
  m.fields.length == i.fields.length &&
  (m.fields.zip i.fields).all fun (a, b) => a.1 == b.1 && (a.2 == "?" || a.2 == b.2)

def firstDisagreement (model impl : Dump) : Option String :=
  let rec go : List Rec → List Rec → Option String
    | [], [] => none
    | m :: ms, i :: is => if recAgrees m i then go ms is else
        some ((s!"record {m.kind} {m.path}: model {repr m} impl {repr i}".replace "\n" " "))
    | m :: _, [] => some s!"model has an extra record {m.kind} {m.path}"
    | [], i :: _ => some s!"implementation has an extra record {i.kind} {i.path}"
  go model impl

end Nix.St
