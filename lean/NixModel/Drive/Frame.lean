import NixModel.DataFrame
import NixModel.Spec.C15
import NixModel.Drive.Common
import NixModel.Drive.State
import NixModel.Drive.Props
/-
  Driver handler of the `frame` family (C15): replays every `df_*` op on the frame model (DIFF) and evaluates the
  history rule of Spec/C15.lean on what the implementation answered (REL).  Cell values are the trace tokens.
-/
namespace Nix.Drive.Frame
open Nix Nix.Proto Nix.Drive Nix.PV Nix.DF
open Nix.Drive.Props (dtypeName parseDType zeroTok parseVariant fmtVariant parseVariants implOk errOut)

/-- numeric member conversion on tokens, for the exactly representable values the generators use -/
def convTok (src dst : DType) (tok : String) : String :=
  match src, dst with
  | .double, .double => tok
  | .double, _ => (match parseF64 tok with | some f => toString f.toInt64.toInt | none => tok)
  | _, .double => (match parseInt tok with | some i => fmtF64 (Float.ofInt i) | none => tok)
  | _, _ => tok

abbrev Ev := C15.Ev String

def parseCol (t : String) : Option Col :=
  match t.splitOn ":" with
  | [n, u, ty] => do
    let n ← parseStr n; let u ← parseStr u; let ty ← parseDType ty
    pure { name := n, unit := u, dtype := ty }
  | _ => none
def fmtCol (c : Col) : String := fmtStr c.name ++ ":" ++ fmtStr c.unit ++ ":" ++ dtypeName c.dtype

def parseRef (t : String) : Option Ref :=
  match t.toList with
  | 'n' :: rest => (parseStr (String.ofList rest)).map Ref.name
  | 'i' :: rest => (parseNat (String.ofList rest)).map Ref.idx
  | _ => none

def parseCellTok (t : String) : Option (Ref × Variant String) :=
  match t.splitOn "=" with
  | [r, v] => do let r ← parseRef r; let v ← parseVariant v; pure (r, v)
  | _ => none

def sentinel : DType → String
  | .double => "d401c000000000000"
  | .string => "x7e"
  | _ => "7"

open Nix.C15 (resolveRef resolveCellRef)

def okOr {α} (r : Except Err α) (f : α → List String) : List String :=
  match r with
  | .ok a => "ok" :: f a
  | .error e => ["err", e.name]

def errTag {α} (r : Except Err α) : String :=
  match r with | .ok _ => "ok" | .error e => e.name

def fmtCells (l : List (String × Variant String)) : String := fmtList (l.map fun c => fmtStr c.1 ++ "=" ++ fmtVariant c.2)

/-- the rules on a write of cells to one row, judged from the history alone -/
def cellWriteRules (h : List Ev) (row : Nat) (cells : List (Ref × Variant String)) (impl : List String) : List (String × Bool) :=
  let cols := C15.schemaOf h
  let resolved := cells.map fun c => (resolveCellRef cols c.1, c.2)
  if resolved.any (fun c => c.1.isNone) then [("write_to_a_missing_column_is_rejected", !implOk impl)] else
  if row ≥ C15.rowsAfter h then [("write_past_the_last_row_is_rejected", !implOk impl)] else
  let idxs := resolved.filterMap (·.1)
  if !cells.isEmpty && idxs.Nodup && C15.writableAfter h && resolved.all (fun c => c.2.ty == C15.typeAt cols (c.1.getD 0) && c.2.ty.isValueType)
  then [("well_formed_write_is_accepted", implOk impl)] else []

def resolvedCells (h : List Ev) (cells : List (Ref × Variant String)) : List (Nat × Variant String) :=
  C15.resolvedCells (C15.schemaOf h) cells

def handle (st : DState) (op : String) (args impl : List String) : Option (DState × Out) :=
  let fr := st.dp.fr
  let upd (m : FSt String) (h : List Ev) : DState := { st with dp := { st.dp with fr := { model := m, hist := h, opened := true } } }
  let stepM (mop : Op String) := step zeroTok convTok fr.model mop
  let lastCell (r c : Nat) : String := C15.lastCell zeroTok convTok (C15.schemaOf fr.hist) fr.hist r c
  let cols := C15.schemaOf fr.hist
  let nrows := C15.rowsAfter fr.hist
  let exists_ := !cols.isEmpty
  -- a mutator: model step, event when the implementation accepted, verdict
  let exec (tag : String) (mop : Op String) (ev : Option Ev) (rules : List (String × Bool)) : DState × Out :=
    let r := stepM mop
    let h := if implOk impl then (match ev with | some e => e :: fr.hist | none => fr.hist) else fr.hist
    let tag' := tag ++ (match r.2 with | none => ".ok" | some e => "." ++ e.name)
    (upd r.1 h, judge tag' (errOut r.2) impl rules)
  -- a reader: model answer, verdict
  let onFrame (f : Frame String → DState × Out) : DState × Out :=
    match fr.model.frame with
    | some m => f m
    | none => (st, cmp (op ++ ".noframe") ["err", "UninitializedEntity"] impl)
  if op.startsWith "df_" && op != "df_new" && !fr.opened then some (st, .malformed (op ++ " before df_new")) else
  match op with
  | "df_new" => some <|
    match args with
    | [colsTok] =>
      match parseListOf parseCol colsTok with
      | some cs =>
        let r := step zeroTok convTok ({} : FSt String) (.create cs)
        let h : List Ev := if implOk impl then [.created cs] else []
        let wf := !cs.isEmpty && cs.all (fun c => c.dtype.isValueType && !c.name.isEmpty) && (cs.map (·.name)).Nodup
        let rules := if wf then [("well_formed_schema_is_accepted", implOk impl)] else [("malformed_schema_is_rejected", !implOk impl)]
        (upd r.1 h, judge ("df_new" ++ (match r.2 with | none => ".ok" | some e => "." ++ e.name)) (errOut r.2) impl rules)
      | none => (st, .malformed "df_new")
    | _ => (st, .malformed "df_new")
  | "df_exists" => some <|
    let model := if fr.model.frame.isSome then ["ok", "1", "1"] else ["ok", "0", "0"]
    (st, judge "df_exists" model impl [("a_rejected_creation_leaves_no_frame", exists_ || impl == ["ok", "0", "0"])])
  | "df_rows" => some <|
    match args.map parseNat with
    | [some n] => exec "df_rows" (.setRows n) (some (.rows n))
        (if exists_ && C15.writableAfter fr.hist then [("row_count_change_is_accepted", implOk impl)] else [])
    | _ => (st, .malformed "df_rows")
  | "df_nrows" => some <| onFrame fun m =>
    (st, judge "df_nrows" ["ok", toString m.nrows] impl [("row_count_is_the_last_set", !exists_ || impl == ["ok", toString nrows])])
  | "df_cols" => some <| onFrame fun m =>
    (st, judge "df_cols" ["ok", fmtList (m.cols.map fmtCol)] impl
      [("schema_is_as_created", !exists_ || impl == ["ok", fmtList (cols.map fmtCol)])])
  | "df_colname" => some <|
    match args.map parseNat with
    | [some k] => onFrame fun m =>
      (st, judge ("df_colname." ++ errTag (m.colName k)) (okOr (m.colName k) fun n => [fmtStr n]) impl
        (if !exists_ then [] else match cols[k]? with
          | some c => [("column_name_is_as_created", impl == ["ok", fmtStr c.name])]
          | none => [("column_index_out_of_range_is_rejected", !implOk impl)]))
    | _ => (st, .malformed "df_colname")
  | "df_colidx" => some <|
    match args.map parseStr with
    | [some n] => onFrame fun m =>
      let r : Except Err Nat := match m.colIndex n with | some i => .ok i | none => .error .h5Error
      (st, judge ("df_colidx." ++ errTag r) (okOr r fun i => [toString i]) impl
        (if !exists_ then [] else match resolveRef cols (.name n) with
          | some i => [("column_index_is_as_created", impl == ["ok", toString i])]
          | none => [("unknown_column_name_is_rejected", !implOk impl)]))
    | _ => (st, .malformed "df_colidx")
  | "df_wrow" => some <|
    match args with
    | [row, vals] =>
      match parseNat row, parseVariants vals with
      | some row, some vs =>
        let cells := (List.range vs.length).zip vs |>.map fun kv => (Ref.idx kv.1, kv.2)
        exec "df_wrow" (.writeRow row vs) (some (.cells row (resolvedCells fr.hist cells))) (if exists_ then cellWriteRules fr.hist row cells impl else [])
      | _, _ => (st, .malformed "df_wrow")
    | _ => (st, .malformed "df_wrow")
  | "df_wcells" => some <|
    match args with
    | [row, cellsTok] =>
      match parseNat row, parseListOf parseCellTok cellsTok with
      | some row, some cells =>
        exec "df_wcells" (.writeCells row cells) (some (.cells row (resolvedCells fr.hist cells))) (if exists_ then cellWriteRules fr.hist row cells impl else [])
      | _, _ => (st, .malformed "df_wcells")
    | _ => (st, .malformed "df_wcells")
  | "df_wcell" => some <|
    match args with
    | [row, col, v] =>
      match parseNat row, parseNat col, parseVariant v with
      | some row, some col, some v =>
        let cells := [(Ref.idx col, v)]
        exec "df_wcell" (.writeCells row cells) (some (.cells row (resolvedCells fr.hist cells))) (if exists_ then cellWriteRules fr.hist row cells impl else [])
      | _, _, _ => (st, .malformed "df_wcell")
    | _ => (st, .malformed "df_wcell")
  | "df_wcol" => some <|
    match args with
    | [ref, ty, vals, off, count] =>
      match parseRef ref, parseDType ty, parseList vals, parseNat off, parseNat count with
      | some ref, some ty, some vs, some off, some count =>
        let cnt := if count == 0 then vs.length else count
        let ev : Option Ev := match resolveRef cols ref with
          | some c => if cnt > 0 then some (.column c ty off (vs.take cnt)) else none
          | none => none
        let rules : List (String × Bool) :=
          if !exists_ then [] else
          if count > vs.length then [("count_beyond_the_data_is_rejected", impl == ["err", "OutOfBounds"])] else
          match resolveRef cols ref with
          | none => [("write_to_a_missing_column_is_rejected", !implOk impl)]
          | some c =>
            if cnt > 0 && off + cnt > nrows then [("write_past_the_last_row_is_rejected", !implOk impl)] else
            if cnt > 0 && ty == C15.typeAt cols c && C15.writableAfter fr.hist then [("well_formed_write_is_accepted", implOk impl)] else []
        exec "df_wcol" (.writeColumn ref ty vs off count) ev rules
      | _, _, _, _, _ => (st, .malformed "df_wcol")
    | _ => (st, .malformed "df_wcol")
  | "df_rrow" => some <|
    match args.map parseNat with
    | [some row] => onFrame fun m =>
      let r := m.readRow row
      let rules : List (String × Bool) :=
        if !exists_ then [] else
        if row < nrows then [("row_read_returns_the_last_written_cells",
            impl == ["ok", fmtList ((C15.expectRow zeroTok convTok fr.hist row).map fmtVariant)])]
        else [("read_past_the_last_row_is_rejected", !implOk impl)]
      (st, judge ("df_rrow." ++ errTag r) (okOr r fun vs => [fmtList (vs.map fmtVariant)]) impl rules)
    | _ => (st, .malformed "df_rrow")
  | "df_rcells" => some <|
    match args with
    | [row, names] =>
      match parseNat row, parseListOf parseStr names with
      | some row, some names => onFrame fun m =>
        let r := m.readCells row names
        let idxs := names.map fun n => resolveRef cols (.name n)
        let rules : List (String × Bool) :=
          if !exists_ then [] else
          if idxs.any (·.isNone) then [("read_of_a_missing_column_is_rejected", !implOk impl)] else
          if row ≥ nrows then [("read_past_the_last_row_is_rejected", !implOk impl)] else
          if names.isEmpty || !names.Nodup then [] else
          [("cell_read_returns_the_last_written_value", impl == ["ok", fmtCells (names.map fun n =>
              let c := (resolveRef cols (.name n)).getD 0
              (n, { ty := C15.typeAt cols c, val := lastCell row c }))])]
        (st, judge ("df_rcells." ++ errTag r) (okOr r fun cs => [fmtCells cs]) impl rules)
      | _, _ => (st, .malformed "df_rcells")
    | _ => (st, .malformed "df_rcells")
  | "df_rcell" => some <|
    match args with
    | [row, ref] =>
      match parseNat row, parseRef ref with
      | some row, some ref => onFrame fun m =>
        let r := m.readCell zeroTok row ref
        let rules : List (String × Bool) :=
          if !exists_ then [] else
          match resolveRef cols ref with
          | none => [("read_of_a_missing_column_is_rejected", !implOk impl)]
          | some c =>
            if row ≥ nrows then [("read_past_the_last_row_is_rejected", !implOk impl)] else
            [("cell_read_returns_the_last_written_value",
              impl == ["ok", fmtStr ((cols[c]?).map (·.name) |>.getD "") ++ "=" ++ fmtVariant { ty := C15.typeAt cols c, val := lastCell row c }])]
        (st, judge ("df_rcell." ++ errTag r) (okOr r fun c => [fmtStr c.1 ++ "=" ++ fmtVariant c.2]) impl rules)
      | _, _ => (st, .malformed "df_rcell")
    | _ => (st, .malformed "df_rcell")
  | "df_rcol" | "df_rcolc" => some <|
    let parsed : Option (Ref × DType × Nat × Option Nat × Bool × Nat) :=
      match op, args with
      | "df_rcol", [ref, ty, k, rs, off] => do
        let ref ← parseRef ref; let ty ← parseDType ty; let k ← parseNat k; let off ← parseNat off
        pure (ref, ty, k, none, rs != "0", off)
      | "df_rcolc", [ref, ty, k, cnt, rs, off] => do
        let ref ← parseRef ref; let ty ← parseDType ty; let k ← parseNat k; let cnt ← parseNat cnt; let off ← parseNat off
        pure (ref, ty, k, some cnt, rs != "0", off)
      | _, _ => none
    match parsed with
    | none => (st, .malformed op)
    | some (ref, ty, k, cnt?, resize, off) => onFrame fun m =>
      let buf := List.replicate k (sentinel ty)
      let r := match cnt? with
        | none => m.readColumn zeroTok convTok ref ty buf resize off
        | some cnt => m.readColumnN zeroTok convTok ref ty buf cnt resize off
      let rules : List (String × Bool) :=
        if !exists_ then [] else
        match resolveRef cols ref with
        | none => [("read_of_a_missing_column_is_rejected", !implOk impl)]
        | some c =>
          -- the number of elements the call transfers, per the header templates
          let count? : Option Nat := match cnt?, resize with
            | none, true => if off > nrows then none else some (nrows - off)
            | none, false => some k
            | some cnt, true => some cnt
            | some cnt, false => if cnt > k then none else some cnt
          match count? with
          | none => [("request_beyond_the_buffer_or_rows_is_OutOfBounds", impl == ["err", "OutOfBounds"])]
          | some count =>
            if count > 0 && off + count > nrows then [("read_past_the_last_row_is_rejected", !implOk impl)] else
            if ty != C15.typeAt cols c && !(isNumeric ty && isNumeric (C15.typeAt cols c)) then [] else
            let expect := C15.expectColumn zeroTok convTok fr.hist c ty off count
            let tail := if resize then [] else List.replicate (k - count) (sentinel ty)
            [("column_read_returns_the_last_written_values", impl == ["ok", fmtList (expect ++ tail)])]
      (st, judge (op ++ "." ++ errTag r) (okOr r fun vs => [fmtList vs]) impl rules)
  | "df_reopen" => some <|
    match args with
    | [mode] => exec ("df_reopen." ++ mode) (.reopen (mode == "rw")) (some (.reopened (mode == "rw"))) []
    | _ => (st, .malformed "df_reopen")
  | _ => none

end Nix.Drive.Frame
