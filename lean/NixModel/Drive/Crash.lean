import NixModel.Session
import NixModel.Spec.C11
import NixModel.Drive.Common
import NixModel.Drive.State
import NixModel.Drive.Store
/-
  crash family (C11): the worker's ops (`cr_in …`) are replayed on the bookkeeping model (Session.lean) — modifying calls, dumps
  (where the model learns the content), flush, close, the kill — and the reopen after the kill is compared with the model's disk
  image (DIFF) and judged by the relations of Spec/C11.lean on the implementation's answers (REL).  The inner op of a `cr_in` line
  is also handed to the store family's handler, so its own rules (ids, cross-checks) keep applying inside the worker.
-/
namespace Nix.Drive.Crash
open Nix Nix.Proto Nix.Drive Nix.Sess Nix.C11

def isErr (impl : List String) : Bool := impl.head? == some "err"

def readOnly : List String := Store.readOnlyOps ++ ["dims", "gdim", "pget", "da_read1", "fisopen", "fbytes", "cr_h5count", "cr_held", "fm_stat", "fm_snap"]
def closers : List String := ["fclose", "fdrop", "cr_close", "fm_close"]

def parseCount : List String → Option IdCount
  | ["ok", f, g, d, t, a] => do
    let f ← parseNat f; let g ← parseNat g; let d ← parseNat d; let t ← parseNat t; let a ← parseNat a
    pure { files := f, groups := g, datasets := d, datatypes := t, attrs := a }
  | _ => none

/-- the model's `mutate`: the content is unknown until the next dump -/
def unknown : List String → List String := fun _ => ["?"]

/-- replay one op of the session under test on the model -/
def replay (st : CrashSt) (op : String) (args impl : List String) : CrashSt :=
  let ok := !isErr impl
  if op == "fopen" || op == "fm_open" then
    if ok then { st with model := some (Sess.init ["?"] [1, 2, 3]), lastDump := none, durable := none, nextId := 10, closedInProc := false }
    else { st with model := none, lastDump := none }
  else if op == "dump" then
    if ok then
      let toks := impl.drop 1
      -- the model learns the content here; a clean session's disk image is its live state
      let m := st.model.map fun m => if m.dirty then { m with live := toks } else { m with live := toks, disk := toks }
      { st with model := m, lastDump := some toks }
    else st
  else if op == "fflush" then
    if impl == ["ok", "1"] then
      { st with model := st.model.map (Sess.step · .flush), durable := st.lastDump.map (·, Durable.flush) }
    else st
  else if closers.contains op then
    { st with model := st.model.map (Sess.step · .close), durable := st.lastDump.map (·, Durable.close), closedInProc := op == "cr_close" }
  else if op == "cr_hold" then
    { st with model := st.model.map (Sess.step · (.acquire st.nextId)), nextId := st.nextId + 1 }
  else if op == "mk" || op == "get" then
    -- a handle in a slot (mk also modifies)
    let m := st.model.map (Sess.step · (.acquire st.nextId))
    if op == "mk" then { st with model := m.map (Sess.step · (.mutate unknown)), nextId := st.nextId + 1, lastDump := none, durable := none }
    else { st with model := m, nextId := st.nextId + 1 }
  else if readOnly.contains op then st
  else
    -- any other call may have modified the file: the property is silent until the next flush / close
    { st with model := st.model.map (Sess.step · (.mutate unknown)), lastDump := none, durable := none }

def handle (ds : DState) (op : String) (args impl : List String) : Option (DState × Out) :=
  let st := ds.fileFam.crash
  let put (ds : DState) (st : CrashSt) : DState := { ds with fileFam := { ds.fileFam with crash := st } }
  let fin (st : CrashSt) (o : Out) : Option (DState × Out) := some (put ds st, o)
  match op with
  | "cr_linkpath" => fin st (if impl == ["ok"] then .ok "linkpath" else .malformed "cr_linkpath")
  | "cr_fork" => fin { st with inWorker := true, model := none, lastDump := none, durable := none } (if impl == ["ok"] then .ok "fork" else .malformed "cr_fork")
  | "cr_in" =>
    match args with
    | inner :: iargs =>
      let st' := replay st inner iargs impl
      -- the inner op's own verdict
      match Store.handle (put ds st') inner iargs impl with
      | some (ds', o) =>
        let o' := match o with
          | .ok t => .ok s!"in.{t}"
          | other => other
        some (ds', o')
      | none => fin st' (.ok s!"in.{inner}.{if isErr impl then "err" else "ok"}")
    | [] => fin st (.malformed "cr_in")
  | "cr_end" =>
    match args, impl with
    | [how], ["ok", status] =>
      let expected := if how == "kill" then "signal9" else if how == "exit" then "exit0" else "signal6"
      if status != expected then fin st (.malformed s!"worker ended with {status}") else
      -- the model's crash: only the disk image survives
      let m := st.model.map fun m => { m with live := Sess.crash m, fileOpen := false, ids := [], dirty := false }
      fin { st with inWorker := false, model := m, lastDump := none } (.ok s!"end.{how}.{match st.durable with | some (_, .flush) => "after_flush" | some (_, .close) => "after_close" | none => "unpromised"}")
    | _, _ => fin st (.malformed "cr_end")
  | "cr_reopen" =>
    match args with
    | [mode] =>
      let reopened : Option (List String) := match impl with
        | "ok" :: "1" :: toks => some toks
        | _ => none
      let res := if isErr impl then (impl[1]?).getD "err" else "ok"
      if mode == "ow" then
        fin { st with durable := none, model := none } (judge s!"reopen.ow.{res}" [] [] [("closed_file_can_be_truncated_in_process", relCanTruncate reopened)])
      else
      match st.durable with
      | some (d, how) =>
        let rule := match how with
          | .flush => "kill_after_flush_loses_nothing"
          | .close => "kill_after_close_loses_nothing"
        let modelToks := match st.model with
          | some m => if m.disk == ["?"] then [] else m.disk
          | none => []
        let implToks := if modelToks.isEmpty then [] else (reopened.getD ["refused", res])
        fin st (judge s!"reopen.{mode}.{match how with | .flush => "after_flush" | .close => "after_close"}.{res}" modelToks implToks
                  [(rule, relKilledAfterDurable d reopened)])
      | none => fin st (.ok s!"reopen.{mode}.unpromised.{res}")
    | _ => fin st (.malformed "cr_reopen")
  | "cr_h5count" =>
    match parseCount impl with
    | none => fin st (.malformed "cr_h5count answer")
    | some c =>
      match st.baseline with
      | none => fin { st with baseline := some c } (.ok "h5count.baseline")
      | some b =>
        if st.closedInProc then
          -- model: the force-close loop leaves no id
          let modelLeft := match st.model with | some m => toString m.ids.length | none => "0"
          let implLeft := toString ((c.groups - b.groups) + (c.datasets - b.datasets) + (c.files - b.files))
          fin st (judge "h5count.after_close" [modelLeft] [implLeft] [("close_releases_every_id", relReleased b c)])
        else fin st (.ok s!"h5count.open.{if c.groups > b.groups + 3 then "many" else "few"}")
  | "cr_hold" =>
    if isErr impl then fin st (.ok "hold.err") else fin (replay st "cr_hold" args impl) (.ok s!"hold.{(args[1]?).getD ""}")
  | "cr_close" =>
    let st' := replay st "cr_close" args impl
    fin st' (judge "close.with_live_handles" ["ok", "0"] impl [("isopen_false_after_close", impl == ["ok", "0"])])
  | "cr_use" =>
    let inner := (args.head?).getD "?"
    if st.closedInProc then
      let modelToks := match st.model with
        | some m => (match Sess.useHandle m 10 with | .ok _ => ["ok"] | .error _ => ["err"])
        | none => ["err"]
      fin st (judge s!"use.stale.{inner}.{if isErr impl then (impl[1]?).getD "err" else "ok"}" modelToks (impl.take 1)
                [("call_through_stale_handle_fails", relStaleHandleFails (isErr impl))])
    else fin (replay st inner (args.drop 1) impl) (.ok s!"use.live.{inner}")
  | "cr_held" =>
    match args with
    | [kind, _, what] =>
      -- a second session on the same path: its close answers "not open any more"
      if kind == "file2" then fin st (judge s!"held.file2.{what}" [] [] [("isopen_false_after_close", impl == ["ok", "0"])]) else
      if st.closedInProc then
        let touches := (kind == "dim" && what == "read") || (kind == "view" && (what == "read" || what == "write")) ||
                       (kind == "file" && (what == "blocks" || what == "id" || what == "mk")) || kind == "copy"
        let rules := if touches then [("call_through_stale_handle_fails", relStaleHandleFails (isErr impl))]
                     else if kind == "file" && what == "isopen" then [("isopen_false_after_close", impl == ["ok", "0"])] else []
        fin st (judge s!"held.stale.{kind}.{what}.{if isErr impl then (impl[1]?).getD "err" else "ok"}" [] [] rules)
      else fin st (.ok s!"held.live.{kind}.{what}")
    | _ => fin st (.malformed "cr_held")
  | _ => none

end Nix.Drive.Crash
