import NixModel.Search
import NixModel.Spec.C20
import NixModel.Drive.Common
import NixModel.Drive.State
/-
  Search family (C20): every `sr_*` query is answered by the model of Search.lean on the forest rebuilt from the last
  dump (DIFF), and judged directly against the brute-force reading of that dump (REL, Spec/C20 part 2).
-/
namespace Nix.Drive.Search
open Nix Nix.Proto Nix.Drive Nix.Dump Nix.Search

def optId (v : String) : Option String := if v.length == 36 then some v else none
def decode (tok : String) : String := (parseStr tok).getD tok

def childRecs (d : Dump) (kind parent : String) : List Rec :=
  d.filter fun r => r.kind == kind && parentPath r.path == parent && r.path != parent

/-- where the links of the forest come from: the accepted operations of the history (Drive/State `SearchSt`) for the
    entities the tracker followed, the dump's getters for the rest -/
structure Links where
  md : Rec → String           -- section id or "~"
  link : Rec → String
  srcs : Rec → List String

def isAlive (d : Dump) (kind id : String) : Bool := d.any fun r => r.kind == kind && r.id == id

def linksOf (h : SearchSt) (d : Dump) : Links :=
  let single (tab : List (String × Option String)) (field : String) (r : Rec) : String :=
    if h.untracked.contains r.id then r.field field else
    match tab.find? (·.1 == r.id) with
    | some (_, some t) => if isAlive d "S" t then t else "~"     -- deleting a section removes every link to it
    | _ => "~"
  { md := single h.md "meta", link := single h.seclink "link",
    srcs := fun r =>
      if h.untracked.contains r.id then (parseList (r.field "srcs")).getD [] else
      match h.srcs.find? (·.1 == r.id) with
      | some (_, l) => l.filter (isAlive d "O")
      | none => [] }

def secForest (lk : Links) (d : Dump) : Nat → String → List Sec
  | 0, _ => []
  | fuel + 1, parent => (childRecs d "S" parent).map fun r =>
      .node { id := r.id, name := decode r.name, type := decode r.type, link := optId (lk.link r),
              props := (childRecs d "P" r.path).map fun p => { id := p.id, name := decode p.name } }
            (secForest lk d fuel r.path)

def srcForest (lk : Links) (d : Dump) : Nat → String → List Src
  | 0, _ => []
  | fuel + 1, parent => (childRecs d "O" parent).map fun r =>
      .node { id := r.id, name := decode r.name, type := decode r.type, md := optId (lk.md r) } (srcForest lk d fuel r.path)

def holders (lk : Links) (d : Dump) (kind parent : String) : List Holder :=
  (childRecs d kind parent).map fun r => { id := r.id, md := optId (lk.md r), srcs := lk.srcs r }

def worldOf (lk : Links) (d : Dump) : World :=
  let fuel := d.length + 1
  { sections := secForest lk d fuel "",
    blocks := (d.filter fun r => r.kind == "B").map fun b =>
      { id := b.id, md := optId (lk.md b), das := holders lk d "A" b.path, tags := holders lk d "T" b.path,
        mtags := holders lk d "M" b.path, sources := srcForest lk d fuel b.path } }

mutual
/-- the node with the given id and the chain of nodes above it, nearest first -/
def locate {α : Type} (p : α → Bool) (anc : List (Tree α)) : Tree α → Option (Tree α × List (Tree α))
  | .node v cs => if p v then some (.node v cs, anc) else locateL p (.node v cs :: anc) cs
def locateL {α : Type} (p : α → Bool) (anc : List (Tree α)) : List (Tree α) → Option (Tree α × List (Tree α))
  | [] => none
  | t :: ts => match locate p anc t with
    | some r => some r
    | none => locateL p anc ts
end

structure Query where
  model : Flt
  rel : C20.Rel.F
  kind : String

def slotId (st : StoreSt) (slot : String) : Option String := (st.slotIds.find? (·.1 == slot)).map (·.2)

/-- `$slot` ↦ the id the implementation reported for that slot; `xHEX` ↦ the string -/
def strOrId (st : StoreSt) (tok : String) : Option String :=
  if tok.startsWith "$" then slotId st tok else parseStr tok

def parseFilter (st : StoreSt) (fk fa : String) : Option Query :=
  match fk with
  | "all" | "acc" => some ⟨.all, .all, fk⟩
  | "id" => (strOrId st fa).map fun s => ⟨.id s, .id s, fk⟩
  | "ids" => do
    let toks ← parseList fa
    let l ← toks.mapM (strOrId st)
    pure ⟨.ids l, .ids l, fk⟩
  | "name" => (parseStr fa).map fun s => ⟨.name s, .name fa, fk⟩
  | "type" => (parseStr fa).map fun s => ⟨.type s, .type fa, fk⟩
  | "nt" =>
    match fa.splitOn ":" with
    | [n, t] => do
      let ns ← parseStr n
      let ts ← parseStr t
      pure ⟨.nameType ns ts, .nameType n t, fk⟩
    | _ => none
  | _ => none

def parseDepth (tok : String) : Option (Nat × Option Nat) :=
  if tok == "def" then some (unlimited, none) else (parseNat tok).map fun n => (n, some n)

def okIds (ids : List String) : List String := ["ok", fmtList ids]
def implIds (impl : List String) : Option (List String) :=
  match impl with
  | ["ok", l] => parseList l
  | _ => none

def depthClass (lim : Option Nat) (reach : Nat) : String :=
  match lim with
  | none => "def"
  | some 0 => "d0"
  | some n => if n < reach then "cut" else if n == reach then "exact" else "beyond"

def sorted (toks : List String) : List String :=
  match toks with
  | ["ok", l] => ["ok", fmtList (C20.Rel.sortStr ((parseList l).getD []))]
  | t => t

/-- verdict for a query whose answer is an id list: rules on the implementation's answer, then model vs implementation;
    `ordered = false` compares as sets (the property promises no order there) -/
def verdict (tag : String) (model : List String) (impl : List String) (ordered : Bool) (rules : List String → List (String × Bool)) : Out :=
  match implIds impl with
  | none => if model == impl then .ok (tag ++ ".err") else .rel tag "query_answers_with_a_list"
  | some ans =>
    let t := tag ++ (if ans.isEmpty then ".empty" else ".hit")
    if ordered then judge t model impl (rules ans) else judge t (sorted model) (sorted impl) (rules ans)

def uninit : List String := ["err", "UninitializedEntity"]

/-- follow the link operations the implementation ACCEPTED (called for every trace line before the handlers) -/
def observe (ds : DState) (op : String) (args impl : List String) : DState :=
  let ok := impl.head? == some "ok"
  let h := ds.search
  let setTab (tab : List (String × Option String)) (k : String) (v : Option String) := (k, v) :: tab.filter (·.1 != k)
  match op, args with
  | "fopen", mode :: _ => if mode == "ow" && ok then { ds with search := {} } else ds
  | "single", [f, holder, how, key] =>
    if !ok || (f != "metadata" && f != "seclink") then ds else
    match slotId ds.store holder with
    | none => ds
    | some hid =>
      let tgt : Option (Option String) := match how with
        | "none" => some none
        | "handle" | "idof" => (slotId ds.store key).map some
        | "id" => (parseStr key).map some
        | _ => none
      match tgt with
      | none => { ds with search := { h with untracked := hid :: h.untracked } }
      | some t => if f == "metadata" then { ds with search := { h with md := setTab h.md hid t } }
                  else { ds with search := { h with seclink := setTab h.seclink hid t } }
  | "link", ["src", holder, how, key] | "unlink", ["src", holder, how, key] =>
    if !ok then ds else
    match slotId ds.store holder with
    | none => ds
    | some hid =>
      let sid : Option String := match how with
        | "handle" | "idof" => slotId ds.store key
        | "id" => parseStr key
        | _ => none
      match sid with
      | none => { ds with search := { h with untracked := hid :: h.untracked } }
      | some s =>
        let cur := ((h.srcs.find? (·.1 == hid)).map (·.2)).getD []
        let new := if op == "link" then (if cur.contains s then cur else cur ++ [s]) else cur.filter (· != s)
        { ds with search := { h with srcs := (hid, new) :: h.srcs.filter (·.1 != hid) } }
  | _, _ => ds

def handle (ds : DState) (op : String) (args impl : List String) : Option (DState × Out) :=
  if !op.startsWith "sr_" then none else
  let st := ds.store
  let fin (o : Out) : Option (DState × Out) := some (ds, o)
  if op == "sr_mkalias" then
    -- a creation like `mk`: remember the slot, and that the state changed since the last dump
    match args, impl with
    | slot :: _, ["ok", id, _] =>
      some ({ ds with store := { st with slotIds := (slot, id) :: st.slotIds.filter (·.1 != slot), sinceDump := st.sinceDump ++ [("mk.O", true)] } },
            .ok "sr_mkalias.ok")
    | _, _ => some ({ ds with store := { st with sinceDump := st.sinceDump ++ [("mk.O", false)] } }, .ok "sr_mkalias.err")
  else
  match st.lastDump with
  | none => fin (.malformed "search query without a dump")
  | some d =>
  if !st.sinceDump.isEmpty then fin (.malformed "search query after a mutation without a fresh dump") else
  if d.any (fun r => r.id.startsWith "!") then fin (.malformed "dump with failed getters") else
  let lk := linksOf ds.search d
  let w := worldOf lk d
  let recOfSlot (kind slot : String) : Option Rec := (slotId st slot).bind (C20.Rel.recOfId d kind)
  match op, args with
  | "sr_findsec", [start, fk, fa, dep] =>
    match parseFilter st fk fa, parseDepth dep with
    | some q, some (maxd, lim) =>
      if start == "$F" then
        let m := (fileFindSections q.model.sec maxd w.sections).map (·.val.id)
        let tag := s!"sr_findsec.file.{q.kind}.{depthClass lim ((d.filter (·.kind == "S")).foldl (fun a r => max a (C20.Rel.depthOf r.path)) 0)}"
        fin (verdict tag (okIds m) impl false fun ans =>
          C20.Rel.asSet "result_is_exactly_the_accepted_entities_within_depth" ans (C20.Rel.fileSections d lim q.rel))
      else if start == "$-" then
        -- a null section: `addChildrenIfNotMaxDepth` touches the entity only when 0 < max_depth
        fin (cmp "sr_findsec.null" (if maxd == 0 then okIds [] else uninit) impl)
      else match recOfSlot "S" start with
        | none => fin (.malformed s!"sr_findsec: no live section in {start}")
        | some r =>
          match locateL (fun v => v.id == r.id) [] w.sections with
          | none => fin (.malformed "sr_findsec: section not in the forest")
          | some (t, _) =>
            let m := (findSections q.model.sec maxd t).map (·.val.id)
            let tag := s!"sr_findsec.sec.{q.kind}.{depthClass lim (C20.Rel.reach d "S" r.path)}"
            fin (verdict tag (okIds m) impl true fun ans => C20.Rel.singleStart ans (C20.Rel.belowLevelOrder d "S" r.path lim q.rel))
    | _, _ => fin (.malformed "sr_findsec arguments")
  | "sr_findsrc", [start, fk, fa, dep] =>
    match parseFilter st fk fa, parseDepth dep with
    | some q, some (maxd, lim) =>
      if start == "$-O" || start == "$-B" then fin (cmp "sr_findsrc.null" uninit impl) else
      match recOfSlot "B" start with
      | some b =>
        match w.blocks.find? (·.id == b.id) with
        | none => fin (.malformed "sr_findsrc: block not in the world")
        | some blk =>
          let m := (blockFindSources q.model.src maxd blk.sources).map (·.val.id)
          let tag := s!"sr_findsrc.block.{q.kind}.{depthClass lim (C20.Rel.reach d "O" b.path - 1)}"
          fin (verdict tag (okIds m) impl false fun ans =>
            C20.Rel.asSet "result_is_exactly_the_accepted_entities_within_depth" ans (C20.Rel.blockSources d b lim q.rel))
      | none =>
        match recOfSlot "O" start with
        | none => fin (.malformed s!"sr_findsrc: no live block or source in {start}")
        | some r =>
          match (w.blocks.findSome? fun blk => locateL (fun v => v.id == r.id) [] blk.sources) with
          | none => fin (.malformed "sr_findsrc: source not in the forest")
          | some (t, _) =>
            let m := (findSources q.model.src maxd t).map (·.val.id)
            let tag := s!"sr_findsrc.src.{q.kind}.{depthClass lim (C20.Rel.reach d "O" r.path)}"
            fin (verdict tag (okIds m) impl true fun ans =>
              C20.Rel.singleStart ans ((if q.rel.accepts r then [r] else []) ++ C20.Rel.belowLevelOrder d "O" r.path lim q.rel))
    | _, _ => fin (.malformed "sr_findsrc arguments")
  | "sr_related", [start, fk, fa] =>
    match parseFilter st fk fa with
    | none => fin (.malformed "sr_related arguments")
    | some q =>
      if start == "$-" then fin (cmp "sr_related.null" uninit impl) else
      match recOfSlot "S" start with
      | none => fin (.malformed s!"sr_related: no live section in {start}")
      | some r =>
        match locateL (fun v => v.id == r.id) [] w.sections with
        | none => fin (.malformed "sr_related: section not in the forest")
        | some (t, anc) =>
          let m := (findRelated q.model.sec (fun s => s.val.id == r.id) anc t).map (·.val.id)
          let exp := C20.Rel.related d r q.rel
          let down := !(findDownstream q.model.sec t).isEmpty
          let up := !(findAmongParents q.model.sec anc).isEmpty
          let tag := s!"sr_related.{q.kind}.{if down then "down" else if up then "up" else "side"}"
          fin (verdict tag (okIds m) impl true fun ans =>
            [("related_is_downstream_then_parents_then_sideways", C20.Rel.sameSet ans (exp.map (·.id))),
             ("each_entity_once", C20.Rel.nodupStr ans)])
  | "sr_referring", [kind, slot, bl] =>
    if slot == "$-" then
      -- a null section with a null block: `if (b)` is false before the section is touched
      fin (cmp "sr_referring.null" (if bl == "$-" && kind.startsWith "sec" then okIds [] else uninit) impl) else
    let block : Option (Option Rec) :=            -- none = malformed; some none = all blocks
      if bl == "~" then some none else if bl == "$-" then some none else (recOfSlot "B" bl).map some
    match block with
    | none => fin (.malformed s!"sr_referring: no live block in {bl}")
    | some blockRec =>
    let nullBlock := bl == "$-"
    let mblk : Option Blk := blockRec.bind fun b => w.blocks.find? (·.id == b.id)
    let hk := match kind with | "secA" | "srcA" => "A" | "secT" | "srcT" => "T" | "secM" | "srcM" => "M" | "secO" => "O" | _ => "B"
    if kind.startsWith "sec" then
      match recOfSlot "S" slot with
      | none => fin (.malformed s!"sr_referring: no live section in {slot}")
      | some r =>
        let m : List String :=
          if nullBlock then [] else
          match kind, mblk with
          | "secA", none => (secReferringDataArrays w r.id).map (·.id)
          | "secA", some b => (secReferringDataArraysIn w r.id b).map (·.id)
          | "secT", none => (secReferringTags w r.id).map (·.id)
          | "secT", some b => (secReferringTagsIn w r.id b).map (·.id)
          | "secM", none => (secReferringMultiTags w r.id).map (·.id)
          | "secM", some b => (secReferringMultiTagsIn w r.id b).map (·.id)
          | "secO", none => (secReferringSources w r.id).map (·.val.id)
          | "secO", some b => (secReferringSourcesIn w r.id b).map (·.val.id)
          | _, _ => (secReferringBlocks w r.id).map (·.id)
        let exp := if nullBlock then [] else C20.Rel.metaHolders d lk.md hk r.id blockRec
        fin (verdict s!"sr_referring.{kind}.{if nullBlock then "nullblock" else if blockRec.isSome then "block" else "file"}" (okIds m) impl false fun ans =>
          C20.Rel.asSet "referring_entities_are_exactly_those_whose_metadata_is_the_section" ans exp)
    else
      match recOfSlot "O" slot with
      | none => fin (.malformed s!"sr_referring: no live source in {slot}")
      | some r =>
        match C20.Rel.blockOf d r |>.bind fun b => w.blocks.find? (·.id == b.id) with
        | none => fin (.malformed "sr_referring: block of the source not found")
        | some b =>
          let m := match kind with
            | "srcA" => (srcReferringDataArrays b r.id).map (·.id)
            | "srcT" => (srcReferringTags b r.id).map (·.id)
            | _ => (srcReferringMultiTags b r.id).map (·.id)
          fin (verdict s!"sr_referring.{kind}" (okIds m) impl false fun ans =>
            C20.Rel.asSet "referring_entities_are_exactly_those_that_list_the_source" ans (C20.Rel.srcHolders d lk.srcs hk r))
  | "sr_parentsrc", [slot] =>
    if slot == "$-" then fin (cmp "sr_parentsrc.null" uninit impl) else
    match recOfSlot "O" slot with
    | none => fin (.malformed s!"sr_parentsrc: no live source in {slot}")
    | some r =>
      match C20.Rel.blockOf d r |>.bind fun b => w.blocks.find? (·.id == b.id) with
      | none => fin (.malformed "sr_parentsrc: block of the source not found")
      | some b =>
        let m := match parentSource b r.id with | some p => p.val.id | none => "~"
        let exp := match C20.Rel.parentSource d r with | some p => p.id | none => "~"
        fin (judge s!"sr_parentsrc.{if exp == "~" then "root" else "child"}" ["ok", m] impl
          [("parent_source_is_the_source_one_level_up", impl == ["ok", exp])])
  | "sr_inherited", [slot] =>
    if slot == "$-" then fin (cmp "sr_inherited.null" uninit impl) else
    match recOfSlot "S" slot with
    | none => fin (.malformed s!"sr_inherited: no live section in {slot}")
    | some r =>
      match locateL (fun v => v.id == r.id) [] w.sections with
      | none => fin (.malformed "sr_inherited: section not in the forest")
      | some (t, _) =>
        let m := (inheritedProperties w t.val).map (·.id)
        let exp := C20.Rel.inherited d lk.link r
        let own := C20.Rel.propsOf d r
        let tag := s!"sr_inherited.{if t.val.link.isNone then "nolink" else if exp.length == own.length + ((C20.Rel.recOfId d "S" (lk.link r)).map (fun l => (C20.Rel.propsOf d l).length) |>.getD 0) then "noshadow" else "shadow"}"
        fin (verdict tag (okIds m) impl false fun ans =>
          C20.Rel.asSet "inherited_are_own_plus_unshadowed_linked_properties" ans exp)
  | _, _ => fin (.malformed s!"{op} arity")

end Nix.Drive.Search
