import NixModel.SizeVec
import NixModel.Chunking
import NixModel.Drive.Common
/-
  `ab_*` ops (harness/fam_abuse.cpp): size-vector arithmetic, NDArray element access, position tests — predicted by
  NixModel/SizeVec.lean; the per-column getters of a data-frame dimension are answered, not predicted (survival only).
-/
namespace Nix.Drive.Abuse
open Nix Nix.Proto Nix.Drive Nix.SizeVec

def render : Res → List String
  | .vec l => ["ok", fmtList (l.map toString)]
  | .num n => ["ok", toString n]
  | .bool b => ["ok", if b then "1" else "0"]
  | .err c => ["err", c]

def resTag : Res → String
  | .err c => c
  | _ => "ok"

def f64One : String := "d3ff0000000000000"
def f64Zero : String := "d0000000000000000"

def handle (op : String) (args impl : List String) : Option Out :=
  match op, args with
  | "ab_nd", [o, a, b] =>
    some (match parseListOf parseNat a, parseListOf parseNat b with
      | some x, some y =>
        if o == "asg" then cmp "ab_nd.asg" ["ok", fmtList (x.map toString), fmtList (y.map toString)] impl else
        (match eval o x y with
        | some r => cmp s!"ab_nd.{o}.{resTag r}" (render r) impl
        | none => .malformed "ab_nd op")
      | _, _ => .malformed "ab_nd args")
  | "ab_ndarr", [_, shape, kind, idx] =>
    some (match parseListOf parseNat shape with
      | none => .malformed "ab_ndarr shape"
      | some sh =>
        let r : Option Res :=
          if kind == "get" || kind == "set" then (parseListOf parseNat idx).map (subAccess sh)
          else if kind == "geti" || kind == "seti" then (parseNat idx).map (flatAccess sh)
          else none
        match r with
        | none => .malformed "ab_ndarr index"
        | some (.err c) => cmp s!"ab_ndarr.{kind}.{c}" ["err", c] impl
        | some _ =>
          -- a fresh array is zero-filled; a set answers 1
          cmp s!"ab_ndarr.{kind}.ok" ["ok", if kind == "set" || kind == "seti" then f64One else f64Zero] impl)
  | "ab_ndarrw", [dt, shape, acc, kind, idx] =>
    some (match parseListOf parseNat shape, parseNat idx with
      | some sh, some i =>
        (match flatAccessAs sh (dtypeSize dt) (dtypeSize acc) i with
        | .err c => cmp s!"ab_ndarrw.{kind}.{c}" ["err", c] impl
        | _ => cmp s!"ab_ndarrw.{kind}.ok" ["ok", if kind == "seti" then "set" else "got"] impl)
      | _, _ => .malformed "ab_ndarrw args")
  -- data of a reference / feature asked by name or id: answered for the linked array, refused (`invalid_argument`) for an array that
  -- is not linked (never, or not any more), an unknown name, the empty string; the list form of a multi-tag answers an empty list
  | "ab_tagname", [kind, which] =>
    let n := if which == "empty" then 1 else 2
    let c := if which == "ref" then "ok" else "StdInvalidArgument"
    let exp := if kind == "T" then List.replicate (2 * n) c
      else (List.replicate n [c, "ok"]).flatten ++ List.replicate n c
    some (cmp s!"ab_tagname.{kind}.{which}" ("ok" :: exp) impl)
  -- comparing with an uninitialised entity is refused (there is nothing to compare with); with itself: equal
  | "ab_compare", [kind] => some (cmp s!"ab_compare.{kind}" ["ok", "UninitializedEntity", "0"] impl)
  -- one reference, one feature: index 0 is answered, every other index is refused with OutOfBounds — through every entry point
  | "ab_tagidx", [kind, ri, fi] =>
    some (match parseNat ri, parseNat fi with
      | some ri, some fi =>
        let r := if ri == 0 then "ok" else "OutOfBounds"
        let f := if fi == 0 then "ok" else "OutOfBounds"
        cmp s!"ab_tagidx.{kind}.{r}.{f}" ("ok" :: (if kind == "T" then [r, r, r, f, f] else [r, r, r, f, f, f])) impl
      | _, _ => .malformed "ab_tagidx args")
  -- DataSet::guessChunking, replayed on NixModel/Chunking.lean bit for bit (the loop of which Props/C16Chunk.lean proves termination)
  | "ab_chunk", [shape, esz] =>
    some (match parseListOf parseNat shape, parseNat esz with
      | some sh, some e =>
        if sh.isEmpty then cmp "ab_chunk.rank0" ["err", "InvalidRank"] impl
        else cmp s!"ab_chunk.r{sh.length}" ["ok", fmtList ((Nix.Chunk.guess sh e).map toString)] impl
      | _, _ => .malformed "ab_chunk args")
  | "ab_posin", [shape, pos, count] =>
    some (match parseListOf parseNat shape, parseListOf parseNat pos with
      | some sh, some p =>
        if count == "~" then cmp "ab_posin.pos" (render (.bool (positionInData sh p))) impl
        else (match parseListOf parseNat count with
          | some c => let r := positionAndExtentInData sh p c; cmp s!"ab_posin.ext.{resTag r}" (render r) impl
          | none => .malformed "ab_posin count")
      | _, _ => .malformed "ab_posin args")
  | "ab_fdim", _ => some (.ok s!"ab_fdim.{impl.headD "?"}")
  -- value semantics of Variant: after the swap x holds v2 and y holds v1, the copy that was assigned v2 holds v2, and both
  -- reads as another type are refused
  | "ab_var", [v1, v2] => some (cmp "ab_var" ["ok", v2, v1, v2, "2"] impl)
  | _, _ => none

end Nix.Drive.Abuse
