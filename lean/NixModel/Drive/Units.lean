import NixModel.Units
import NixModel.Spec.C18
import NixModel.Drive.Common
namespace Nix.Drive.Units
open Nix Nix.Proto Nix.Drive Nix.Units Nix.C18

def fs (s : Str) : String := fmtStr (String.ofList s)
def b01 (b : Bool) : String := if b then "1" else "0"

def fmtScale (r : Except ScaleErr Int) : List String :=
  match r with
  | .ok k => ["ok", fmtF64 (pow10Float k)]
  | .error .invalidUnit => ["err", "InvalidUnit"]
  | .error .noSuchPrefix => ["err", "StdOutOfRange"]
  | .error .badPower => ["err", "StdInvalidArgument"]

/-- decode a returned factor into its decimal exponent, if it is (bit-exactly) `1e<k>` for some k in ±200 -/
def pow10Table : Array (Int × UInt64) :=
  ((List.range 401).map fun (i : Nat) => let k := (Int.ofNat i) - 200; (k, (pow10Float k).toBits)).toArray
def expOf (d : Float) : Option Int :=
  (pow10Table.find? fun e => e.2 == d.toBits).map (·.1)

def powerOf (n : String) : Option Int := if n.isEmpty then some 1 else parsePower n.toList

def handle (op : String) (args impl : List String) : Option Out :=
  match op with
  | "usplit" => some <|
    match args.mapM parseStr with
    | some [s] =>
      let r := splitUnit s.toList
      cmp "usplit" ["ok", fs r.pre, fs r.unit, fs r.power] impl
    | _ => .malformed "usplit"
  | "usplit3" => some <|
    match args.mapM parseStr with
    | some [p, u, n] =>
      let r := splitUnit (mkUnit p u n)
      -- the property: a unit printed as prefix+unit^power is split back into exactly those parts
      let rules := match impl with
        | ["ok", a, b, c] => [("split_print_roundtrip", a == fmtStr p && b == fmtStr u && c == fmtStr n)]
        | _ => [("split_does_not_throw", false)]
      judge s!"usplit3.{if p.isEmpty then "noprefix" else "prefix"}.{if n.isEmpty then "nopower" else "power"}"
        ["ok", fs r.pre, fs r.unit, fs r.power] impl rules
    | _ => .malformed "usplit3"
  | "uissi" => some <|
    match args.mapM parseStr with
    | some [s] =>
      let l := s.toList
      cmp s!"uissi.{b01 (isSIUnit l)}" ["ok", b01 (isAtomicSIUnit l), b01 (isCompoundSIUnit l), b01 (isSIUnit l)] impl
    | _ => .malformed "uissi"
  | "uscalable" => some <|
    match args.mapM parseStr with
    | some [a, b] =>
      let rules := match impl with
        | ["ok", x, y] => [("scalable_symm", x == y)]
        | _ => [("scalable_does_not_throw", false)]
      judge s!"uscalable.{b01 (isScalable a.toList b.toList)}" ["ok", b01 (isScalable a.toList b.toList), b01 (isScalable b.toList a.toList)] impl rules
    | _ => .malformed "uscalable"
  | "uscale" => some <|
    match args.mapM parseStr with
    | some [a, b] =>
      let r := siScalingExp libTable a.toList b.toList
      cmp s!"uscale.{match r with | .ok _ => "ok" | .error _ => "err"}" (fmtScale r) impl
    | _ => .malformed "uscale"
  | "uscale3" => some <|
    match args.mapM parseStr with
    | some [p1, p2, u, n] =>
      let a := mkUnit p1 u n; let b := mkUnit p2 u n
      let model := match siScalingExp libTable a b, siScalingExp libTable b a with
        | .ok k1, .ok k2 => ["ok", fmtF64 (pow10Float k1), fmtF64 (pow10Float k2)]
        | .error e, _ => fmtScale (.error e)
        | _, .error e => fmtScale (.error e)
      let rules : List (String × Bool) := match impl, powerOf n with
        | ["ok", d12, d21], some pw =>
          match parseF64 d12, parseF64 d21, specExp p1 p2 pw with
          | some d12, some d21, some k =>
            [("scaling_is_power_of_ten", d12.toBits == (pow10Float k).toBits),
             ("scaling_reciprocal", d21.toBits == (pow10Float (-k)).toBits)]
          | _, _, _ => [("result_parses", false)]
        | _, _ => [("same_base_and_power_is_scalable", false)]
      judge "uscale3" model impl rules
    | _ => .malformed "uscale3"
  | "uscalec" => some <|
    match args.mapM parseStr with
    | some [p1, p2, p3, u, n] =>
      let a := mkUnit p1 u n; let b := mkUnit p2 u n; let c := mkUnit p3 u n
      let model := match siScalingExp libTable a b, siScalingExp libTable b c, siScalingExp libTable a c with
        | .ok k1, .ok k2, .ok k3 => ["ok", fmtF64 (pow10Float k1), fmtF64 (pow10Float k2), fmtF64 (pow10Float k3)]
        | .error e, _, _ => fmtScale (.error e)
        | _, .error e, _ => fmtScale (.error e)
        | _, _, .error e => fmtScale (.error e)
      let rules : List (String × Bool) := match impl with
        | ["ok", d12, d23, d13] =>
          match (parseF64 d12).bind expOf, (parseF64 d23).bind expOf, (parseF64 d13).bind expOf with
          | some k12, some k23, some k13 => [("scaling_compose", k12 + k23 == k13)]
          | _, _, _ => [("scaling_is_power_of_ten", false)]
        | _ => [("same_base_and_power_is_scalable", false)]
      judge "uscalec" model impl rules
    | _ => .malformed "uscalec"
  | _ => none

end Nix.Drive.Units
