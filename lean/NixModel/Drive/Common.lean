import NixModel.Proto
/-
  Driver-side plumbing: what a family handler returns for one trace line.
-/
namespace Nix.Drive
open Nix.Proto

inductive Out
  | ok (tag : String)                    -- model = implementation and every Rel evaluated on the impl observation held
  | diff (tag : String) (model : String) -- model result differs from the recorded implementation result
  | rel (tag : String) (rule : String)   -- the property relation is FALSE on the implementation's observation
  | malformed (why : String)             -- the line cannot be parsed (generator / harness bug)
  | unknown

def Out.render : Out → String
  | .ok t => s!"OK {t}"
  | .diff t m => s!"DIFF {t} model= {m}"
  | .rel t r => s!"REL {t} rule={r}"
  | .malformed w => s!"MALFORMED {w}"
  | .unknown => "UNKNOWN"

/-- compare a model result (already rendered as tokens) with the implementation's tokens -/
def cmp (tag : String) (model impl : List String) : Out :=
  if model == impl then .ok tag else .diff tag (" ".intercalate model)

/-- first failing rule, if any -/
def firstFail (rules : List (String × Bool)) : Option String :=
  (rules.find? (fun r => !r.2)).map (·.1)

/-- combine: a Rel failure on the implementation outranks a mere difference -/
def judge (tag : String) (model impl : List String) (rules : List (String × Bool)) : Out :=
  match firstFail rules with
  | some r => .rel tag r
  | none => cmp tag model impl

end Nix.Drive
