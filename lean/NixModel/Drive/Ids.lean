import NixModel.Ids
import NixModel.Drive.Common
import NixModel.Drive.State
/-
  ids family (C12): ids straight from `util::createId()` and the outcome of process races, judged by the relations of the property
  (well-formed, pairwise distinct — also between processes) on the implementation's answers; the model's text form is the oracle
  for the format (DIFF: the id must be in the image of `uuidText`).  Ids of entities in files are judged on every dump by the store
  family's handler (`relIds`, `relIdStable`).
-/
namespace Nix.Drive.Ids
open Nix Nix.Proto Nix.Drive Nix.Ids

def nodup (l : List String) : Bool :=
  let rec go : List String → List String → Bool
    | [], _ => true
    | x :: xs, seen => if seen.contains x then false else go xs (x :: seen)
  go l []

def handle (ds : DState) (op : String) (args impl : List String) : Option (DState × Out) :=
  let st := ds.fileFam.ids
  let fin (st : IdsSt) (o : Out) : Option (DState × Out) := some ({ ds with fileFam := { ds.fileFam with ids := st } }, o)
  match op with
  | "id_new" | "id_new_loc" =>
    match impl with
    | ["ok", l] =>
      match parseList l with
      | some ids =>
        let rules := [("ids_are_wellformed_v4_uuids", ids.all wellFormedV4),
                      ("ids_are_pairwise_distinct", nodup (ids ++ st.seen))]
        let modelToks := ids.map fun _ => "1"
        let implToks := ids.map fun i => if inImageOfUuidText i then "1" else "0"
        fin { st with seen := ids ++ st.seen } (judge s!"new.{if ids.length > 100 then "many" else "few"}" modelToks implToks rules)
      | none => fin st (.malformed "id_new answer")
    | _ => fin st (.malformed "id_new answer")
  | "id_all" =>
    match impl with
    | ["ok", l] =>
      match parseList l with
      | some items =>
        let pairs : List (String × String) := items.filterMap fun it =>
          match it.splitOn "=" with
          | [k, i] => some (k, i)
          | _ => none
        let ids := pairs.map (·.2)
        let rules := [
          ("ids_are_wellformed_uuids", ids.all Dump.wellFormedUUID),
          ("ids_are_pairwise_distinct", nodup ids),
          -- an entity present in two consecutive snapshots has the id it had (the file record excepted: File::forceId)
          ("entity_id_never_changes", pairs.all fun (k, i) =>
              (k.startsWith "F:" && st.forced) || (match st.prev.find? (·.1 == k) with | some (_, j) => i == j | none => true)),
          -- an id that was seen before still denotes the entity it denoted then (new entities get ids never used in this file)
          ("new_entity_gets_an_unused_id", pairs.all fun (k, i) =>
              -- (a feature's key names its array, which may be deleted or replaced: features are judged by the rule above only)
              k.startsWith "R:" || (match st.ever.find? (·.1 == i) with | some (_, k') => k == k' | none => true))]
        let ever := pairs.foldl (fun acc (k, i) => if acc.any (·.1 == i) then acc else (i, k) :: acc) st.ever
        -- the model (Ids.step): under a fresh source the population stays distinct and ids stay put — same statement; nothing further to compare
        fin { st with prev := pairs, ever := ever, forced := false } (judge s!"all.{if pairs.length > 8 then "many" else "few"}" [] [] rules)
      | none => fin st (.malformed "id_all answer")
    | _ => fin st (.ok "all.err")
  | "id_forceid" =>
    match impl with
    | ["ok", i] =>
      fin { st with forced := true } (judge "forceid" [] [] [("forceId_gives_a_new_wellformed_id", wellFormedV4 i && !(st.ever.any (·.1 == i)))])
    | _ => fin st (.ok "forceid.err")
  | "id_threads" =>
    match args, impl with
    | [k, n], ["ok", total, distinct] =>
      (match parseNat k, parseNat n, parseNat total, parseNat distinct with
       | some k, some n, some total, some distinct =>
         fin st (judge "threads" [toString (k * n), toString (k * n)] [toString total, toString distinct]
           [("ids_of_concurrent_threads_are_distinct", total == distinct)])
       | _, _, _, _ => fin st (.malformed "id_threads numbers"))
    | _, _ => fin st (judge "threads.crashed" impl impl [("ids_of_concurrent_threads_are_distinct", false)])
  | "id_race" =>
    match args, impl with
    | [mode, k, n], ["ok", _, _, total, distinct, same, shTotal, shDistinct] =>
      match parseNat k, parseNat n, parseNat total, parseNat distinct, parseNat shTotal, parseNat shDistinct with
      | some k, some n, some total, some distinct, some shTotal, some shDistinct =>
        let rules := [("ids_of_concurrent_processes_are_distinct", total == distinct),
                      ("ids_in_a_file_written_by_several_processes_are_distinct", shTotal == shDistinct)]
        -- the model under a fresh source: every creating call draws one id, all different
        let modelToks := [toString (k * (n + 9)), toString (k * (n + 9)), toString (1 + 3 * k), toString (1 + 3 * k)]
        let implToks := [toString total, toString distinct, toString shTotal, toString shDistinct]
        fin st (judge s!"race.{mode}.{if same == "1" then "same_second" else "second_ticked"}" modelToks implToks rules)
      | _, _, _, _, _, _ => fin st (.malformed "id_race numbers")
    | _, _ => fin st (if impl.head? == some "err" then .malformed s!"id_race failed in the harness: {impl}" else .malformed "id_race answer")
  | _ => none

end Nix.Drive.Ids
