import NixModel.Region
import NixModel.Spec.C05
import NixModel.Drive.Common
import NixModel.Drive.Index
namespace Nix.Drive.Region
open Nix Nix.Proto Nix.Drive Nix.C05 Nix.C07

abbrev D := DimDesc Float

def parseDim (tok : String) : Option D :=
  match tok.splitOn ":" with
  | ["S", si, off, unit] => do
    let si ← parseF64 si
    let off ← parseOpt parseF64 off
    let unit ← parseOpt parseStr unit
    pure (.sampled si (off.getD 0.0) unit)
  | ["R", ticks, unit] => do
    let ts ← (if ticks.isEmpty then some [] else (ticks.splitOn ";").mapM parseF64)
    let unit ← parseOpt parseStr unit
    pure (.range ts unit)
  | ["T", n] => do let n ← parseNat n; pure (.set n)
  | ["F", n, unit] => do let n ← parseNat n; let u ← parseStr unit; pure (.frame n u)
  | _ => none

def parseDims (tok : String) : Option (List D) := parseListOf parseDim tok
def parseShape (tok : String) : Option (List Nat) := parseListOf parseNat tok
def parseF64s (tok : String) : Option (List Float) := parseListOf parseF64 tok
def parseStrs (tok : String) : Option (List String) := parseListOf parseStr tok
def parseMatrix (tok : String) : Option (List (List Float)) := do
  let rows ← parseList tok
  rows.mapM fun r => (r.splitOn ";").mapM parseF64
def parseLT : String → Option LinkType
  | "tagged" => some .tagged | "untagged" => some .untagged | "indexed" => some .indexed | _ => none

instance : ToString LinkType := ⟨fun l => match l with | .tagged => "tagged" | .untagged => "untagged" | .indexed => "indexed"⟩

def fmtNats (l : List Nat) : String := fmtList (l.map toString)

/-- row-major strides of a shape -/
def strides : List Nat → List Nat
  | [] => []
  | _ :: rest => (rest.foldl (· * ·) 1) :: strides rest

/-- all index tuples of a block of the given counts, row-major -/
def tuples : List Nat → List (List Nat)
  | [] => [[]]
  | c :: cs => (List.range c).flatMap fun i => (tuples cs).map fun t => i :: t

/-- what a view of an array holding its own linear index exposes: extent, first 24 elements, sum -/
def viewTok (shape off cnt : List Nat) : List String :=
  let st := strides shape
  let vals := (tuples cnt).map fun t =>
    ((t.zip off).zip st).foldl (fun acc x => acc + (x.1.1 + x.1.2) * x.2) 0
  [fmtNats cnt, fmtNats (vals.take 24), toString (vals.foldl (· + ·) 0)]

def errTok (e : Err) : List String := ["err", e.name]

def renderRegion (shape : List Nat) (r : Except Err (List Nat × List Nat)) : List String :=
  match r with
  | .ok (off, cnt) => "ok" :: viewTok shape off cnt
  | .error e => errTok e

def renderRegions (shape : List Nat) (r : Except Err (List (List Nat × List Nat))) : List String :=
  match r with
  | .ok regs =>
    let parts := regs.map fun (off, cnt) => viewTok shape off cnt
    ["ok", toString regs.length] ++ (match parts with
      | [] => []
      | p :: ps => p ++ ps.flatMap fun q => "|" :: q)
  | .error e => errTok e

/-- unit scaling factor for judging the implementation, from the (C18-verified) unit model -/
def scaleOf (unit dimUnit : String) : Option (Option Float) :=
  -- a position given with a unit on a dimension that has none: the property does not say what that means
  if unit != "none" && dimUnit == "none" then none else
  match scaleFor (α := Float) unit dimUnit with
  | .ok k => some k
  | .error _ => none

/-- the unit of a dimension's COORDINATE: the coordinate of a set or data-frame dimension is the element / row index, which has
    no unit (a data-frame dimension's `unit()` is the unit of the column it points at, i.e. of the labels, and the library never
    scales a position by it) -/
def coordUnit (d : D) : String := match d with | .frame .. => "none" | .set .. => "none" | _ => d.unitOrNone

/-- C05.Rel along one dimension: what the region must be, from coordinates alone -/
def expectDim (d : D) (dataLen : Nat) (rm : RangeMatch) (p e : Float) (hasExtent : Bool) (unit : String) (pointByEnd : Bool := false) :
    Option (Option (Nat × Nat)) :=
  match scaleOf unit (coordUnit d) with
  | none => none                    -- units not convertible: outside the rule evaluated here
  | some k =>
    let s' := applyScale k p
    let e' := applyScale k (p + e)
    -- Tag: a zero extent is a point request.  MultiTag (`pointByEnd`): the region is given by start and end = position + extent as
    -- computed, and end == start is the point request (C06's theorems are stated that way: an extent so small that the sum rounds
    -- back to the position does not make an empty half-open interval of a position that lies on a coordinate)
    let point := !hasExtent || (if pointByEnd then p + e == p else e == 0.0)
    specDim (axisOf d) dataLen (dataLen + 48) (if hasExtent then rm else .inclusive) s' e' point

/-- does the descriptor describe at least `n` data points? (the property speaks about arrays whose
    descriptors describe the data) -/
def covers (d : D) (n : Nat) : Bool :=
  match d with
  | .sampled .. => true
  | .range ticks _ => ticks.length ≥ n
  | .set l => l == 0 || l ≥ n
  | .frame r _ => r ≥ n

def relTag (t : TagIn Float) (impl : List String) (exclusiveWithoutExtent : Bool := false) (pointByEnd : Bool := false) : List (String × Bool) :=
  let dimCount := t.dims.length
  if t.extent.length > 0 && t.extent.length != t.position.length then [] else
  if t.shape.length != dimCount then [] else
  -- the property speaks about arrays whose descriptors describe the data
  if ((List.range dimCount).any fun i => match t.dims[i]?, t.shape[i]? with | some d, some n => !covers d n | _, _ => true) then [] else
  let hasExtent := t.extent.length > 0
  -- per dimension expectation
  let exps : List (Option (Option (Nat × Nat))) := (List.range dimCount).map fun i =>
    match t.dims[i]?, t.shape[i]? with
    | some d, some n =>
      if i < t.position.length then
        let unit := if t.units.isEmpty then "none" else match t.units[i]? with | some u => u | none => d.unitOrNone
        expectDim d n t.rm ((t.position[i]?).getD 0.0) (if hasExtent then (t.extent[i]?).getD 0.0 else 0.0) hasExtent unit pointByEnd
      else if covers d n then some (some (0, n)) else none     -- dimensions the tag does not specify: all elements
    | _, _ => none
  if exps.any (·.isNone) then [] else
  let exps := exps.filterMap id
  if exps.any (·.isNone) then
    [("empty_or_outside_region_raises_OutOfBounds", impl == ["err", "OutOfBounds"])]
  else
    let regs := exps.filterMap id
    let off := regs.map (·.1); let cnt := regs.map (·.2)
    -- the variant the pinned suite asserts: unspecified dimensions lose their last element in Exclusive mode
    let cntK2 := (List.range dimCount).map fun i =>
      let c := (cnt[i]?).getD 0
      if i ≥ t.position.length && (hasExtent || exclusiveWithoutExtent) && t.rm == .exclusive && c ≥ 2 then c - 1 else c
    match impl with
    | "ok" :: rest =>
      if rest == viewTok t.shape off cnt then [("tag_region_is_exactly_the_tagged_block", true)]
      else if rest == viewTok t.shape off cntK2 then [("unspecified_dimensions_in_full_in_exclusive_mode", false)]
      else [("tag_region_is_exactly_the_tagged_block", false)]
    | _ => [("nonempty_region_inside_data_is_returned", false)]

def parseTag (args : List String) : Option (TagIn Float) :=
  match args with
  | [shape, dims, pos, ext, units, rm] => do
    let shape ← parseShape shape
    let dims ← parseDims dims
    let pos ← parseF64s pos
    let ext ← (if ext == "~" then some [] else parseF64s ext)
    let units ← parseStrs units
    let rm ← Index.parseRM rm
    pure { position := pos, extent := ext, units := units, dims := dims, shape := shape, rm := rm }
  | _ => none

def tagTag (t : TagIn Float) (r : Except Err (List Nat × List Nat)) : String :=
  let kinds := String.join (t.dims.map fun d => match d with | .sampled .. => "S" | .range .. => "R" | .set _ => "T" | .frame .. => "F")
  s!"{kinds}.p{t.position.length}.e{t.extent.length}.u{t.units.length}.{if t.rm == .inclusive then "incl" else "excl"}.{match r with | .ok _ => "ok" | .error e => e.name}"

/-- split the view list of a multi-view answer: tokens separated by "|" -/
def splitViews (toks : List String) : List (List String) :=
  if toks.isEmpty then [] else      -- no view at all (`ok 0`)
  toks.foldr (fun t acc => if t == "|" then [] :: acc else match acc with | [] => [[t]] | h :: r => (t :: h) :: r) [[]]

def parseMTag (args : List String) : Option (MTagIn Float × String) :=
  match args with
  | [shape, dims, pos, flat, ext, units, sel, rm] => do
    let shape ← parseShape shape
    let dims ← parseDims dims
    let pos ← parseMatrix pos
    let ext ← (if ext == "~" then some none else (parseMatrix ext).map some)
    let units ← parseStrs units
    let rm ← Index.parseRM rm
    pure ({ positions := pos, posRank := if flat == "1" then 1 else 2, extents := ext, units := units, dims := dims,
            shape := shape, rm := rm }, sel)
  | _ => none

/-- the Tag that position row `i` of a MultiTag amounts to (same rules as for a Tag) -/
def rowTag (t : MTagIn Float) (i : Nat) : Option (TagIn Float) :=
  -- 1-D positions tagging n-d data is outside the property (the library refuses it)
  if t.dims.length > 1 && t.posRank < 2 then none else
  match t.positions[i]? with
  | none => none
  | some row =>
    let row := if t.dims.length > 1 then row else row.take 1
    let ext : List Float := match t.extents with
      | some ex => (match ex[i]? with | some r => if t.dims.length > 1 then r else r.take 1 | none => [])
      | none => []
    some { position := row, extent := ext, units := t.units, dims := t.dims, shape := t.shape, rm := t.rm }

/-- C06.Rel for one requested index, judged through the Tag rule on row i -/
def relMTagRow (t : MTagIn Float) (i : Nat) (implRow : List String) : List (String × Bool) :=
  match rowTag t i with
  | none => []
  | some tg =>
    -- a MultiTag pads missing units with "none"; an explicit unit list shorter than the row is outside the rule
    if !t.units.isEmpty && t.units.length < tg.position.length then [] else
    (relTag { tg with units := if t.units.isEmpty then [] else t.units ++ List.replicate (t.dims.length - t.units.length) "none" }
      implRow (exclusiveWithoutExtent := true) (pointByEnd := true)).map fun (n, b) => ("row_" ++ n, b)

def mtagTag (t : MTagIn Float) (sel : String) (r : String) : String :=
  let kinds := String.join (t.dims.map fun d => match d with | .sampled .. => "S" | .range .. => "R" | .set _ => "T" | .frame .. => "F")
  s!"{kinds}.n{t.positions.length}.r{t.posRank}.{if t.extents.isSome then "ext" else "noext"}.u{t.units.length}.{if t.rm == .inclusive then "incl" else "excl"}.sel{(sel.splitOn ",").length}.{r}"

def resTag {β} (r : Except Err β) : String := match r with | .ok _ => "ok" | .error e => e.name

def parseSlice (args : List String) : Option (SliceIn Float) :=
  match args with
  | [shape, dims, starts, ends, units, rm] => do
    let shape ← parseShape shape
    let dims ← parseDims dims
    let starts ← parseF64s starts
    let ends ← parseF64s ends
    let units ← parseStrs units
    let rm ← Index.parseRM rm
    pure { starts := starts, ends := ends, units := units, dims := dims, shape := shape, rm := rm }
  | _ => none

/-- C17.Rel for a slice: elements with coordinates in [start,end] / [start,end), unspecified dimensions in full,
    error when start > end or the region leaves the data -/
def relSlice (t : SliceIn Float) (impl : List String) : List (String × Bool) :=
  let dimCount := t.dims.length
  if t.shape.length != dimCount then [] else
  if ((List.range dimCount).any fun i => match t.dims[i]?, t.shape[i]? with | some d, some n => !covers d n | _, _ => true) then [] else
  if t.starts.length > dimCount || t.ends.length > dimCount || t.units.length > dimCount then
    [("too_many_entries_rejected", impl.head? == some "err")] else
  -- start > end in a dimension where both are given
  if (List.range dimCount).any fun i => match t.starts[i]?, t.ends[i]? with | some s, some e => e < s | _, _ => false then
    [("start_after_end_rejected", impl.head? == some "err")] else
  let exps : List (Option (Option (Nat × Nat))) := (List.range dimCount).map fun i =>
    match t.dims[i]?, t.shape[i]? with
    | some d, some n =>
      match t.starts[i]?, t.ends[i]? with
      | some s, some e =>
        let unit := match t.units[i]? with | some u => u | none => d.unitOrNone
        (match scaleOf unit (coordUnit d) with
         | none => none
         | some k => specDim (axisOf d) n (n + 48) t.rm (applyScale k s) (applyScale k e) (s == e))   -- start = end: the single element at or after it
      | none, none => if covers d n then some (some (0, n)) else none
      | some s, none =>
        -- only the start is given: from the start to the last element, which is included
        let unit := match t.units[i]? with | some u => u | none => d.unitOrNone
        if n == 0 || !covers d n then none else
        (match scaleOf unit (coordUnit d) with
         | none => none
         | some k =>
           let last := (axisOf d).coord (n - 1)
           if last < applyScale k s then some none else
             -- start == (filled-in) end is a point request, as for a given pair
             specDim (axisOf d) n (n + 48) .inclusive (applyScale k s) last (applyScale k s == last))
      | none, some e =>
        -- only the end is given: from the first element to the end (closed or half-open as requested)
        let unit := match t.units[i]? with | some u => u | none => d.unitOrNone
        if n == 0 || !covers d n then none else
        (match scaleOf unit (coordUnit d) with
         | none => none
         | some k =>
           let first := (axisOf d).coord 0
           if applyScale k e < first then some none else
             specDim (axisOf d) n (n + 48) t.rm first (applyScale k e) (applyScale k e == first))
    | _, _ => none
  if exps.any (·.isNone) then [] else
  let exps := exps.filterMap id
  if exps.any (·.isNone) then [("region_outside_data_raises", impl.head? == some "err")]
  else
    let regs := exps.filterMap id
    match impl with
    | "ok" :: rest => [("slice_is_exactly_the_region", rest == viewTok t.shape (regs.map (·.1)) (regs.map (·.2)))]
    | _ => [("region_inside_data_is_returned", false)]

def handle (op : String) (args impl : List String) : Option Out :=
  -- the harness asked every entry point of the public API that offers this retrieval (util:: functions by index / by array / by
  -- feature, the member functions by index, name and id, the deprecated aliases, with the RangeMatch spelled out and by default)
  -- and one of them answered differently from the primary one: whichever of the two is right, they do not return the same region
  if (impl.take 2) == ["ok", "ROUTES-DIFFER"] && ["tag_data", "tag_feat", "mtag_data", "mtag_data1", "mtag_feat"].contains op then
    some (.rel s!"{op}.doors" "every_entry_point_returns_the_same_region")
  else
  match op with
  | "tag_oc" => some <|
    match parseTag args with
    | some t =>
      let r := tagOffsetCount t
      let model := match r with
        | .ok (off, cnt) => ["ok", fmtNats off, fmtNats cnt]
        | .error e => errTok e
      cmp ("tag_oc." ++ tagTag t r) model impl
    | none => .malformed "tag_oc"
  | "tag_data" => some <|
    match parseTag args with
    | some t =>
      let r := tagRegion t
      judge ("tag_data." ++ tagTag t r) (renderRegion t.shape r) impl (relTag t impl)
    | none => .malformed "tag_data"
  | "tag_feat" => some <|
    match args with
    | [shape, dims, pos, ext, units, rm, lt, fshape, fdims] =>
      match parseTag [shape, dims, pos, ext, units, rm], parseLT lt, parseShape fshape, parseDims fdims with
      | some t, some lt, some fshape, some fdims =>
        let r := tagFeatureRegion t lt fdims fshape
        let rules := match lt with
          | .tagged => relTag { t with dims := fdims, shape := fshape } impl
          | _ => [("untagged_and_indexed_features_are_returned_whole",
                   impl == "ok" :: viewTok fshape (fshape.map fun _ => 0) fshape)]
        judge s!"tag_feat.{lt}.{resTag r}" (renderRegion fshape r) impl rules
      | _, _, _, _ => .malformed "tag_feat"
    | _ => .malformed "tag_feat arity"
  | "mtag_oc" => some <|
    match parseMTag args with
    | some (t, sel) =>
      match parseNat sel with
      | some i =>
        let r := mtagOffsetCount t [i]
        let model := match r with
          | .ok [(off, cnt)] => ["ok", fmtNats off, fmtNats cnt]
          | .ok _ => ["err", "Other"]
          | .error e => errTok e
        cmp ("mtag_oc." ++ mtagTag t sel (resTag r)) model impl
      | none => .malformed "mtag_oc index"
    | none => .malformed "mtag_oc"
  | "mtag_data1" => some <|
    match parseMTag args with
    | some (t, sel) =>
      match parseNat sel with
      | some i =>
        let r := mtagRegions t [i]
        let model := match r with
          | .ok [reg] => renderRegion t.shape (.ok reg)
          | .ok _ => ["err", "Other"]
          | .error e => errTok e
        let rules := if i ≥ t.positions.length then [("index_beyond_positions_raises_OutOfBounds", impl == ["err", "OutOfBounds"])]
          else relMTagRow t i impl
        judge ("mtag_data1." ++ mtagTag t sel (resTag r)) model impl rules
      | none => .malformed "mtag_data1 index"
    | none => .malformed "mtag_data1"
  | "mtag_data" => some <|
    match parseMTag args with
    | some (t, sel) =>
      match parseListOf parseNat sel with
      | some idx =>
        let r := mtagRegions t idx
        let idx' := if idx.isEmpty then List.range t.positions.length else idx
        let rules : List (String × Bool) :=
          if idx'.any (· ≥ t.positions.length) then [("index_beyond_positions_raises_OutOfBounds", impl == ["err", "OutOfBounds"])]
          else match impl with
            | "ok" :: _ :: vs =>
              let views := splitViews vs
              if views.length != idx'.length then [("one_region_per_requested_index", false)]
              else (idx'.zip views).flatMap fun (i, v) => relMTagRow t i ("ok" :: v)
            | _ => []      -- an error for the list: the single retrievals (mtag_data1) are judged on their own
        judge ("mtag_data." ++ mtagTag t sel (resTag r)) (renderRegions t.shape r) impl rules
      | none => .malformed "mtag_data indices"
    | none => .malformed "mtag_data"
  | "mtag_feat" => some <|
    match args with
    | [shape, dims, pos, flat, ext, units, sel, rm, lt, fshape, fdims] =>
      match parseMTag [shape, dims, pos, flat, ext, units, sel, rm], parseLT lt, parseShape fshape, parseDims fdims,
            parseListOf parseNat sel with
      | some (t, _), some lt, some fshape, some fdims, some idx =>
        let r := mtagFeatureRegions t idx lt fdims fshape
        let idx' := if idx.isEmpty then List.range t.positions.length else idx
        let rules : List (String × Bool) :=
          if idx'.any (· ≥ t.positions.length) then [("index_beyond_positions_raises_OutOfBounds", impl == ["err", "OutOfBounds"])]
          else match lt, impl with
            | .untagged, _ => [("untagged_features_are_returned_whole",
                impl == renderRegions fshape (.ok (idx'.map fun _ => wholeRegion fshape)))]
            | .indexed, "ok" :: _ :: vs =>
              -- indexed: slice i along the first dimension
              let views := splitViews vs
              (idx'.zip views).map fun (i, v) =>
                ("indexed_feature_is_slice_i_of_first_dimension",
                 v == viewTok fshape ((List.range fshape.length).map fun k => if k == 0 then i else 0)
                        ((List.range fshape.length).map fun k => if k == 0 then 1 else (fshape[k]?).getD 0))
            | .indexed, _ => [("indexed_feature_slice_inside_feature_is_returned", idx'.any (· ≥ (fshape.head?).getD 0) )]
            | .tagged, "ok" :: _ :: vs =>
              let views := splitViews vs
              (idx'.zip views).flatMap fun (i, v) => relMTagRow { t with dims := fdims, shape := fshape } i ("ok" :: v)
            | .tagged, _ => []
        judge s!"mtag_feat.{lt}.{resTag r}" (renderRegions fshape r) impl rules
      | _, _, _, _, _ => .malformed "mtag_feat"
    | _ => .malformed "mtag_feat arity"
  | "slice" => some <|
    match parseSlice args with
    | some t =>
      let r := sliceRegion t
      let kinds := String.join (t.dims.map fun d => match d with | .sampled .. => "S" | .range .. => "R" | .set _ => "T" | .frame .. => "F")
      judge s!"slice.{kinds}.s{t.starts.length}.e{t.ends.length}.u{t.units.length}.{if t.rm == .inclusive then "incl" else "excl"}.{resTag r}"
        (renderRegion t.shape r) impl (relSlice t impl)
    | none => .malformed "slice"
  | _ => none

end Nix.Drive.Region
