import NixModel.Bulk
import NixModel.Observe
import NixModel.Units
import NixModel.Drive.Common
/-
  Store family, model side: replays every op of a store-family trace on the Lean store model
  (NixModel/Store.lean, Entities.lean) and predicts what the library must answer; at every `dump` the model's
  `observe` is compared with the implementation's dump.  Ids and creation times are taken from the trace
  (DESIGN.md §2.3(4)).  An op outside the modelled domain ends the tracking of that session (counted, never a verdict).
-/
namespace Nix.Drive.StoreModel
open Nix Nix.St Nix.Proto

structure MState where
  store : Store := { objs := [] }
  slots : List (String × Option Handle) := []
  fileExists : Bool := false
  isOpen : Bool := false
  ro : Bool := false
  lost : Option String := some "no session"
  aliases : List ObjId := []       -- arrays whose first descriptor is an alias range dimension: writes through it land on the array
deriving Inhabited

/-- what the model says the library answers -/
inductive Pred
  | exact (toks : List String)     -- `ok …` tokens must be exactly these
  | okAny                          -- the call succeeds; its tokens carry ids / times the model cannot know
  | err (cls : String)             -- the call is refused with this exception class
  | skip                           -- no prediction for this op (observation-only ops outside the modelled projection)
  | unsupported (why : String)     -- outside the modelled domain: stop tracking this session

def errTok (e : Err) : Pred := .err e.name

def slot? (ms : MState) (n : String) : Option (Option Handle) := (ms.slots.find? (·.1 == n)).map (·.2)

def bind (ms : MState) (n : String) (h : Option Handle) : MState :=
  { ms with slots := (n, h) :: ms.slots.filter (·.1 != n) }

def b01 (b : Bool) : Pred := .exact ["ok", if b then "1" else "0"]

/-- deblankString (spaces and tabs) -/
def deblank (v : String) : String := String.ofList (v.toList.filter fun c => c != ' ' && c != '\t')

/-- Tag::units / MultiTag::units: sanitize, refuse what is neither empty, "none" nor an SI unit -/
def sanitizeUnits (toks : List String) : Except String (List String) :=
  toks.mapM fun t =>
    match parseStr t with
    | none => .error "malformed unit token"
    | some u =>
      let d := deblank u
      if (d.splitOn "mu").length > 1 || (d.splitOn "µ").length > 1 then .error "unit with mu" else
      if d.length > 0 && d != "none" && !Units.isSIUnit d.toList then .error "InvalidUnit" else .ok (fmtStr d)

/-- the key of a lookup: a hex string (name / id) or `idof <slot>` -/
def keyOf (ms : MState) (how tok : String) : Option String :=
  if how == "idof" then
    match slot? ms tok with
    | some (some h) => some (idOf ms.store h.obj)
    | _ => none
  else parseStr tok

def containerOf (s : Store) (kind : String) (parent : Option Handle) : Option (Option ObjId) :=
  -- outer none: unsupported combination
  match kind, parent with
  | "B", none => some (some dataGrp)
  | "S", none => some (some metadataGrp)
  | "S", some p => some (s.optGroup p.obj "sections")
  | "O", some p => some (s.optGroup p.obj "sources")
  | "P", some p => some (s.optGroup p.obj "properties")
  | "R", some p => some (s.optGroup p.obj "features")
  | "A", some p => some (s.optGroup p.obj (blockContainer "A"))
  | "D", some p => some (s.optGroup p.obj (blockContainer "D"))
  | "T", some p => some (s.optGroup p.obj (blockContainer "T"))
  | "M", some p => some (s.optGroup p.obj (blockContainer "M"))
  | "G", some p => some (s.optGroup p.obj (blockContainer "G"))
  | _, _ => none

def isBlockKind (k : String) : Bool := ["A", "D", "T", "M", "G"].contains k

/-- getX(name_or_id) -/
def findByKey (s : Store) (kind : String) (parent : Option Handle) (key : String) : Option (Option ObjId) :=
  match kind, parent with
  | "B", none => some (s.findGroupByNameOrAttribute dataGrp "entity_id" key)
  | "S", none => some (s.findGroupByNameOrAttribute metadataGrp "entity_id" key)
  | "S", some p => some (match s.optGroup p.obj "sections" with
      | some c => s.findGroupByNameOrAttribute c "entity_id" key | none => none)
  | "O", some p =>
    if p.kind == "B" then some (blkFindKey s p.obj "O" key)
    else some (match s.optGroup p.obj "sources" with
      | some c => s.findGroupByNameOrAttribute c "entity_id" key | none => none)
  | "P", some p => some (match s.optGroup p.obj "properties" with
      | some c => s.findDataByNameOrAttribute c "entity_id" key | none => none)
  | k, some p => if isBlockKind k then some (blkFindKey s p.obj k key) else none
  | _, _ => none

def mkHandle (kind : String) (parent : Option Handle) (o : ObjId) : Handle :=
  match parent with
  | none => { kind := kind, obj := o, blk := 0 }
  | some p => { kind := kind, obj := o, blk := if p.kind == "B" then p.obj else p.blk }

/-- BaseTagHDF5::getFeature(name_or_id): by link name, else by the data array's name or id (stops being modelled when a
    feature without data would be dereferenced) -/
def findFeature (s : Store) (tag : Handle) (key : String) : Option (Option ObjId) :=
  match s.optGroup tag.obj "features" with
  | none => some none
  | some c =>
    match s.findGroupByNameOrAttribute c "name" key with
    | some f => some (some f)
    | none =>
      let rec go : List (String × ObjId) → Option (Option ObjId)
        | [] => some none
        | l :: ls =>
          match s.optGroup l.2 "data" with
          | none => go ls         -- a feature whose data array has been deleted is skipped
          | some d => if (blkFind s tag.blk "A" (nameOf s d) (idOf s d)).isNone then none
                      else if nameOf s d == key || idOf s d == key then some (some l.2) else go ls
      go (s.linksOf c)

/-- has(handle) of a container, per kind (front-end checkEntityInput first) -/
def hasByHandle (s : Store) (kind : String) (parent : Option Handle) (h : Option Handle) : Option Bool :=
  if !validHandle s h then some false else
  match h with
  | none => some false
  | some h =>
    let byId := (findByKey s kind parent (idOf s h.obj)).map (·.isSome)
    match kind, parent with
    | "B", none => byId
    | "S", _ => byId
    | "P", _ => byId
    | "O", some p => if p.kind == "B" then some (blkFindHandle s p.obj "O" h).isSome else byId
    | "R", some p => (findFeature s p (idOf s h.obj)).map (·.isSome)
    | k, some p => if isBlockKind k then some (blkFindHandle s p.obj k h).isSome else none
    | _, _ => none

def parentOf (ms : MState) (tok : String) : Option (Option Handle) :=
  -- outer none: empty slot (malformed); inner none: the file
  if tok == "$F" then some none else
  match slot? ms tok with
  | some (some h) => some (some h)
  | _ => none

/-- parse the column list of `mk … D`: `[xname:xunit:Type,…]` -/
def parseCols (tok : String) : Option (List String × List String) := do
  let items ← parseList tok
  let parts ← items.mapM fun it => match it.splitOn ":" with
    | [n, _, t] => (parseStr n).map fun n => (n, t)
    | _ => none
  pure (parts.map (·.1), parts.map (·.2))

def implOk (impl : List String) : Bool := impl.head? == some "ok"

/-- EntityWithSourcesHDF5::getSource(name_or_id): a name is resolved through the block's source tree to the first source
    of that name which is attached here -/
def getAttachedSource (s : Store) (holder : Handle) (key : String) : Option ObjId :=
  let id := if looksLikeUUID key then key else
    match (allSources s holder.blk).find? fun o => nameOf s o == key &&
        (match s.optGroup holder.obj "sources" with | some c => s.hasGroup c (idOf s o) | none => false) with
    | some o => idOf s o
    | none => key
  match s.optGroup holder.obj "sources" with
  | some c => if s.hasGroup c id then s.child? c id else none
  | none => none

/-- the harness op `xcheck`: every way of reaching every child of one container -/
def xcheck (s : Store) (kind : String) (parent : Option Handle) : Option (List String) := do
  let c ← containerOf s kind parent
  let n := countIn s c
  let lookup (k : String) : Option (Option ObjId) :=
    if kind == "R" then (match parent with | some p => if k.isEmpty then none else findFeature s p k | none => none)
    else findByKey s kind parent k
  let rows ← (List.range n).mapM fun i =>
    match nthChild s c i with
    | none => some ["|", toString i, "~"]
    | some o => do
      let id := idOf s o
      let name := if kind == "R" then id else nameOf s o
      let byName ← lookup name
      let byId ← lookup id
      let hh ← hasByHandle s kind parent (some (mkHandle kind parent o))
      let tok (r : Option ObjId) : String := match r with | some x => idOf s x | none => "~"
      let b (x : Bool) : String := if x then "1" else "0"
      some ["|", toString i, id, fmtStr name, tok byName, tok byId, b byName.isSome, b byId.isSome, b hh]
  pure (["ok", toString n, fmtList (linkedIds s c)] ++ rows.flatten)

/-- the harness op `xlinks`: the same for link containers (named by the target's id) -/
def xlinks (s : Store) (rel : String) (h : Handle) : Option (List String) := do
  let cname := if rel == "ref" then "references" else if rel == "src" then "sources" else groupContainer (rel.drop 1).toString
  let c := s.optGroup h.obj cname
  let n := countIn s c
  let get (k : String) : Option ObjId :=
    if rel == "ref" then getReference s h.obj h.blk k
    else if rel == "src" then getAttachedSource s h k
    else let (nm, i) := identOfString k; grpFind s h.obj (rel.drop 1).toString nm i
  let has (k : String) : Bool :=
    if rel == "src" then (match c with | some c => s.hasGroup c k | none => false) else (get k).isSome
  let rows := (List.range n).map fun i =>
    match nthChild s c i with
    | none => ["|", toString i, "~", "x"]
    | some o =>
      let id := idOf s o
      let name := nameOf s o
      let tok (r : Option ObjId) : String := match r with | some x => idOf s x | none => "~"
      let b (x : Bool) : String := if x then "1" else "0"
      ["|", toString i, id, fmtStr name, tok (get name), tok (get id), b (has name), b (has id)]
  pure (["ok", toString n, fmtList (linkedIds s c)] ++ rows.flatten)

/-- one op on the model: new state and the prediction -/
def step (ms : MState) (op : String) (args impl : List String) : MState × Pred :=
  let s := ms.store
  let fail (why : String) : MState × Pred := (ms, .unsupported why)
  let res {α} (r : Res α) (onOk : Store → α → MState × Pred) : MState × Pred :=
    match r with
    | (s', .error e) => ({ ms with store := s' }, errTok e)
    | (s', .ok a) => onOk s' a
  let unit (r : Res Unit) : MState × Pred := res r fun s' _ => ({ ms with store := s' }, .exact ["ok"])
  let del (r : Store × Bool) : MState × Pred := ({ ms with store := r.1 }, b01 r.2)
  match op, args with
  | "fopen", mode :: _ =>
    let idTok := (impl[1]?).getD "?"
    if mode == "ow" || !ms.fileExists then
      if mode == "ro" && !ms.fileExists then (ms, .err "StdRuntime") else
      ({ store := newFile idTok "?" (fmtStr Gen.fileFormat) (fmtList [toString Gen.libVersion.1, toString Gen.libVersion.2.1, toString Gen.libVersion.2.2]), slots := [], fileExists := true,
         isOpen := true, ro := false, lost := none }, .exact ["ok", idTok, "ow"])
    else
      ({ ms with slots := [], isOpen := true, ro := mode == "ro", lost := ms.lost },
        .exact ["ok", attrTok s 0 "id", mode])
  | "fdrop", _ => ({ ms with slots := [], isOpen := false }, .exact ["ok"])
  | "fclose", _ => ({ ms with isOpen := false, lost := some "fclose with live handles" }, .skip)
  | "fflush", _ => (ms, .skip)
  | "fisopen", _ => (ms, .exact ["ok", if ms.isOpen then "1" else "0"])
  | "fbytes", _ => (ms, .skip)
  | "dumpx", _ => (ms, .skip)      -- a reader process on the closed file; compared by the caller
  | _, _ =>
  if !ms.isOpen then fail "op on a closed file" else
  if ms.ro && !(["getlinkh", "get", "has", "count", "list", "valid", "drop", "idof", "dump", "dumpx", "xcheck", "xlinks", "countlink", "listlink",
                 "haslink", "getlink", "dims", "gdim", "pget", "da_read1", "getf", "find", "validate", "hdump", "xfeat", "haslinkh", "fld", "xdim"].contains op) then
    -- a mutator in a read-only session: whatever it answers (an exception, or `false` for "there was nothing to remove"), the file
    -- stays as it is — the next dump is compared with the unchanged store
    (ms, .skip) else
  match op, args with
  | "mk", slot :: kind :: par :: nameTok :: typeTok :: extra =>
    match parseStr nameTok, parentOf ms par with
    | some name, some parent =>
      let id := if implOk impl then (impl[1]?).getD "?" else "?id"
      let created := if implOk impl then (impl[2]?).getD "?" else "?"
      let fin (r : Res ObjId) : MState × Pred :=
        res r fun s' o => (bind { ms with store := s' } slot (some (mkHandle kind parent o)), .okAny)
      match kind, parent, extra with
      | "B", none, [] => fin (createBlock s name typeTok id created)
      | "S", none, [] => fin (createSectionIn s none name typeTok id created)
      | "S", some p, [] => fin (createSectionIn s (some p.obj) name typeTok id created)
      | "O", some p, [] => if p.kind == "B" then fin (createSource s p.obj name typeTok id created) else fin (createSourceIn s p.obj name typeTok id created)
      | "A", some p, [dt, shape] => if dt == "Nothing" then fail "createDataArray with DataType::Nothing" else fin (createDataArray s p.obj name typeTok id created dt shape)
      | "A", some p, [dt, shape, cls] =>
        -- the templated createDataArray(name, type, data, dtype): element type inferred for Nothing, the array made, the data
        -- written; a write that is refused (numbers ↔ strings, anything but Bool for a Bool array) takes the new array away again
        let dt' := if dt == "Nothing" then (if cls == "d" then "Double" else "String") else dt
        let fits := if cls == "d" then !(["String", "Bool", "Opaque", "Char"].contains dt') else dt' == "String"
        (match createDataArray s p.obj name typeTok id created dt' shape with
         | (s', .ok o) => if fits then fin (s', .ok o) else ({ ms with store := s }, errTok .h5Error)
         | (_, .error e) => ({ ms with store := s }, errTok e))
      | "D", some p, [cols] =>
        match parseCols cols with
        | some (ns, ts) =>
          -- the dump prints name:unit:type with the type spelled by data_type_to_string
          fin (createDataFrame s p.obj name typeTok id created ns ts cols)
        | none => (ms, .unsupported "malformed columns")
      | "T", some p, [pos] => fin (createTag s p.obj name typeTok id created pos)
      | "G", some p, [] => fin (createGroup s p.obj name typeTok id created)
      | "M", some p, [posSlot] =>
        let ph := if posSlot == "$-" then some none else slot? ms posSlot
        match ph with
        | some ph => fin (createMultiTag s p.obj name typeTok id created ph)
        | none => fail "empty slot"
      | "P", some p, [dt] => fin (createProperty s p.obj name id created dt)
      | "R", some p, [daSlot, lt] =>
        let dh := if daSlot == "$-" then some none else slot? ms daSlot
        match dh with
        | some dh => fin (createFeature s p.obj p.blk id created lt dh)
        | none => fail "empty slot"
      | _, _, _ => fail s!"mk {kind}"
    | _, _ => fail "mk through an uninitialised parent"
  | "get", [slot, kind, par, how, key] =>
    match parentOf ms par with
    | none => fail "get through an uninitialised parent"
    | some parent =>
      let found : Option (Option ObjId) :=
        if how == "idx" then
          match key.toNat?, containerOf s kind parent with
          | some i, some c => if i < countIn s c then some (nthChild s c i) else none
          | _, _ => none
        else match keyOf ms how key with
          | some k =>
            if kind == "R" then (match parent with
              | some p => if k.isEmpty then none else findFeature s p k
              | none => none)
            else findByKey s kind parent k
          | none => none
      match found with
      | none => fail "get outside the modelled lookups"
      | some (some o) => (bind ms slot (some (mkHandle kind parent o)), .exact ["ok", idOf s o])
      | some none => (bind ms slot none, .exact ["ok", "~"])
  | "has", [kind, par, how, key] =>
    match parentOf ms par with
    | none => fail "has through an uninitialised parent"
    | some parent =>
      if how == "handle" then
        match slot? ms key with
        | some h => (match hasByHandle s kind parent h with
          | some b => (ms, b01 b)
          | none => fail "has(handle) outside the modelled lookups")
        | none => fail "empty slot"
      else match keyOf ms how key with
        | some k =>
          let r := if kind == "R" then (match parent with
              | some p => if k.isEmpty then none else findFeature s p k
              | none => none) else findByKey s kind parent k
          (match r with
          | some o => (ms, b01 o.isSome)
          | none => fail "has outside the modelled lookups")
        | none => fail "bad key"
  | "count", [kind, par] =>
    match parentOf ms par with
    | some parent => (match containerOf s kind parent with
      | some c => (ms, .exact ["ok", toString (countIn s c)])
      | none => fail "count")
    | none => fail "count through an uninitialised parent"
  | "list", [kind, par] =>
    match parentOf ms par with
    | some parent => (match containerOf s kind parent with
      | some c => (ms, .exact ["ok", fmtList (linkedIds s c)])
      | none => fail "list")
    | none => fail "list through an uninitialised parent"
  | "valid", slot :: _ =>
    match slot? ms slot with
    | some none => (ms, .exact ["ok", "none"])
    | some (some h) => (ms, b01 (isValidEntity s h.obj))
    | none => fail "empty slot"
  | "drop", [slot] => ({ ms with slots := ms.slots.filter (·.1 != slot) }, .exact ["ok"])
  | "idof", [slot] =>
    match slot? ms slot with
    | some (some h) => (ms, .exact ["ok", idOf s h.obj])
    | some none => (ms, .err "UninitializedEntity")
    | none => fail "empty slot"
  | "del", [kind, par, how, key] =>
    match parentOf ms par with
    | none => fail "del through an uninitialised parent"
    | some parent =>
      -- the string that reaches the backend
      let keyStr : Option (Option String) :=     -- outer none: unsupported; inner none: the front end answers false
        if how == "handle" then
          match slot? ms key with
          | some h =>
            if !validHandle s h then some none else
            (match h with
            | some h => some (some (idOf s h.obj))      -- every by-entity overload goes by id (Block::deleteSource since fix 4d12a1e)
            | none => some none)
          | none => none
        else (keyOf ms how key).map some
      match keyStr with
      | none => fail "del: bad key"
      | some none => (ms, b01 false)
      | some (some k) =>
        match kind, parent with
        | "B", none => del (deleteBlock s k)
        | "S", none => del (deleteSection s none k)
        | "S", some p => del (deleteSection s (some p.obj) k)
        | "O", some p => if p.kind == "B" then del (deleteBlockSource s p.obj k) else del (deleteSubSource s p.obj k)
        | "P", some p => del (deleteProperty s p.obj k)
        | "R", some p =>
          (match findFeature s p k with
          | some (some f) => (match s.optGroup p.obj "features" with
            | some c => del (s.removeGroup c (idOf s f), true)
            | none => (ms, b01 false))
          | some none => (ms, b01 false)
          | none => fail "deleteFeature outside the modelled lookups")
        | kd, some p =>
          if !isBlockKind kd then fail "del kind" else
          if how == "handle" then
            (match slot? ms key with
            | some (some h) => del (removeEntity s p.obj kd (nameOf s h.obj) (idOf s h.obj))
            | _ => fail "del handle")
          else
            let (n, i) := identOfString k
            del (removeEntity s p.obj kd n i)
        | _, _ => fail "del"
  | "link", [rel, holder, how, key] =>
    match slot? ms holder with
    | some (some h) =>
      let target : Option (Option Handle) := if how == "handle" then slot? ms key else some none
      let k : Option String := if how == "handle" then some "" else keyOf ms how key
      match target, k with
      | some th, some k =>
        if rel == "ref" then
          if how == "handle" then
            (if !validHandle s th then (ms, .err "UninitializedEntity") else
             match th with
             | some t => unit (addReference s h.obj h.blk (idOf s t.obj))
             | none => (ms, .err "UninitializedEntity"))
          else if h.kind == "T" && k.isEmpty then (ms, .err "EmptyString")
          else unit (addReference s h.obj h.blk k)
        else if rel == "src" then
          if how == "handle" then
            (match th with
             | some t => unit (addSource s h.obj h.blk (idOf s t.obj))
             | none => (ms, .err "UninitializedEntity"))
          else unit (addSource s h.obj h.blk k)
        else
          let kind := (rel.drop 1).toString
          if how == "handle" then
            (if !validHandle s th then (ms, .err "UninitializedEntity") else
             match th with
             | some t => unit (addMember s h.obj h.blk kind (nameOf s t.obj) (idOf s t.obj))
             | none => (ms, .err "UninitializedEntity"))
          else
            let (n, i) := identOfString k
            unit (addMember s h.obj h.blk kind n i)
      | _, _ => fail "link: bad key"
    | _ => fail "link through an uninitialised holder"
  | "unlink", [rel, holder, how, key] =>
    match slot? ms holder with
    | some (some h) =>
      let target : Option (Option Handle) := if how == "handle" then slot? ms key else some none
      let k : Option String := if how == "handle" then some "" else keyOf ms how key
      match target, k with
      | some th, some k =>
        if rel == "ref" then
          if how == "handle" then
            (if !validHandle s th then (if h.kind == "T" then (ms, b01 false) else (ms, .err "UninitializedEntity")) else
             match th with
             | some t => del (removeReference s h.obj h.blk (idOf s t.obj))
             | none => (ms, b01 false))
          else del (removeReference s h.obj h.blk k)
        else if rel == "src" then
          if how == "handle" then
            (match th with
             | some t => del (removeSource s h.obj (idOf s t.obj))
             | none => (ms, .err "UninitializedEntity"))
          else del (removeSource s h.obj k)
        else
          let kind := (rel.drop 1).toString
          if how == "handle" then
            (if !validHandle s th then (ms, b01 false) else
             match th with
             | some t => del (removeMember s h.obj kind (nameOf s t.obj) (idOf s t.obj))
             | none => (ms, b01 false))
          else
            let (n, i) := identOfString k
            del (removeMember s h.obj kind n i)
      | _, _ => fail "unlink: bad key"
    | _ => fail "unlink through an uninitialised holder"
  | "setlinks", [rel, holder, slots] =>
    match slot? ms holder, parseList slots with
    | some (some h), some sl =>
      (match sl.mapM (fun x => if x == "$-" then some none else slot? ms x) with
       | some ts => unit (setLinks s rel h ts)
       | none => fail "setlinks: empty slot")
    | _, _ => fail "setlinks through an uninitialised holder"
  | "countlink", [rel, holder] =>
    match slot? ms holder with
    | some (some h) =>
      let cname := if rel == "ref" then "references" else if rel == "src" then "sources" else groupContainer (rel.drop 1).toString
      (ms, .exact ["ok", toString (countIn s (s.optGroup h.obj cname))])
    | _ => fail "countlink"
  | "listlink", [rel, holder] =>
    match slot? ms holder with
    | some (some h) =>
      let cname := if rel == "ref" then "references" else if rel == "src" then "sources" else groupContainer (rel.drop 1).toString
      (ms, .exact ["ok", fmtList (childIds s h.obj cname)])
    | _ => fail "listlink"
  | "getlinkh", [slot, rel, holder, how, key] =>
    match slot? ms holder with
    | some (some h) =>
      if rel == "meta" then
        -- metadata(): the link target's id, looked up again in the section tree
        (match s.optGroup h.obj "metadata" with
         | some t => (match findSectionById s (idOf s t) with
           | some f => (bind ms slot (some { kind := "S", obj := f, blk := 0 }), .exact ["ok", idOf s f])
           | none => (bind ms slot none, .exact ["ok", "~"]))
         | none => (bind ms slot none, .exact ["ok", "~"]))
      else
      let cname := if rel == "ref" then "references" else if rel == "src" then "sources" else groupContainer (rel.drop 1).toString
      let kind := if rel == "ref" then "A" else if rel == "src" then "O" else (rel.drop 1).toString
      let found : Option (Option ObjId) :=
        if how == "idx" then
          (match key.toNat? with
           | some i => if i < countIn s (s.optGroup h.obj cname) then some (nthChild s (s.optGroup h.obj cname) i) else none
           | none => none)
        else match keyOf ms how key with
          | some k =>
            if rel == "ref" then some (getReference s h.obj h.blk k)
            else if rel == "src" then some (getAttachedSource s h k)
            else let (nm, i) := identOfString k; some (grpFind s h.obj kind nm i)
          | none => none
      (match found with
       | some (some o) => (bind ms slot (some { kind := kind, obj := o, blk := h.blk }), .exact ["ok", idOf s o])
       | some none => (bind ms slot none, .exact ["ok", "~"])
       | none => fail "getlinkh outside the modelled lookups")
    | _ => fail "getlinkh through an uninitialised holder"
  | "haslink", [rel, holder, how, key] =>
    -- by name or id (by handle: `haslinkh`, judged by its own rule): true exactly when the lookup of `xlinks` finds the entity
    if how == "handle" then (ms, .skip) else
    (match slot? ms holder, keyOf ms how key with
     | some (some h), some k =>
       if k.isEmpty then (ms, .skip) else
       let cname := if rel == "ref" then "references" else if rel == "src" then "sources" else groupContainer (rel.drop 1).toString
       let c := s.optGroup h.obj cname
       let found : Bool :=
         if rel == "ref" then (getReference s h.obj h.blk k).isSome
         else if rel == "src" then (match c with | some c => s.hasGroup c k | none => false)
         else let (nm, i) := identOfString k; (grpFind s h.obj (rel.drop 1).toString nm i).isSome
       (ms, b01 found)
     | _, _ => (ms, .skip))
  | "haslink", _ => (ms, .skip)
  | "getlink", _ => (ms, .skip)
  -- forceCreatedAt(t): any time is a time (0 and negative ones included) and stays what it was set to; forceUpdatedAt: not carried
  | "fm_ent", [slot, "forcecreated", t] =>
    (match slot? ms slot with
     | some (some h) => ({ ms with store := s.setAttr h.obj "created_at" t }, .exact ["ok"])
     | _ => (ms, .err "UninitializedEntity"))
  | "fm_ent", _ => (ms, .skip)
  | "fld", _ => (ms, .skip)
  | "xdim", _ => (ms, .skip)
  | "single", [field, holder, how, key] =>
    match slot? ms holder with
    | some (some h) =>
      let target : Option (Option Handle) := if how == "handle" then slot? ms key else some none
      let k : Option String := if how == "id" || how == "idof" then keyOf ms how key else some ""
      match target, k with
      | some th, some k =>
        let secField := if field == "metadata" then "metadata" else "link"
        if field == "metadata" || field == "seclink" then
          if how == "none" then unit (unsetLink s h.obj secField)
          else if how == "handle" then
            (match th with
             | none => unit (unsetLink s h.obj secField)
             | some t => unit (setSectionLink s h.obj secField (idOf s t.obj)))
          else if field == "seclink" && k.isEmpty then (ms, .err "EmptyString")
          else unit (setSectionLink s h.obj secField k)
        else if field == "positions" then
          if how == "handle" then
            (if !validHandle s th then (ms, .err "UninitializedEntity") else
             match th with
             | some t => unit (setArrayLink s h.obj h.blk "positions" (idOf s t.obj))
             | none => (ms, .err "UninitializedEntity"))
          else if k.isEmpty then (ms, .err "EmptyString") else unit (setArrayLink s h.obj h.blk "positions" k)
        else if field == "extents" then
          if how == "none" then unit (unsetLink s h.obj "extents")
          else if how == "handle" then
            (match th with
             | none => unit (unsetLink s h.obj "extents")
             | some t => if !isValidEntity s t.obj then (ms, .err "UninitializedEntity") else unit (setExtents s h.obj h.blk (idOf s t.obj)))
          else if k.isEmpty then (ms, .err "EmptyString") else unit (setExtents s h.obj h.blk k)
        else if field == "featdata" then
          if how == "handle" then
            (if !validHandle s th then (ms, .err "UninitializedEntity") else
             match th with
             | some t => unit (setArrayLink s h.obj h.blk "data" (idOf s t.obj))
             | none => (ms, .err "UninitializedEntity"))
          else if k.isEmpty then (ms, .err "EmptyString") else unit (setArrayLink s h.obj h.blk "data" k)
        else fail "single field"
      | _, _ => fail "single: bad key"
    | _ => fail "single through an uninitialised holder"
  | "set", [holder, field, value] =>
    match slot? ms holder with
    | some (some h) =>
      let none_ := value == "~"
      if field == "type" && h.kind != "R" && h.kind != "P" then unit (setNonEmpty s h.obj "type" value)
      else if field == "definition" && h.kind != "R" && h.kind != "P" then
        (if none_ then unit (unsetAttr s h.obj "definition") else unit (setNonEmpty s h.obj "definition" value))
      else if h.kind == "S" && field == "repository" then
        (if none_ then unit (unsetAttr s h.obj "repository") else unit (setNonEmpty s h.obj "repository" value))
      else if h.kind == "A" && field == "label" then
        (if none_ then unit (unsetAttr s h.obj "label") else unit (setNonEmpty s h.obj "label" value))
      else if h.kind == "A" && field == "unit" then
        (if none_ then unit (unsetAttr s h.obj "unit") else
         match parseStr value with
         | some u => if (deblank u).isEmpty then (ms, .err "EmptyString") else unit (s.setAttr h.obj "unit" value, .ok ())
         | none => fail "unit token")
      else if h.kind == "T" && field == "position" then unit (s.setAttr h.obj "ds:position" value, .ok ())
      else if h.kind == "T" && field == "extent" then
        (if none_ then unit (s.removeAttr h.obj "ds:extent", .ok ()) else unit (s.setAttr h.obj "ds:extent" value, .ok ()))
      else if (h.kind == "T" || h.kind == "M") && field == "units" then
        (if none_ then unit (s.removeAttr h.obj "ds:units", .ok ()) else
         match parseList value with
         | some toks => (match sanitizeUnits toks with
           | .ok us => unit (s.setAttr h.obj "ds:units" (fmtList us), .ok ())
           | .error "InvalidUnit" => (ms, .err "InvalidUnit")
           | .error w => fail w)
         | none => fail "units token")
      else if h.kind == "R" && field == "linktype" then unit (s.setAttr h.obj "link_type" value, .ok ())
      else if h.kind == "P" then (ms, .skip)
      else if h.kind == "A" && (field == "origin" || field == "poly") then (ms, .skip)     -- calibration: not carried by the store model
      else fail s!"set {field} on {h.kind}"
    | _ => fail "set through an uninitialised holder"
  -- ops that touch only what the store model does not carry
  -- an alias range dimension mirrors its array: unit and label set through it are the array's, its ticks are the array's data
  | "adim", slot :: "alias" :: _ =>
    (match slot? ms slot with
     | some (some h) => ({ ms with aliases := if implOk impl then h.obj :: ms.aliases else ms.aliases }, .skip)
     | _ => (ms, .skip))
  | "ddims", slot :: _ =>
    (match slot? ms slot with
     | some (some h) => ({ ms with aliases := if implOk impl then ms.aliases.filter (· != h.obj) else ms.aliases }, .skip)
     | _ => (ms, .skip))
  | "sdim", [slot, idx, field, value] =>
    (match slot? ms slot with
     | some (some h) =>
       if implOk impl && idx == "1" && ms.aliases.contains h.obj then
         let s' := if field == "unit" then (if value == "~" then s.removeAttr h.obj "unit" else s.setAttr h.obj "unit" value)
           else if field == "label" then (if value == "~" then s.removeAttr h.obj "label" else s.setAttr h.obj "label" value)
           else if field == "ticks" then s.setAttr h.obj "ds:shape" (fmtList [toString ((parseList value).getD []).length])
           else s
         ({ ms with store := s' }, .skip)
       else (ms, .skip)
     | _ => (ms, .skip))
  | "adim", _ | "sdim", _ | "pvalues", _ | "pset", _ | "dims", _ | "gdim", _ | "pget", _ | "da_read1", _ => (ms, .skip)
  -- the extent of an array is carried (MultiTag::extents compares the extents of two arrays): an accepted `da_setext` sets it to the
  -- requested shape, an accepted whole-array write of a vector of n elements to [n]
  | "da_setext", [slot, shape] =>
    match slot? ms slot with
    | some (some h) => ({ ms with store := if implOk impl then s.setAttr h.obj "ds:shape" shape else s }, .skip)
    | _ => (ms, .skip)
  | "da_append", [slot, vals] | "da_appends", [slot, vals] =>
    match slot? ms slot with
    | some (some h) =>
      let shape' : String := match (parseList (attrTok s h.obj "ds:shape")).map (·.map String.toNat?) with
        | some [some n] => fmtList [toString (n + ((parseList vals).getD []).length)]
        | _ => "?"
      ({ ms with store := if implOk impl then s.setAttr h.obj "ds:shape" shape' else s }, .skip)
    | _ => (ms, .skip)
  | "da_fill", [slot, vals] | "da_fills", [slot, vals] =>
    match slot? ms slot with
    | some (some h) => ({ ms with store := if implOk impl then s.setAttr h.obj "ds:shape" (fmtList [toString ((parseList vals).getD []).length]) else s }, .skip)
    | _ => (ms, .skip)
  | "mkpv", _ => fail "createProperty(name, values)"
  | "xcheck", [kind, par] =>
    match parentOf ms par with
    | some parent => (match xcheck s kind parent with
      | some toks => (ms, .exact toks)
      | none => fail "xcheck outside the modelled lookups")
    | none => fail "xcheck through an uninitialised parent"
  | "xlinks", [rel, holder] =>
    match slot? ms holder with
    | some (some h) => (match xlinks s rel h with
      | some toks => (ms, .exact toks)
      | none => fail "xlinks")
    | _ => fail "xlinks through an uninitialised holder"
  | "dump", _ | "dumpx", _ => (ms, .skip)      -- compared by the caller
  | "hdump", _ | "xfeat", _ | "haslinkh", _ => (ms, .skip)     -- judged by the impl-side rules (what handles show / features by their data array)
  | _, _ => fail s!"op {op}"

end Nix.Drive.StoreModel
