import NixModel.Proofs.Roles
/-
  Run-time side of the schema invariant (Proofs/Roles*.lean): at every dump of the tie the driver infers the roles of the
  objects of the model store by walking from the root along the links (`childRole`), and checks that
    * every link name is one the schema knows for its holder, no object is reached in two different roles, non-empty link
      names are pairwise distinct in every object, an object is a data set iff its role is `prop`  (= `WT` of the store the
      model is in, which the library's dump has just been compared with), and
    * every handle the harness holds wraps an object of the role its kind says (= the guard `Op.kinded` of `apply_wt` holds for
      the calls the harness makes).
-/
namespace Nix.St
open Store

def roleOfKind (k : String) : Option Role :=
  if k == "B" then some (.ent .B) else if k == "S" then some (.ent .S) else if k == "O" then some (.ent .O)
  else if k == "A" then some (.ent .A) else if k == "D" then some (.ent .D) else if k == "T" then some (.ent .T)
  else if k == "M" then some (.ent .M) else if k == "G" then some (.ent .G) else if k == "R" then some (.ent .F)
  else if k == "P" then some .prop else none

/-- breadth-first role inference; the second component is the first problem met -/
def inferLoop (s : Store) : Nat → List (ObjId × Role) → List (ObjId × Role) → Option String → List (ObjId × Role) × Option String
  | 0, known, _, pb => (known, pb)
  | fuel + 1, known, frontier, pb =>
    if frontier.isEmpty then (known, pb) else
    let step := frontier.foldl (fun (acc : List (ObjId × Role) × List (ObjId × Role) × Option String) (p : ObjId × Role) =>
      (s.linksOf p.1).foldl (fun acc l =>
        let (known, next, pb) := acc
        match childRole p.2 l.1 with
        | none => (known, next, pb <|> some s!"link {l.1} of object {p.1} is not in the schema of its holder")
        | some r =>
          match known.lookup l.2 with
          | some r0 => (known, next, if r0 == r then pb else pb <|> some s!"object {l.2} is reached in two roles")
          | none => ((l.2, r) :: known, (l.2, r) :: next, pb)) acc) (known, [], pb)
    inferLoop s fuel step.1 step.2.1 step.2.2

def inferRoles (s : Store) : List (ObjId × Role) × Option String :=
  inferLoop s (s.objs.length + 1) [(0, .root)] [(0, .root)] none

def dupName (l : List (String × ObjId)) : Bool :=
  match l with
  | [] => false
  | a :: rest => (!a.1.isEmpty && rest.any (·.1 == a.1)) || dupName rest

/-- the schema check of a model store and of the handles held on it; `none` = all is well -/
def schemaProblem (s : Store) (handles : List (String × ObjId)) : Option String :=
  let (roles, pb) := inferRoles s
  match pb with
  | some p => some p
  | none =>
    match roles.find? (fun p => dupName (s.linksOf p.1)) with
    | some p => some s!"object {p.1} holds two links of one name"
    | none =>
      match roles.find? (fun p => s.isGroupObj p.1 != (p.2 != .prop)) with
      | some p => some s!"object {p.1}: group / data set does not match its role"
      | none =>
        match handles.find? (fun h => match roles.lookup h.2, roleOfKind h.1 with
            | some r, some r' => r != r'
            | _, _ => false) with
        | some h => some s!"a handle of kind {h.1} wraps object {h.2}, which has another role (Op.kinded)"
        | none => none

end Nix.St
