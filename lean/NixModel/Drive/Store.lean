import NixModel.Drive.SchemaCheck
import NixModel.Dump
import NixModel.Drive.Common
import NixModel.Drive.State
/-
  Store family: the property relations of C02 C03 C04 C08 C12 evaluated on what the implementation answers
  (dumps and cross-checks).  Nothing here consults a model.
-/
namespace Nix.Drive.Store
open Nix Nix.Proto Nix.Drive Nix.Dump

def sessionOps : List String := ["fopen", "fclose", "freopen", "fflush", "fdrop", "fisopen", "fbytes"]
def readOnlyOps : List String := ["xdim", "fld", "getlinkh", "get", "has", "count", "list", "valid", "drop", "idof", "haslink", "getlink", "countlink", "listlink",
  "xcheck", "xlinks", "xfeat", "hdump", "haslinkh", "getf", "find", "dump", "dumpx", "validate"]

def implOk (impl : List String) : Bool := impl.head? == some "ok"

/-- every id a dump exposes as an entity (records, and feature ids inside `feats`) -/
def entityIds (d : Dump) : List String :=
  d.flatMap fun r => (if r.id.length == 36 then [r.id] else []) ++
    (((Proto.parseList (r.field "feats")).getD []).filterMap fun e => (e.splitOn ":").head?)

def nodup (l : List String) : Bool :=
  let rec go : List String → List String → Bool
    | [], _ => true
    | x :: xs, seen => if seen.contains x then false else go xs (x :: seen)
  go l []

/-- C12 on one dump: ids well-formed and pairwise distinct -/
def relIds (d : Dump) : List (String × Bool) :=
  let ids := entityIds d
  [("ids_are_wellformed_uuids", ids.all wellFormedUUID && d.all fun r => r.id.length == 36 || r.id.startsWith "!"),
   ("ids_are_pairwise_distinct", nodup ids)]

/-- C12 across dumps: an id keeps denoting the same entity (kind, name — the creation time can be forced to another value) -/
def relIdStable (seen : List (String × String)) (d : Dump) : List (String × Bool) :=
  [("id_never_changes", d.all fun r =>
      match seen.find? (·.1 == r.id) with
      | some (_, sig) => sig == s!"{r.kind} {r.name}"
      | none => true)]

def remember (seen : List (String × String)) (d : Dump) : List (String × String) :=
  d.foldl (fun acc r => if r.id.length == 36 && !(acc.any (·.1 == r.id)) then (r.id, s!"{r.kind} {r.name}") :: acc else acc) seen

/-- remove / blank the deleted ids inside a field value, the way a holder must stop exposing them -/
def scrub (deleted : List String) (v : String) : String :=
  if v.startsWith "[" then
    let items := (Proto.parseList v).getD []
    let kept := items.filterMap fun e =>
      match e.splitOn ":" with
      | [a, b, c] => if deleted.contains a then none else some (if deleted.contains c then s!"{a}:{b}:~" else e)
      | _ => if deleted.contains e then none else some e
    Proto.fmtList kept
  else if deleted.contains v then "~" else v

/-- the descriptors of an array (`dims`): a data-frame dimension names its frame, `F:<frame id>:<column>`; the frame is a mandatory
    link of the dimension — once the frame has been deleted the getter reports an error (or none) instead of the frame, the rest of
    the descriptor list is as it was -/
def normDims (deleted : List String) (v : String) : String :=
  Proto.fmtList (((Proto.parseList v).getD []).map fun e =>
    match e.splitOn ":" with
    | ["F", b, c] => if deleted.contains b || b.startsWith "!" || b == "~" then s!"F:?:{c}" else e
    | _ => e)

/-- C04 on the dumps around one successful delete -/
def relDelete (before after : Dump) : List (String × Bool) :=
  let afterIds := after.map (·.id)
  let deleted := (before.filter fun r => r.id.length == 36 && !afterIds.contains r.id).map (·.id)
  -- the deleted set is one entity plus (for sources and sections) everything below it
  let roots := before.filter fun r => deleted.contains r.id && !(deleted.contains ((before.find? fun q => q.path == parentPath r.path && q.path != r.path).map (·.id) |>.getD ""))
  let subtreeOk := match roots with
    | [root] => (descendants before root).all (fun c => deleted.contains c.id || c.id.length != 36) && deleted.length == 1 + ((descendants before root).filter (·.id.length == 36)).length
    | _ => false
  let noDangling := after.all fun r => r.fields.all fun f => (idsIn f.2).all fun i => !deleted.contains i
  -- every survivor is as it was, apart from no longer exposing the deleted entities; a mandatory link may report an error instead
  let survivors := before.filter fun r => !deleted.contains r.id
  let sameOrder := survivors.map (·.id) == after.map (·.id)
  let unchanged := (survivors.zip after).all fun (b, a) =>
    b.id == a.id && b.kind == a.kind && b.name == a.name && b.type == a.type && b.created == a.created &&
    b.fields.length == a.fields.length &&
    (b.fields.zip a.fields).all fun (fb, fa) => fb.1 == fa.1 &&
      (if fb.1 == "dims" then normDims deleted fb.2 == normDims deleted fa.2 && (fb.2 == fa.2 || normDims deleted fb.2 != normDims [] fb.2)
       else (scrub deleted fb.2 == fa.2 || (scrub deleted fb.2 != fb.2 && fa.2.startsWith "!")))
  [("deleted_entity_and_subtree_are_gone", subtreeOk), ("no_dangling_reference", noDangling),
   ("survivors_keep_their_order", sameOrder), ("everything_else_unchanged", unchanged)]

/-- C04 for a deleted FEATURE (features are not records of their own: they are the `feats` field of their tag / multi-tag):
    exactly one holder lost exactly one entry of its feature list, the others keep their order; everything else is as it was -/
def relDeleteFeature (before after : Dump) : List (String × Bool) :=
  let same := before.length == after.length
  let pairs := before.zip after
  let changed := pairs.filter fun (b, a) => b != a
  let one := match changed with
    | [(b, a)] =>
      let fb := (Proto.parseList (b.field "feats")).getD []
      let fa := (Proto.parseList (a.field "feats")).getD []
      b.id == a.id && fa.length + 1 == fb.length && fa.all (fb.contains ·) && fa == fb.filter (fa.contains ·) &&
      b.fields.length == a.fields.length && (b.fields.zip a.fields).all fun (x, y) => x.1 == y.1 && (x.1 == "feats" || x.2 == y.2)
    | _ => false
  [("deleted_feature_is_gone_from_its_holder_only", same && one)]

def containerKey (kind parentId : String) : String := s!"{kind}@{parentId}"

def slotId (st : StoreSt) (slot : String) : Option String :=
  if slot == "$F" then some "F" else (st.slotIds.find? (·.1 == slot)).map (·.2)

def bind (st : StoreSt) (slot id : String) : StoreSt :=
  { st with slotIds := (slot, id) :: st.slotIds.filter (·.1 != slot) }

def appendOrder (st : StoreSt) (key id : String) : StoreSt :=
  match st.order.find? (·.1 == key) with
  | some (_, l) => { st with order := (key, l ++ [id]) :: st.order.filter (·.1 != key) }
  | none => { st with order := (key, [id]) :: st.order }

/-- C03 on one cross-check answer (`xcheck` / `xlinks`) -/
def relXcheck (st : StoreSt) (key : String) (impl : List String) (needHasName : Bool) : List (String × Bool) :=
  match impl with
  | "ok" :: cnt :: listed :: rest =>
    let groups := rest.foldr (fun t acc => if t == "|" then [] :: acc else match acc with | [] => [[t]] | h :: r => (t :: h) :: r) [[]]
    let rows := groups.filter (· ≠ [])
    let ids := (Proto.parseList listed).getD []
    let names := rows.filterMap fun r => r[2]?
    let known := ((st.order.find? (·.1 == key)).map (·.2)).getD []
    -- K1: names shaped like a UUID are taken for ids by the lookup layer; failures confined to such names are one known finding
    let uuidShaped (r : List String) : Bool := match r[2]? with
      | some n => (match Proto.parseStr n with | some s => s.length == 36 && (s.toList.getD 8 ' ') == '-' && (s.toList.getD 13 ' ') == '-' | none => false)
      | none => false
    let byNameBad := rows.filter fun r => r[3]? != r[1]?
    let hasNameBad := rows.filter fun r => r[5]? != some "1"
    let k1 (bad : List (List String)) (n : String) : String := if !bad.isEmpty && bad.all uuidShaped then n ++ "_for_uuid_shaped_names" else n
    [ ("count_equals_enumeration_length", cnt == toString ids.length && rows.length == ids.length),
      ("names_unique_within_parent", nodup names),
      ("index_lookup_equals_enumeration", (rows.zip ids).all fun (r, i) => r[1]? == some i),
      (k1 byNameBad "name_lookup_returns_the_entity", byNameBad.isEmpty),
      ("id_lookup_returns_the_entity", rows.all fun r => r[4]? == r[1]?),
      (k1 hasNameBad "has_by_name", !needHasName || hasNameBad.isEmpty),
      ("has_by_id", rows.all fun r => r[6]? == some "1" || (!needHasName && r.length == 7 && r[6]? == some "1") || (r.length == 7 && r[6]? == some "1")),
      ("has_by_handle", rows.all fun r => r.length < 8 || r[7]? == some "1"),
      ("index_order_is_creation_order", (known.filter fun i => ids.contains i) == (ids.filter fun i => known.contains i)) ]
  | _ => []

/-- C02 / C04 on `hdump`: the record an entity shows through a handle that was held across the history (or through its twin)
    is the record the fresh walk of the file has just shown for that id — nothing is remembered in a handle -/
def relHandles (tree : Dump) (held : Dump) : List (String × Bool) :=
  let same (h r : Rec) : Bool := h.kind == r.kind && h.name == r.name && h.type == r.type && h.created == r.created && h.fields == r.fields
  [("held_handle_shows_what_the_tree_shows", held.all fun h =>
      h.id.length != 36 || (match tree.find? (·.id == h.id) with
        | some r => same h r
        | none => true))]      -- the entity is gone: what its handle reports is C04's business (`valid`)

/-- C03 on `xfeat`: a feature is found through the name and through the id of its data array (the first feature of that array,
    when several share it), and the has-queries agree -/
def relXfeat (impl : List String) : List (String × Bool) :=
  match impl with
  | "ok" :: _ :: rest =>
    let groups := rest.foldr (fun t acc => if t == "|" then [] :: acc else match acc with | [] => [[t]] | h :: r => (t :: h) :: r) [[]]
    let rows := (groups.filter (· ≠ [])).filter fun r => r.length == 8
    let firstWith (col : Nat) (v : Option String) : Option String := (rows.find? fun q => q[col]? == v).bind (·[1]?)
    -- a data array NAMED like the id of another feature / array is resolved as that id first (K1's family): stay silent there
    let plain (r : List String) : Bool := match r[3]? with
      | some n => (match Proto.parseStr n with | some s => s.length != 36 | none => false)
      | none => false
    [("feature_found_through_its_data_array_name", rows.all fun r => !plain r || r[4]? == firstWith 3 r[3]?),
     ("feature_found_through_its_data_array_id", rows.all fun r => r[5]? == firstWith 2 r[2]?),
     ("has_feature_by_data_array", rows.all fun r => (!plain r || r[6]? == some "1") && r[7]? == some "1")]
  | _ => []

def handleImpl (ds : DState) (op : String) (args impl : List String) : Option (DState × Out) :=
  let st := ds.store
  let ok := implOk impl
  -- a short descriptor of the call: the op and the argument that selects the entry point
  let desc : String := match op, args with
    | "mk", _ :: k :: _ => s!"mk.{k}"
    | "single", f :: _ :: how :: _ => s!"single.{f}.{how}"
    | "link", r :: _ :: how :: _ => s!"link.{r}.{how}"
    | "setlinks", r :: _ => s!"setlinks.{r}"
    | "unlink", r :: _ => s!"unlink.{r}"
    | "set", _ :: f :: _ => s!"set.{f}"
    | "adim", _ :: k :: _ => s!"adim.{k}"
    | "sdim", _ :: _ :: f :: _ => s!"sdim.{f}"
    | "del", k :: _ => s!"del.{k}"
    | _, _ => op
  -- a mutation that the library carried out invalidates what was seen through handles before it
  let note (st : StoreSt) : StoreSt := if readOnlyOps.contains op then st else
    -- (a delete / an unlink that answers `false` says it did nothing: judged like a refusal — the next dump must be the last one)
    { st with sinceDump := st.sinceDump ++ [(desc, if op == "del" || op == "unlink" then impl == ["ok", "1"] else ok)], lastDeleted := none, goneIds := [], linkObs := if sessionOps.contains op then st.linkObs else [] }
  let fin (st : StoreSt) (o : Out) : Option (DState × Out) := some ({ ds with store := st }, o)
  match op with
  | "fopen" | "fclose" | "freopen" | "fflush" | "fdrop" | "fisopen" | "fbytes" =>
    fin (note st) (.ok s!"{op}.{if ok then "ok" else "err"}")
  | "mk" =>
    let st := note st
    match args, impl with
    | slot :: kind :: parent :: nameTok :: _, ["ok", id, _] =>
      let st := bind st slot id
      let st := { st with slotInfo := (slot, (kind, parent, nameTok)) :: st.slotInfo.filter (·.1 != slot) }
      let st := match slotId st parent with
        | some pid => appendOrder st (containerKey kind pid) id
        | none => st
      fin st (.ok s!"mk.{kind}.ok")
    | _ :: kind :: _, _ => fin st (.ok s!"mk.{kind}.{(impl[1]?).getD "err"}")
    | _, _ => fin st (.malformed "mk")
  | "get" =>
    match args, impl with
    | slot :: kind :: _, ["ok", id] => fin (if id.length == 36 then bind st slot id else { st with slotIds := st.slotIds.filter (·.1 != slot) }) (.ok s!"get.{kind}")
    | _, _ => fin st (.ok "get.err")
  | "valid" =>
    -- C04: a handle to an entity that has just been deleted reports itself invalid — whichever route the handle was obtained by
    -- (the slot that named the victim, or another slot holding the same entity, e.g. fetched through a tag or a group)
    -- … and every entity that went with it (sub-sections, sub-sources, the children of a block): the ids that the dump after the
    -- delete no longer shows
    let sameEntity : Bool := (match st.lastDeleted, args[0]? with
      | some v, some sl => v == sl || (match slotId st v, slotId st sl with | some a, some b => a == b && a.length == 36 | _, _ => false)
      | _, _ => false) || (match args[0]? with
      | some sl => (match slotId st sl with | some a => a.length == 36 && st.goneIds.contains a | none => false)
      | none => false)
    -- … and a handle of an entity that was NOT deleted stays valid, also when the route it was obtained by (through the victim) is gone
    let survivor : Bool := args.length == 2 && args[1]? == some "alive" && impl != ["ok", "none"] && ok &&
      (match args[0]? with
       | some sl => (match slotId st sl with | some a => a.length == 36 && !st.goneIds.contains a && (st.lastDump.map fun d => d.any (·.id == a)) == some true | none => false)
       | none => false)
    fin st (judge s!"valid.{if ok then "ok" else "err"}" impl impl
      ((if args.length == 2 && args[1]? == some "deleted" && sameEntity && impl != ["ok", "none"] then [("deleted_handle_reports_invalid", impl == ["ok", "0"])] else []) ++
       (if survivor then [("handle_of_a_surviving_entity_stays_valid", impl == ["ok", "1"])] else [])))
  | "getlinkh" =>
    match args, impl with
    | slot :: _, ["ok", id] => fin (if id.length == 36 then bind st slot id else { st with slotIds := st.slotIds.filter (·.1 != slot) }) (.ok s!"getlinkh.{if id.length == 36 then "found" else "none"}")
    | _, _ => fin st (.ok "getlinkh.err")
  | "countlink" | "listlink" =>
    -- C02: what a link container shows through a handle (also one that was held across the operations before a close) is what it
    -- shows after close + reopen, as long as nothing was changed in between
    let key := " ".intercalate (op :: args)
    let rules : List (String × Bool) := match st.linkObs.find? (·.1 == key) with
      | some (_, before) => [("handle_view_of_links_survives_reopen", before == impl)]
      | none => []
    fin { st with linkObs := (key, impl) :: st.linkObs.filter (·.1 != key) } (judge s!"{op}.{if ok then "ok" else "err"}" impl impl rules)
  | "has" | "count" | "list" | "drop" | "idof" | "haslink" | "getlink" | "fld" =>
    fin st (.ok s!"{op}.{if ok then "ok" else "err"}")
  | "adim" | "sdim" | "ddims" | "da_setext" | "da_fill" | "da_fills" | "da_append" | "da_appends" | "pvalues" | "pset" | "mkpv" =>
    fin (note st) (.ok s!"{op}.{(args[1]?).getD ""}.{if ok then "ok" else (impl[1]?).getD "err"}")
  | "dims" | "gdim" | "pget" | "da_read1" => fin st (.ok s!"{op}.{if ok then "ok" else "err"}")
  | "del" =>
    -- which slot's entity went: named by handle / idof directly, by name through what mk recorded
    let victim : Option String := match args with
      | [_, _, "handle", k] => some k
      | [_, _, "idof", k] => some k
      | [kind, par, "name", k] => (st.slotInfo.find? fun e => e.2 == (kind, par, k)).map (·.1)
      | _ => none
    -- C04: a delete by HANDLE is about the entity behind the handle: when that entity is not a child of the parent asked (it lives
    -- under another parent and merely has the name of a child), nothing may be deleted
    let foreign : Bool := match args with
      | [_, par, "handle", k] =>
        (match st.slotInfo.find? (·.1 == k) with
         | some (_, (_, madeIn, _)) =>
           (match slotId st madeIn, slotId st par with
            | some a, some b => a != b && a.length == 36 && b.length == 36
            | _, _ => madeIn == "$F" && par != "$F" || madeIn != "$F" && par == "$F")
         | none => false)
      | _ => false
    let tag := s!"{op}.{(args.head?).getD ""}.{if ok then (impl[1]?).getD "ok" else (impl[1]?).getD "err"}{if foreign then ".foreign" else ""}"
    let st := { (note st) with lastDeleted := if impl == ["ok", "1"] then victim else none }
    fin st (judge tag impl impl (if foreign && ok then [("delete_by_handle_of_another_parents_child_deletes_nothing", impl == ["ok", "0"])] else []))
  | "fm_ent" => fin (note st) (.ok s!"fm_ent.{(args[1]?).getD ""}.{if ok then "ok" else (impl[1]?).getD "err"}")
  | "link" | "unlink" | "single" | "set" | "setlinks" =>
    -- C03 / C08: a link by ENTITY that is accepted links that very entity (not another one of the same name): remembered here, judged
    -- at the next dump
    let linked : Option (String × String × String) := match op, args with
      | "link", [rel, holder, "handle", k] =>
        (match ok, slotId st holder, slotId st k with
         | true, some h, some t => if h.length == 36 && t.length == 36 then some (rel, h, t) else none
         | _, _, _ => none)
      | _, _ => none
    let st := { st with lastLinked := linked }
    fin (note st) (.ok s!"{op}.{(args.head?).getD ""}.{if ok then (impl[1]?).getD "ok" else (impl[1]?).getD "err"}")
  | "xcheck" =>
    match args with
    | [kind, parent] =>
      let key := containerKey kind ((slotId st parent).getD "?")
      -- features are addressed by id only; they have no name
      fin st (judge s!"xcheck.{kind}" impl impl (relXcheck st key impl (kind != "R")))
    | _ => fin st (.malformed "xcheck")
  -- C03: the has-query by HANDLE agrees with the links: true for the entity that is linked, false for another entity — also one
  -- that merely has the same name (an array of another block named like a referenced one)
  | "haslinkh" =>
    (match args with
    | [rel, _, _, _, remark] =>
      fin st (judge s!"haslinkh.{rel}.{remark}" impl impl
        [(if remark == "foreign" then "has_by_handle_is_false_for_an_entity_that_is_not_linked" else "has_by_handle_is_true_for_the_linked_entity",
          impl == ["ok", if remark == "foreign" then "0" else "1"])])
    | _ => fin st (.malformed "haslinkh"))
  | "xfeat" => fin st (judge "xfeat" impl impl (relXfeat impl))
  -- C02: a dimension handle kept across operations shows what a handle fetched now shows (nothing is remembered in a handle)
  | "xdim" =>
    fin st (judge s!"xdim.{(impl[1]?).getD "err"}" impl impl
      (if ok && impl[1]? != some "held" then [("kept_dimension_handle_shows_what_a_fresh_one_shows", impl[1]? == some "same")] else []))
  | "hdump" =>
    match Dump.parse impl, st.lastDump with
    | some held, some tree =>
      if st.sinceDump.isEmpty then fin st (judge s!"hdump.{if held.isEmpty then "empty" else "held"}" impl impl (relHandles tree held))
      else fin st (.ok "hdump.unanchored")
    | _, _ => fin st (.ok "hdump.unanchored")
  | "xlinks" =>
    match args with
    | [rel, holder] =>
      let key := s!"link:{rel}@{(slotId st holder).getD "?"}"
      -- entity sources can be queried by id only (`hasSource(id)`)
      let rules := (relXcheck st key impl (rel != "src")).filter fun r => r.1 != "index_order_is_creation_order"
      -- the sources attached to an entity come from anywhere in the block's source tree: names are unique per PARENT, so two attached
      -- sources may share a name (then a lookup by that name is ambiguous and not judged); references and members are siblings
      let rules := if rel != "src" then rules else
        let ambiguous := rules.any fun r => r.1 == "names_unique_within_parent" && !r.2
        rules.filter fun r => r.1 != "names_unique_within_parent" && !(ambiguous && (r.1.startsWith "name_lookup_returns_the_entity" || r.1.startsWith "has_by_name"))
      fin st (judge s!"xlinks.{rel}" impl impl rules)
    | _ => fin st (.malformed "xlinks")
  | "dump" | "dumpx" =>
    match Dump.parse impl with
    | none =>
      -- C02 / C11: after a session has been closed, another process can open the file and walk it (the generators ask for `dumpx`
      -- only after `fdrop` on a file of their own making)
      let st' := { st with lastDump := none, sinceDump := [] }
      if op == "dumpx" then fin st' (judge "dumpx.err" impl impl [("another_process_can_reopen_the_closed_file", false)])
      else fin st' (.ok "dump.err")
    | some d =>
      let since := st.sinceDump
      let idRules := relIds d ++ relIdStable st.everSeen d
      let histRules : List (String × Bool) :=
        match st.lastDump with
        | none => []
        | some prev =>
          if since.isEmpty then []
          else if since.all (fun e => !e.2) then [("rejected_operation_leaves_no_trace", prev == d)]
          else if since.all (fun e => sessionOps.contains e.1 && e.2) then [("reopen_exposes_the_same_tree", prev == d)]
          else if since.length == 1 && since.all (fun e => e.1.startsWith "link." && e.1.endsWith ".handle" && e.2) then
            (match st.lastLinked with
             | some (rel, hid, tid) =>
               let field := if rel == "ref" then "refs" else if rel == "src" then "srcs" else if rel == "mA" then "das" else if rel == "mD" then "dfs"
                 else if rel == "mT" then "tags" else "mtags"
               [("link_by_entity_links_that_entity", d.any fun r => r.id == hid && (idsIn (r.field field)).contains tid)]
             | none => [])
          else if since.length == 1 && since.all (fun e => e.1 == "del.R" && e.2) then relDeleteFeature prev d
          else if since.length == 1 && since.all (fun e => e.1.startsWith "del." && e.2) then relDelete prev d
          else []
      let tag := if since.isEmpty then "dump.first" else if since.all (fun e => !e.2) then "dump.after_reject:" ++ ",".intercalate (since.map (·.1))
        else if since.all (fun e => sessionOps.contains e.1 && e.2) then "dump.after_reopen"
        else if since.length == 1 && since.all (fun e => e.1.startsWith "del." && e.2) then "dump.after_delete" else "dump.after_ops"
      let gone : List String := match st.lastDump with
        | some prev => if since.length == 1 && since.all (fun e => e.1.startsWith "del." && e.2) then
            let afterIds := d.map (·.id)
            (prev.filter fun r => r.id.length == 36 && !afterIds.contains r.id).map (·.id)
          else []
        | none => []
      fin { st with lastDump := some d, sinceDump := [], goneIds := gone, everSeen := remember st.everSeen d } (judge tag impl impl (idRules ++ histRules))
  | _ => none

/-- compare the model's prediction with what the library answered -/
def predAgrees (p : StoreModel.Pred) (impl : List String) : Bool :=
  match p with
  | .exact t => impl == t
  | .okAny => impl.head? == some "ok"
  | .err c => impl == ["err", c]
  | .skip => true
  | .unsupported _ => true

def predText : StoreModel.Pred → String
  | .exact t => " ".intercalate t
  | .okAny => "ok …"
  | .err c => s!"err {c}"
  | .skip => "(no prediction)"
  | .unsupported w => s!"(unsupported: {w})"

/-- impl-side rules first (a REL verdict outranks everything), then the model: its prediction for the op, and at every dump
    `observe` of the model store against the library's dump -/
def handle (ds : DState) (op : String) (args impl : List String) : Option (DState × Out) :=
  match handleImpl ds op args impl with
  | none => none
  | some (ds1, out) =>
    let ms := ds.smodel
    -- a session the model is not following: only fopen can start a new one
    let (ms1, pred) := StoreModel.step ms op args impl
    -- the guard of `apply_idUniq` / `run_idUniq` (Proofs/IdUniq.lean), checked on every history of the tie — and C12 itself: the id
    -- the library gave a new entity has never been written into this file, not even onto an entity that is deleted by now (the model
    -- store never forgets an object)
    let staleId : Bool := op == "mk" && ms.lost.isNone && (match impl with
      | ["ok", id, _] => (List.range ms.store.objs.length).any fun o => ms.store.attr? o "entity_id" == some id
      | _ => false)
    match out with
    | .ok tag =>
      if staleId then some ({ ds1 with smodel := { ms1 with lost := some "diverged" } }, .rel tag "new_id_was_never_used_in_this_file") else
      if ms1.lost.isSome && op != "fopen" then some ({ ds1 with smodel := ms1 }, .ok tag) else
      match pred with
      | .unsupported why => some ({ ds1 with smodel := { ms1 with lost := some why } }, .ok (tag ++ "+untracked"))
      | _ =>
        if !predAgrees pred impl then
          some ({ ds1 with smodel := { ms1 with lost := some "diverged" } }, .diff tag (predText pred))
        -- the guard of `apply_sys` / `run_sys` (Proofs/SysHistory.lean), checked on every history of the tie: every handle the
        -- model hands out wraps an entity object (index ≥ 3), never the root or its two groups
        else if ms1.lost.isNone && ms1.slots.any (fun (_, h) => match h with | some h => h.obj < 3 | none => false) then
          some ({ ds1 with smodel := { ms1 with lost := some "diverged" } },
            .diff tag "the model handed out the root or one of its two groups as an entity handle (Op.entityArgs)")
        else if (op == "dump" || op == "dumpx") && ms1.lost.isNone then
          match Dump.parse impl with
          | some d =>
            (match St.firstDisagreement (St.observe ms1.store) d with
            | none =>
              -- the store the library has just been compared with satisfies the schema, and the harness's handles have the
              -- roles their kinds say (the run-time side of `apply_wt` / `run_wt`, Proofs/RolesHistory.lean)
              (match St.schemaProblem ms1.store (ms1.slots.filterMap fun (_, h) => h.map fun h => (h.kind, h.obj)) with
              | none => some ({ ds1 with smodel := ms1 }, .ok (tag ++ "+M"))
              | some why => some ({ ds1 with smodel := { ms1 with lost := some "diverged" } }, .diff tag ("schema: " ++ why)))
            | some why => some ({ ds1 with smodel := { ms1 with lost := some "diverged" } }, .diff tag why))
          | none => some ({ ds1 with smodel := ms1 }, .ok tag)
        else some ({ ds1 with smodel := ms1 }, .ok (match pred with | .skip => tag | _ => tag ++ "+M"))
    | o => some ({ ds1 with smodel := { ms1 with lost := ms1.lost <|> some "earlier verdict" } }, o)

end Nix.Drive.Store
