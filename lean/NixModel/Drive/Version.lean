import NixModel.Version
import NixModel.Spec.C10
import NixModel.Drive.Common
namespace Nix.Drive.Version
open Nix Nix.Proto Nix.Drive FormatVersion


def ver3 : List String → Option (FormatVersion × List String)
  | a :: b :: c :: rest => do
    let x ← parseInt a; let y ← parseInt b; let z ← parseInt c
    pure (⟨x, y, z⟩, rest)
  | _ => none

def b01 (b : Bool) : String := if b then "1" else "0"

def fmtVer (v : List Int) : String := fmtList (v.map toString)

def parseMode : String → Option FileMode
  | "ro" => some .readOnly | "rw" => some .readWrite | "ow" => some .overwrite | _ => none

/-- C10.Rel for one observed comparison row: the six operators the implementation returned,
    judged against the lexicographic specification (no reference to the model). -/
def relCmp (a b : FormatVersion) (lt le gt ge eq ne : Bool) : List (String × Bool) :=
  [ ("lt_is_lexicographic", lt == decide (C10.specLt a b)),
    ("gt_is_converse", gt == decide (C10.specLt b a)),
    ("eq_is_componentwise", eq == decide (a = b)),
    ("trichotomy", (lt.toNat + eq.toNat + gt.toNat) == 1),
    ("le_iff_lt_or_eq", le == (lt || eq)),
    ("ge_iff_gt_or_eq", ge == (gt || eq)),
    ("ne_iff_not_eq", ne == !eq) ]

/-- C10.Rel for one observed open attempt on a file whose header is intact but carries version v -/
def relGate (lib v : FormatVersion) (mode : FileMode) (force : Bool) (accepted : Bool) : List (String × Bool) :=
  match mode, force with
  | .readOnly, false => [("gate_read_iff", accepted == C10.specCanRead lib v)]
  | .readWrite, false => [("gate_write_iff", accepted == C10.specCanWrite lib v)]
  | _, true => [("force_bypasses", accepted)]
  | .overwrite, false => [("overwrite_accepts", accepted)]

def handle (op : String) (args impl : List String) : Option Out :=
  match op with
  | "vcmp" => some <|
    match ver3 args with
    | some (a, rest) =>
      match ver3 rest with
      | some (b, []) =>
        let model := [b01 (lt a b), b01 (le a b), b01 (gt a b), b01 (ge a b), b01 (eq a b), b01 (ne a b)]
        match impl.mapM parseBool with
        | some [l, le', g, ge', e, n] => judge "vcmp" model impl (relCmp a b l le' g ge' e n)
        | _ => .malformed "vcmp result"
      | _ => .malformed "vcmp args"
    | none => .malformed "vcmp args"
  | "vcan" => some <|
    match ver3 args with
    | some (l, rest) =>
      match ver3 rest with
      | some (f, []) =>
        match impl.mapM parseBool with
        | some [r, w] =>
          judge "vcan" [b01 (canRead l f), b01 (canWrite l f)] impl
            [("canRead_spec", r == C10.specCanRead l f), ("canWrite_spec", w == C10.specCanWrite l f)]
        | _ => .malformed "vcan result"
      | _ => .malformed "vcan args"
    | none => .malformed "vcan args"
  | "probe_version" => some <|
    let v := [libVersion.x, libVersion.y, libVersion.z]
    cmp "probe_version" ["ok", fmtVer v, fmtVer v, fmtStr Gen.fileFormat] impl
  -- vgate3 … rw 0: a plain read-only session on the file is open meanwhile (where the gate lets one in): the read-write request is
  -- refused — by the gate when the versions are not identical, by HDF5 otherwise; it never comes back as a handle of another mode
  | "vgate3" => some <|
    let accepted := impl.head? == some "ok"
    judge "vgate3" ["err"] (impl.take 1) [("readwrite_request_is_not_answered_with_another_mode", !accepted)]
  | "vgate" | "vgate2" => some <|      -- vgate2: a forced read-write session on the same file is open meanwhile; the gate judges each open on its own
    match args with
    | [vtok, ftok, idtok, mtok, ftok2] =>
      -- the flag word: Force is bit 0, whatever other bits are set
      match parseMode mtok, (parseNat ftok2).map (fun w => w % 2 == 1) with
      | some mode, some force =>
        -- header as prepared by the harness: a library-written header with some fields rewritten
        let version : Option (Option (List Int)) :=
          if vtok == "=" then some (some [libVersion.x, libVersion.y, libVersion.z])
          else if vtok == "~" then some none else (parseListOf parseInt vtok).map some
        let format : Option (Option String) :=
          if ftok == "=" then some (some Gen.fileFormat) else if ftok == "~" then some none else (parseStr ftok).map some
        match version, format with
        | some version, some format =>
          let h : Header := { format := format, version := version, hasId := idtok != "~" }
          let res := openExisting libVersion h mode force
          -- what the opened file reports as its version: Overwrite re-creates the file
          let shown : List Int := match mode, version with
            | .overwrite, _ => [libVersion.x, libVersion.y, libVersion.z]
            | _, some vv => if format == some Gen.fileFormat ∧ vv.length == 3 then vv else [libVersion.x, libVersion.y, libVersion.z]
            | _, none => [libVersion.x, libVersion.y, libVersion.z]
          let nblocks := if mode == .overwrite then "0" else "1"
          let model : List String := match res with
            | .accepted => ["ok", fmtVer shown, nblocks]
            | .invalidFile => ["err", "InvalidFile"]
            | .badVersionVector => ["err", "StdRuntime"]
          let accepted := impl.head? == some "ok"
          -- the property relation applies to intact headers with a 3-component version
          let rules := match version, format, idtok with
            | some [x, y, z], some f, "=" => if f == Gen.fileFormat then relGate libVersion ⟨x, y, z⟩ mode force accepted else []
            | _, _, _ => []
          judge s!"vgate.{mtok}.{ftok2}" model impl rules
        | _, _ => .malformed "vgate header"
      | _, _ => .malformed "vgate mode"
    | _ => .malformed "vgate arity"
  | _ => none

end Nix.Drive.Version
