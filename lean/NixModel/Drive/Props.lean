import NixModel.Property
import NixModel.Spec.C14
import NixModel.Drive.Common
import NixModel.Drive.State
/-
  Driver handler of the `props` family (C14): replays every `pv_*` op on the property model (DIFF) and
  evaluates the history rules of Spec/C14.lean on what the implementation answered (REL).
  Values and doubles are the trace tokens themselves (`V := String`, `D := String`).
-/
namespace Nix.Drive.Props
open Nix Nix.Proto Nix.Drive Nix.PV

def dtypeName : DType → String
  | .nothing => "Nothing" | .bool => "Bool" | .int32 => "Int32" | .uint32 => "UInt32" | .int64 => "Int64"
  | .uint64 => "UInt64" | .double => "Double" | .string => "String" | .char => "Char"
  | .other 0 => "Int8" | .other 1 => "Int16" | .other 2 => "UInt8" | .other 3 => "UInt16" | .other 4 => "Float"
  | .other _ => "Opaque"

def parseDType (t : String) : Option DType :=
  match t with
  | "Nothing" => some .nothing | "Bool" => some .bool | "Int32" => some .int32 | "UInt32" => some .uint32
  | "Int64" => some .int64 | "UInt64" => some .uint64 | "Double" => some .double | "String" => some .string
  | "Char" => some .char | "Int8" => some (.other 0) | "Int16" => some (.other 1) | "UInt8" => some (.other 2)
  | "UInt16" => some (.other 3) | "Float" => some (.other 4) | "Opaque" => some (.other 5)
  | _ => none

/-- fill value tokens -/
def zeroTok : DType → String
  | .double => "d0000000000000000"
  | .string => "x"
  | _ => "0"

/-- `Type:token` -/
def parseVariant (t : String) : Option (Variant String) :=
  match t.splitOn ":" with
  | [ty, v] => (parseDType ty).map fun d => { ty := d, val := v }
  | _ => none
def fmtVariant (v : Variant String) : String := dtypeName v.ty ++ ":" ++ v.val

def parseVariants (t : String) : Option (List (Variant String)) := parseListOf parseVariant t

abbrev Ev := C14.Ev String String

def errOut (e : Option Err) (okToks : List String := []) : List String :=
  match e with
  | none => "ok" :: okToks
  | some e => ["err", e.name]

def implOk (impl : List String) : Bool := impl.head? == some "ok"

def obsTokens (p : PropSt String String) : List String :=
  [dtypeName p.dtype, toString p.valueCount, fmtList (p.values.map fmtVariant),
   fmtOpt fmtStr p.unit, fmtOpt id p.unc, fmtOpt fmtStr p.defn]

def parseObs (toks : List String) : Option (C14.Obs String String) :=
  match toks with
  | [dt, n, vals, unit, unc, defn] => do
    let dt ← parseDType dt
    let n ← parseNat n
    let vs ← parseVariants vals
    let u ← parseOpt parseStr unit
    let c ← parseOpt some unc
    let d ← parseOpt parseStr defn
    pure { dtype := dt, count := n, values := vs, unit := u, unc := c, defn := d }
  | _ => none

/-- names that exist according to the history of accepted calls -/
def aliveNames (h : List Ev) : List String :=
  let all := h.filterMap fun e => match e with | .created n _ _ => some n | _ => none
  (all.eraseDups).filter fun n => (C14.typeOf n h).isSome

def sortStrings (l : List String) : List String := (l.toArray.qsort (· < ·)).toList

/-- the rules judged on a call that offers a value vector to an existing property -/
def assignRules (h : List Ev) (name : String) (vs : List (Variant String)) (impl : List String) : List (String × Bool) :=
  match C14.typeOf name h with
  | none => [("call_on_a_missing_property_is_rejected", !implOk impl)]
  | some dt =>
    if C14.mustAccept dt vs then
      (if C14.writableAfter h && dt.isValueType then [("values_of_the_property_type_are_accepted", implOk impl)] else [])
    else [("value_of_another_type_is_rejected", !implOk impl)]

def handle (st : DState) (op : String) (args impl : List String) : Option (DState × Out) :=
  let pv := st.dp.pv
  let upd (m : SecSt String String) (h : List Ev) : DState := { st with dp := { st.dp with pv := { model := m, hist := h, opened := true } } }
  -- run a model op, record the event when the IMPLEMENTATION accepted the call, compare, judge
  let exec (tag : String) (mop : Op String String) (ev : Option Ev) (rules : List (String × Bool)) (okToks : List String := []) : DState × Out :=
    let r := step zeroTok pv.model mop
    let h := if implOk impl then (match ev with | some e => e :: pv.hist | none => pv.hist) else pv.hist
    let tag' := tag ++ (match r.2 with | none => ".ok" | some e => "." ++ e.name)
    (upd r.1 h, judge tag' (errOut r.2 okToks) impl rules)
  -- a property of an OLD-format file (< 1.1.1: one compound record per value; prepared with the HDF5 C API), read through the public
  -- API: type, count, values and uncertainty are what the records hold — judged on the answer alone, the request carries the values
  if op == "pv_relabel" then
    some (match args with
      | [x, y, z, vals] =>
        let vs := (parseList vals).getD []
        let ty := ((vs.head?.map fun v => (v.splitOn ":").headD "").getD "")
        let expect := ["ok", s!"[{x},{y},{z}]", ty, toString vs.length, vals]
        (st, judge s!"pv_relabel.{x}.{y}.{z}" expect impl [("values_are_read_back_under_every_version_label_of_the_layout", impl == expect)])
      | _ => (st, .malformed "pv_relabel")) else
  if op == "pv_old" then
    some (match args with
      | [ty, vals, unc] =>
        let n := ((parseList vals).getD []).length
        let expect := ["ok", "[1,1,0]", ty, toString n, vals, if n == 0 then "~" else unc]
        (st, judge s!"pv_old.{ty}.{if n == 0 then "empty" else "values"}" expect impl
          [("old_format_values_are_read_back", impl.take 5 == expect.take 5 && (n == 0 || impl[5]? == some unc))])
      | _ => (st, .malformed "pv_old")) else
  if op.startsWith "pv_" && op != "pv_open" && !pv.opened then some (st, .malformed (op ++ " before pv_open")) else
  match op with
  | "pv_open" => some ({ st with dp := { st.dp with pv := { opened := true } } }, cmp "pv_open" ["ok"] impl)
  | "pv_mkd" => some <|
    match args with
    | [name, dt] =>
      match parseStr name, parseDType dt with
      | some name, some dt => exec "pv_mkd" (.createDtype name dt) (some (.created name dt none)) []
      | _, _ => (st, .malformed "pv_mkd")
    | _ => (st, .malformed "pv_mkd")
  | "pv_mkv" => some <|
    match args with
    | [name, vals] =>
      match parseStr name, parseVariants vals with
      | some name, some vs =>
        let t0 := (vs.head?.map (·.ty)).getD .nothing
        let rules := if vs.any (fun v => v.ty != t0) then [("value_of_another_type_is_rejected", !implOk impl)] else
          if !vs.isEmpty && t0.isValueType && C14.writableAfter pv.hist && (checkName name).isNone && (C14.typeOf name pv.hist).isNone
          then [("values_of_one_type_are_accepted", implOk impl)] else []
        exec "pv_mkv" (.createValues name vs) (some (.created name t0 (some vs))) rules
      | _, _ => (st, .malformed "pv_mkv")
    | _ => (st, .malformed "pv_mkv")
  | "pv_mk1" => some <|
    match args with
    | [name, v] =>
      match parseStr name, parseVariant v with
      | some name, some v => exec "pv_mk1" (.createValue name v) (some (.created name v.ty (some [v]))) []
      | _, _ => (st, .malformed "pv_mk1")
    | _ => (st, .malformed "pv_mk1")
  | "pv_set" => some <|
    match args with
    | [name, _, vals] =>
      match parseStr name, parseVariants vals with
      | some name, some vs => exec "pv_set" (.assign name vs) (some (.assigned name vs)) (assignRules pv.hist name vs impl)
      | _, _ => (st, .malformed "pv_set")
    | _ => (st, .malformed "pv_set")
  | "pv_clr" => some <|
    match args with
    | [name, _, _] =>
      match parseStr name with
      | some name => exec "pv_clr" (.clear name) (some (.cleared name)) (assignRules pv.hist name [] impl)
      | none => (st, .malformed "pv_clr")
    | _ => (st, .malformed "pv_clr")
  | "pv_unit" => some <|
    match args with
    | [name, _, u] =>
      match parseStr name, parseOpt parseStr u with
      | some name, some u => exec "pv_unit" (.setUnit name u) (some (.unit name u)) []
      | _, _ => (st, .malformed "pv_unit")
    | _ => (st, .malformed "pv_unit")
  | "pv_unc" => some <|
    match args with
    | [name, _, u] =>
      match parseStr name, parseOpt some u with
      | some name, some u => exec "pv_unc" (.setUnc name u) (some (.unc name u)) []
      | _, _ => (st, .malformed "pv_unc")
    | _ => (st, .malformed "pv_unc")
  | "pv_def" => some <|
    match args with
    | [name, _, u] =>
      match parseStr name, parseOpt parseStr u with
      | some name, some u => exec "pv_def" (.setDef name u) (some (.defn name u)) []
      | _, _ => (st, .malformed "pv_def")
    | _ => (st, .malformed "pv_def")
  | "pv_del" => some <|
    match args with
    | [name] =>
      match parseStr name with
      | some name =>
        let existed := (pv.model.find name).isSome
        let r := step zeroTok pv.model (.delete name)
        let h := if impl == ["ok", "1"] then C14.Ev.deleted name :: pv.hist else pv.hist
        let rules := if (C14.typeOf name pv.hist).isNone then [("a_missing_property_cannot_be_deleted", impl != ["ok", "1"])] else []
        (upd r.1 h, judge (if existed then "pv_del.present" else "pv_del.absent")
          (errOut r.2 [if existed then "1" else "0"]) impl rules)
      | none => (st, .malformed "pv_del")
    | _ => (st, .malformed "pv_del")
  | "pv_reopen" => some <|
    match args with
    | [mode] => exec ("pv_reopen." ++ mode) (.reopen (mode == "rw")) (some (.reopened (mode == "rw"))) []
    | _ => (st, .malformed "pv_reopen")
  | "pv_names" => some <|
    let names := sortStrings (pv.model.props.map (·.1))
    let model := ["ok", toString names.length, fmtList (names.map fmtStr)]
    let alive := sortStrings (aliveNames pv.hist)
    let rules := [("properties_are_those_created_and_not_deleted", impl == ["ok", toString alive.length, fmtList (alive.map fmtStr)])]
    (st, judge "pv_names" model impl rules)
  | "pv_get" => some <|
    match args with
    | [name, _] =>
      match parseStr name with
      | some name =>
        let model := match pv.model.find name with
          | some p => "ok" :: obsTokens p
          | none => ["err", "UninitializedEntity"]
        let rules : List (String × Bool) :=
          match impl with
          | "ok" :: toks =>
            match parseObs toks with
            | some o =>
              if (C14.typeOf name pv.hist).isNone then [("a_rejected_or_deleted_property_does_not_exist", false)] else
              [("values_are_the_last_assigned", C14.relValues name pv.hist o),
               ("type_is_the_creation_type", C14.relType name pv.hist o),
               ("unit_is_the_last_set_without_blanks", C14.relUnit name pv.hist o),
               ("uncertainty_is_the_last_set", C14.relUnc name pv.hist o),
               ("definition_is_the_last_set", C14.relDef name pv.hist o)]
            | none => [("observation_is_well_formed", false)]
          | _ => if (C14.typeOf name pv.hist).isSome then [("an_existing_property_can_be_read", false)] else []
        let tag := match pv.model.find name with
          | some p => "pv_get." ++ dtypeName p.dtype ++ (if p.cells.isEmpty then ".empty" else ".values")
          | none => "pv_get.absent"
        (st, judge tag model impl rules)
      | none => (st, .malformed "pv_get")
    | _ => (st, .malformed "pv_get")
  | _ => none

end Nix.Drive.Props
