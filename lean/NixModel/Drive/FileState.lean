import NixModel.OpenMode
import NixModel.Spec.C09
import NixModel.Session
import NixModel.Spec.C11
/-
  Driver state of the file-level families (modes C09, crash C11, ids C12): one field of `DState`.
-/
namespace Nix.Drive
open Nix

/-- modes family.  The model side is `disk` / `session` (content = the snapshot text "blocks sections records tree", or "?" when
    the trace has not shown it); the rest is what the IMPLEMENTATION answered, kept for the property relations. -/
structure ModesSt where
  -- model
  disk : Modes.Disk String := .missing
  session : Option (Modes.Session String) := none
  -- implementation observations
  planted : Option C09.Planted := none          -- what the last fm_prep planted, until an Overwrite replaces it
  tampered : Bool := false                      -- fm_prep has edited the file since the library last created it
  libraryWritten : Bool := false                -- the file at the path was written and closed by the library and not touched since
  pathBefore : Option C09.PathObs := none       -- the path as last observed while no session was open
  implOpen : Option FileMode := none            -- mode in force of the implementation's open session
  implRequested : Option FileMode := none
  openSnap : Option C09.Snap := none            -- first snapshot of the current session
  lastSnap : Option C09.Snap := none            -- latest snapshot, valid while nothing has been attempted since
  closedSnap : Option C09.Snap := none          -- the snapshot with which the previous writable session ended (nothing attempted after it)
  previousId : Option String := none            -- file id seen before the last Overwrite

/-- crash family (C11).  `model` is the bookkeeping model of the session under test (its store = the tokens of the canonical dump,
    `["?"]` while the trace has not shown it); the rest is what the IMPLEMENTATION answered. -/
structure CrashSt where
  model : Option (Sess.State (List String)) := none
  nextId : Nat := 10
  inWorker : Bool := false
  lastDump : Option (List String) := none                 -- the latest dump of the session, while nothing has been attempted since
  durable : Option (List String × C11.Durable) := none    -- what the property promises to be on disk
  baseline : Option C11.IdCount := none                   -- open HDF5 ids before the file was opened
  closedInProc : Bool := false                            -- cr_close has been called (handles are still alive)

/-- ids family (C12) -/
structure IdsSt where
  seen : List String := []                       -- ids handed out by `id_new`
  forced : Bool := false                         -- File::forceId has been called since the last snapshot
  prev : List (String × String) := []            -- the previous `id_all` snapshot: entity key ↦ id
  ever : List (String × String) := []            -- every id seen in a snapshot ↦ the key it belonged to

structure FileFamSt where
  modes : ModesSt := {}
  crash : CrashSt := {}
  ids : IdsSt := {}

end Nix.Drive
