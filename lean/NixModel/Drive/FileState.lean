import NixModel.OpenMode
import NixModel.Spec.C09
/-
  Driver state of the file-level families (modes C09, crash C11, ids C12): one field of `DState`.
-/
namespace Nix.Drive
open Nix

/-- modes family.  The model side is `disk` / `session` (content = the snapshot text "blocks sections records tree", or "?" when
    the trace has not shown it); the rest is what the IMPLEMENTATION answered, kept for the property relations. -/
structure ModesSt where
  -- model
  disk : Modes.Disk String := .missing
  session : Option (Modes.Session String) := none
  -- implementation observations
  planted : Option C09.Planted := none          -- what the last fm_prep planted, until an Overwrite replaces it
  tampered : Bool := false                      -- fm_prep has edited the file since the library last created it
  libraryWritten : Bool := false                -- the file at the path was written and closed by the library and not touched since
  pathBefore : Option C09.PathObs := none       -- the path as last observed while no session was open
  implOpen : Option FileMode := none            -- mode in force of the implementation's open session
  implRequested : Option FileMode := none
  openSnap : Option C09.Snap := none            -- first snapshot of the current session
  lastSnap : Option C09.Snap := none            -- latest snapshot, valid while nothing has been attempted since
  closedSnap : Option C09.Snap := none          -- the snapshot with which the previous writable session ended (nothing attempted after it)
  previousId : Option String := none            -- file id seen before the last Overwrite

/-- crash family (C11) -/
structure CrashSt where
  inChild : Bool := false
  childDump : Option (List String) := none       -- the dump the child took right before its flush / close
  childDirty : Bool := false                     -- a modifying op was attempted after that dump
  act : String := ""
  staleKinds : List String := []

/-- ids family (C12) -/
structure IdsSt where
  seen : List String := []

structure FileFamSt where
  modes : ModesSt := {}
  crash : CrashSt := {}
  ids : IdsSt := {}

end Nix.Drive
