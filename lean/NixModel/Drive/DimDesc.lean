import NixModel.Units
import NixModel.Drive.Common
import NixModel.Drive.State
import NixModel.Drive.Array
/-
  Driver handler of the dimension-descriptor family (C13): replays `dd_*` ops on the model (lean/NixModel/DimDesc.lean),
  keeps the client's bookkeeping (`C13.Shadow`) from what the IMPLEMENTATION answered, and evaluates `C13.rules` on every
  observation the implementation reports.
-/
namespace Nix.Drive.DimDesc
open Nix Nix.Proto Nix.Drive Nix.DimDesc Nix.C13 Nix.Drive.DimDescSt

/-- `d` + 16 hex digits ↦ the bit pattern (no detour through `Float`, which would canonicalise NaNs) -/
def parseD (tok : String) : Option F64 :=
  match tok.toList with
  | 'd' :: rest => if rest.length == 16 then (parseHexNat rest).map (fun n => ⟨UInt64.ofNat n⟩) else none
  | _ => none
def fmtD (x : F64) : String := "d" ++ fmtHex64 x.bits.toNat

/-- `(a;b;c)` -/
def parseParen (tok : String) : Option (List String) :=
  match tok.toList with
  | '(' :: rest =>
    match rest.reverse with
    | ')' :: inner =>
      let s := String.ofList inner.reverse
      if s.isEmpty then some [] else some (s.splitOn ";")
    | _ => none
  | _ => none
def fmtParen (l : List String) : String := "(" ++ ";".intercalate l ++ ")"

def errOfName (n : String) : Err :=
  match n with
  | "OutOfBounds" => .outOfBounds | "StdRuntime" => .stdRuntime | "UninitializedEntity" => .uninitializedEntity
  | "H5Error" => .h5Error | "MissingAttr" => .missingAttr | _ => .other

/-- a string getter that may throw: hex string or `!Class` -/
def parseExS (tok : String) : Option (Except Err String) :=
  match tok.toList with
  | '!' :: rest => some (.error (errOfName (String.ofList rest)))
  | _ => (parseStr tok).map .ok
def fmtExS : Except Err String → String
  | .ok s => fmtStr s
  | .error e => "!" ++ e.name

/-- one descriptor token of `dd_obs`; `none` = not parseable (a getter threw where it must not) -/
def parseDesc (tok : String) : Option (Option (Nat × Nix.DimDesc.View F64)) :=
  if tok == "~" then some none else
  match tok.splitOn ":" with
  | ["S", i, si, off, u, l] => do
    let i ← parseNat i; let si ← parseD si; let off ← parseOpt parseD off; let u ← parseOpt parseStr u; let l ← parseOpt parseStr l
    pure (some (i, .sampled si off u l))
  | ["R", i, al, t, u, l] => do
    let i ← parseNat i; let al ← parseBool al; let t ← (parseParen t).bind (·.mapM parseD)
    let u ← parseOpt parseStr u; let l ← parseOpt parseStr l
    pure (some (i, .range al t u l))
  | ["T", i, ls, l] => do
    let i ← parseNat i; let ls ← (parseParen ls).bind (·.mapM parseStr); let l ← parseOpt parseStr l
    pure (some (i, .set ls l))
  | ["F", i, n, c, l, u] => do
    let i ← parseNat i; let n ← parseStr n; let c ← parseOpt parseNat c; let l ← parseExS l; let u ← parseExS u
    pure (some (i, .frame n c l u))
  | _ => none

def fmtDesc : Option (Nat × Nix.DimDesc.View F64) → String
  | none => "~"
  | some (i, .sampled si off u l) => s!"S:{i}:{fmtD si}:{fmtOpt fmtD off}:{fmtOpt fmtStr u}:{fmtOpt fmtStr l}"
  | some (i, .range al t u l) => s!"R:{i}:{fmtBool al}:{fmtParen (t.map fmtD)}:{fmtOpt fmtStr u}:{fmtOpt fmtStr l}"
  | some (i, .set ls l) => s!"T:{i}:{fmtParen (ls.map fmtStr)}:{fmtOpt fmtStr l}"
  | some (i, .frame n c l u) => s!"F:{i}:{fmtStr n}:{fmtOpt toString c}:{fmtExS l}:{fmtExS u}"

/-- the answer to `dd_obs` as an observation -/
def parseObs (toks : List String) : Option (Obs F64) :=
  match toks with
  | cnt :: idx :: arr :: descs => do
    let cnt ← parseNat cnt
    let idx ← parseListOf parseNat idx
    let gets ← descs.mapM parseDesc
    match arr.splitOn ":" with
    | ["A", l, u, _, _, d] =>
      let l ← parseOpt parseStr l; let u ← parseOpt parseStr u
      let d ← if d == "-" then some [] else (parseParen d).bind (·.mapM parseD)
      pure { count := cnt, indices := idx, label := l, unit := u, data := d, gets := gets }
    | _ => none
  | _ => none

def fmtObs (o : Obs F64) : List String :=
  [toString o.count, fmtList (o.indices.map toString),
   s!"A:{fmtOpt fmtStr o.label}:{fmtOpt fmtStr o.unit}:_:_:{fmtParen (o.data.map fmtD)}"] ++ o.gets.map fmtDesc

def numericTypes : List String := ["Int8", "Int16", "Int32", "Int64", "UInt8", "UInt16", "UInt32", "UInt64", "Float", "Double"]

/-- a double written into an array of element type `dt` and read back as double (`H5Tconvert` both ways) -/
def convFor (dt : String) (x : F64) : F64 :=
  match dt with
  | "Double" => x
  | "Float" => .of x.f.toFloat32.toFloat
  | _ => match Array.tokToFloat dt (Array.floatToTok dt x.f) with | some f => .of f | none => x

def mkEnv (dt : String) (ncols : Nat) : Env F64 :=
  let units := ["mV", "s", "", "Hz"]
  { conv := convFor dt,
    isSI := fun u => Units.isSIUnit u.toList,
    isCompound := fun u => Units.isCompoundSIUnit u.toList,
    frameName := "f",
    cols := (List.range ncols).map fun i => (s!"c{i}", units[i % 4]?.getD ""),
    foreignCols := [("x", "ms"), ("y", "")] }

/-- the call an op line stands for -/
def parseOp (op : String) (args : List String) : Option (Op F64) :=
  let optS (t : String) : Option String := if t == "~" then some "" else parseStr t
  match op, args with
  | "dd_app", ["set", ls] => (parseListOf parseStr ls).map .appendSet
  | "dd_app", ["range", t, l, u] => do
    let t ← parseListOf parseD t; let l ← optS l; let u ← optS u; pure (.appendRange t l u)
  | "dd_app", ["sampled", si, l, u, o] => do
    let si ← parseD si; let l ← optS l; let u ← optS u
    let o ← if o == "~" then some (F64.of 0.0) else parseD o
    pure (.appendSampled si l u o)
  | "dd_app", ["alias"] => some .appendAlias
  | "dd_app", ["frame", f, c] => do
    let f ← (match f with | "f" => some FrameArg.own | "g" => some .foreign | "-" => some .uninit | _ => none)
    let c ← if c == "~" then some ColArg.whole
            else if c.startsWith "n:" then (parseStr (c.drop 2).toString).map .name
            else (parseNat c).map .idx
    pure (.appendFrame f c)
  | "dd_create", ["set", _] => some (.appendSet [])
  | "dd_create", ["range", _, t] => (parseListOf parseD t).map fun t => .appendRange t "" ""
  | "dd_create", ["sampled", _, si] => (parseD si).map fun si => .appendSampled si "" "" (F64.of 0.0)
  | "dd_create", ["alias"] => some .appendAlias
  | "dd_del", [] => some .deleteDims
  | "dd_set", [i, "label", v] => do let i ← parseNat i; let v ← parseOpt parseStr v; pure (.setLabel i v)
  | "dd_set", [i, "unit", v] => do let i ← parseNat i; let v ← parseOpt parseStr v; pure (.setUnit i v)
  | "dd_set", [i, "interval", v] => do let i ← parseNat i; let v ← parseD v; pure (.setInterval i v)
  | "dd_set", [i, "offset", v] => do let i ← parseNat i; let v ← parseOpt parseD v; pure (.setOffset i v)
  | "dd_set", [i, "ticks", v] => do let i ← parseNat i; let v ← parseListOf parseD v; pure (.setTicks i v)
  | "dd_set", [i, "labels", v] => do let i ← parseNat i; let v ← parseOpt (parseListOf parseStr) v; pure (.setLabels i v)
  | "dd_arr", ["label", v] => (parseOpt parseStr v).map .arrLabel
  | "dd_arr", ["unit", v] => (parseOpt parseStr v).map .arrUnit
  | "dd_arr", ["data", v] => (parseListOf parseD v).map .arrData
  | "dd_arr", ["ext", v] => (parseListOf parseNat v).map .arrExtent
  | "dd_reopen", ["ro"] => some (.reopen true)
  | "dd_reopen", ["rw"] => some (.reopen false)
  | _, _ => none

def opTag (op : String) (args : List String) : String :=
  match op, args with
  | "dd_app", k :: _ => s!"dd_app.{k}"
  | "dd_create", k :: _ => s!"dd_create.{k}"
  | "dd_set", _ :: f :: _ => s!"dd_set.{f}"
  | "dd_arr", f :: _ => s!"dd_arr.{f}"
  | "dd_reopen", m :: _ => s!"dd_reopen.{m}"
  | o, _ => o

def isAppend : Op F64 → Bool
  | .appendSet _ | .appendRange .. | .appendSampled .. | .appendAlias | .appendFrame .. => true
  | _ => false

/-- the kind of the setter's target as the client knows it (for the tag only) -/
def kindTag (s : Shadow F64) (i : Nat) : String :=
  match s.get i with
  | none => "none"
  | some d => match d.body with | .sampled .. => "sampled" | .range _ => "range" | .alias => "alias" | .set _ => "set" | .frame _ => "frame"

/-- `RangeDimension::ticks(start, count)` on descriptor `i` of the model -/
def ticksSlice (a : Arr F64) (i start count : Nat) : Except Err (List F64) :=
  match a.lookup i with
  | none => .error .uninitializedEntity
  | some g =>
    let all? : Option (List F64) := match g.d.body with | .range t => some t | .alias => some a.data | _ => none
    match all? with
    | none => .error .incompatibleDimensions
    | some t => if start > t.length || count > t.length || start + count > t.length then .error .outOfBounds
                else .ok ((t.drop start).take count)

def handle (st : DState) (op : String) (args impl : List String) : Option (DState × Out) :=
  if !op.startsWith "dd_" then none else some <|
  let implOk := impl.head? == some "ok"
  match op with
  | "dd_new" =>
    match args with
    | [dt, shape, nc, _] =>
      match parseListOf parseNat shape, parseNat nc with
      | some sh, some nc =>
        if !implOk then ({ st with dd := none }, cmp "dd_new.refused" (if nc == 0 then ["err", "H5Error"] else ["err", "InvalidRank"]) impl) else
        let numeric := numericTypes.contains dt
        let data : List F64 := if sh.length == 1 && numeric then List.replicate (sh.headD 0) (F64.of 0.0) else []
        let a : Arr F64 := { rank := sh.length, numeric := numeric, label := none, unit := none, data := data, dims := [] }
        ({ st with dd := some { env := mkEnv dt nc, model := a, shadow := toShadow a, dtype := dt } }, cmp s!"dd_new.{dt}.r{sh.length}" ["ok"] impl)
      | _, _ => (st, .malformed "dd_new")
    | _ => (st, .malformed "dd_new")
  | _ =>
  match st.dd with
  | none => (st, .ok "dd.nostate")
  | some s =>
  match op with
  | "dd_obs" =>
    let model0 := observe s.env s.model
    -- the data of an array that is not 1-d numeric is not observed (`-`)
    let model := if s.model.rank == 1 && s.model.numeric then model0 else { model0 with data := [] }
    match impl with
    | "ok" :: toks =>
      match parseObs toks with
      | none => (st, .rel "dd_obs" "every_getter_answers")
      | some o =>
        let n := s.shadow.dims.length
        let kinds := (s.shadow.dims.map fun d => match d.body with | .sampled .. => "S" | .range _ => "R" | .alias => "A" | .set _ => "T" | .frame _ => "F")
        let tag := s!"dd_obs.n{n}.{String.join kinds}{if s.shadow.ro then ".ro" else ""}"
        match firstFail (rules s.env s.shadow o) with
        | some r => (st, .rel tag r)
        | none => (st, if o == model then .ok tag else .diff tag (" ".intercalate (fmtObs model)))
    | _ => (st, .rel "dd_obs" "every_getter_answers")
  | "dd_ticks" =>
    match args.mapM parseNat with
    | some [i, start, count] =>
      let m := ticksSlice s.model i start count
      let mt := match m with | .ok t => ["ok", fmtParen (t.map fmtD)] | .error e => ["err", e.name]
      -- on the implementation: a served request returns the slice of what the client last set (or the array's data)
      let expect : Option (List F64) := (s.shadow.get i).bind fun d => match d.body with | .range t => some t | .alias => some s.shadow.data | _ => none
      let rules : List (String × Bool) := match impl, expect with
        | ["ok", t], some e => [("ticks_slice_is_part_of_what_was_given",
            start + count ≤ e.length && (parseParen t).bind (·.mapM parseD) == some ((e.drop start).take count))]
        | "ok" :: _, none => [("ticks_of_a_descriptor_that_has_none", false)]
        | _, _ => []
      (st, judge s!"dd_ticks.{kindTag s.shadow i}.{if implOk then "ok" else "err"}" mt impl rules)
    | _ => (st, .malformed "dd_ticks")
  | _ =>
  match parseOp op args with
  | none => (st, .malformed op)
  | some o =>
    let tag0 := opTag op args
    let tag1 := match o with
      | .setLabel i _ | .setUnit i _ | .setInterval i _ | .setOffset i _ | .setTicks i _ | .setLabels i _ => s!"{tag0}.{kindTag s.shadow i}"
      | _ => tag0
    let isReopen := match o with | .reopen _ => true | _ => false
    if s.model.ro && !isReopen then
      -- a read-only session: whatever the call answers, nothing may change (judged by the next observation)
      (st, .ok s!"ro.{tag0}")
    else
    let res := step s.env s.model o
    let model' := next s.env s.model o
    let shadow' := s.shadow.next s.env o implOk
    let st' := { st with dd := some { s with model := model', shadow := shadow' } }
    let ill := illegal s.env s.shadow o
    let rules : List (String × Bool) :=
      [("illegal_arguments_are_refused", !(ill && implOk)),
       ("append_reports_next_index", !(implOk && isAppend o) || impl == ["ok", toString (s.shadow.dims.length + 1)])]
    match res with
    | .ok (_, n) =>
      let mt := if isAppend o then ["ok", toString n] else match o with | .deleteDims => ["ok", "1"] | _ => ["ok"]
      (st', judge s!"{tag1}.ok" mt impl rules)
    | .error e => (st', judge s!"{tag1}.{e.name}" ["err", e.name] impl rules)

end Nix.Drive.DimDesc
