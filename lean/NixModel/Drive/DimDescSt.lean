import NixModel.Spec.C13
/-
  Driver-side state of the dimension-descriptor family (C13): doubles as bit patterns, the model state and the
  client's bookkeeping (fed only by what the IMPLEMENTATION answered).
-/
namespace Nix.Drive.DimDescSt
open Nix Nix.DimDesc Nix.C13

/-- a double as its bit pattern: equality is identity of bits (what the trace carries), order and `==` are IEEE -/
structure F64 where
  bits : UInt64
deriving DecidableEq, Repr

def F64.f (x : F64) : Float := Float.ofBits x.bits
def F64.of (f : Float) : F64 := ⟨f.toBits⟩

instance : Scalar F64 where
  lt a b := a.f < b.f
  le a b := a.f ≤ b.f
  add a b := .of (a.f + b.f)
  sub a b := .of (a.f - b.f)
  mul a b := .of (a.f * b.f)
  div a b := .of (a.f / b.f)
  floor a := .of a.f.floor
  ceil a := .of a.f.ceil
  round a := .of a.f.round
  zero := .of 0.0
  ofNat n := .of (Float.ofNat n)
  toNat a := a.f.toUInt64.toNat
  isFinite a := a.f.isFinite
  pow10 k := .of (if k ≥ 0 then Float.ofScientific 1 false k.toNat else Float.ofScientific 1 true (-k).toNat)
  eps := ⟨0x3cb0000000000000⟩
  beq a b := a.f == b.f
  decLt a b := Float.decLt a.f b.f
  decLe a b := Float.decLe a.f b.f

structure DDSt where
  env : Env F64
  model : Arr F64
  shadow : Shadow F64
  dtype : String

end Nix.Drive.DimDescSt
