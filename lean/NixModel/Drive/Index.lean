import NixModel.Index
import NixModel.Spec.C07
import NixModel.Drive.Common
import NixModel.Drive.State
namespace Nix.Drive.Index
open Nix Nix.Proto Nix.Drive Nix.C07

/-- iterations granted to the up-correction loop of the sampled kernel -/
def fuel : Nat := 2 ^ 62

def parsePM : String → Option PositionMatch
  | "EQ" => some .equal | "L" => some .less | "G" => some .greater
  | "GE" => some .greaterOrEqual | "LE" => some .lessOrEqual | _ => none
def parseRM : String → Option RangeMatch
  | "incl" => some .inclusive | "excl" => some .exclusive | _ => none

def fmtIdx : Option Nat → String
  | some i => toString i
  | none => "~"
def parseIdx (t : String) : Option (Option Nat) := parseOpt parseNat t
def fmtPair : Option (Nat × Nat) → String
  | some (i, j) => s!"{i}:{j}"
  | none => "~"
def parsePair (t : String) : Option (Option (Nat × Nat)) :=
  if t == "~" then some none else
  match t.splitOn ":" with
  | [a, b] => do let i ← parseNat a; let j ← parseNat b; pure (some (i, j))
  | _ => none

def kernel (ax : AxisDesc) (p : Float) (m : PositionMatch) : Option Nat :=
  match ax with
  | .sampled si off _ => getSampledIndex fuel p off si m
  | .range ticks _ => getIndex p ticks m
  | .count n => getCountIndex p n m
  | .none => none

def pairKernel (ax : AxisDesc) (s e : Float) (rm : RangeMatch) : Option (Nat × Nat) :=
  match ax with
  | .sampled si off _ => sampledPair fuel off si s e rm
  | .range ticks _ => rangePair ticks s e rm
  | .count n => countPair n s e rm
  | .none => none

def specAxis : AxisDesc → Axis Float
  | .sampled si off _ => sampledAxis si off
  | .range ticks _ => rangeAxis ticks
  | .count n => countAxis n
  | .none => countAxis 0

def kindTag : AxisDesc → String
  | .sampled .. => "sampled" | .range .. => "range" | .count .. => "count" | .none => "none"
def pmTag : PositionMatch → String
  | .equal => "EQ" | .less => "L" | .greater => "G" | .greaterOrEqual => "GE" | .lessOrEqual => "LE"

/-- positions for which the property speaks: finite, and inside the range where `(double)n` is exact -/
def inScope (p : Float) : Bool := p.isFinite && p.abs < 4.0e15

/-- axes for which the property speaks: coordinates x_0 < x_1 < … — a sampled axis whose interval is not finite (x_0 = 0 · inf is not
    a number) or is absorbed by the offset (x_1 = x_0) is none; on those only the model's prediction is compared -/
def axisInScope : AxisDesc → Bool
  | .sampled si off _ => si.isFinite && off.isFinite && off < si + off
  | _ => true

/-- … and positions whose index on a sampled axis stays inside the range where `(double)n` is exact (an interval of 5e-324 puts the
    index of the position 1.0 beyond every index type) -/
def posInScope (ax : AxisDesc) (p : Float) : Bool :=
  inScope p && axisInScope ax &&
  match ax with
  | .sampled si off _ => ((p - off) / si).abs < 4.0e15
  | _ => true

def handle (st : DState) (op : String) (args impl : List String) : Option (DState × Out) :=
  match op with
  | "axis_sampled" => some <|
    match args with
    | [si, off, unit] =>
      match parseF64 si, parseOpt parseF64 off, parseOpt parseStr unit with
      | some si, some off, some unit =>
        ({ st with axis := .sampled si (off.getD 0.0) unit }, cmp "axis_sampled" ["ok"] impl)
      | _, _, _ => (st, .malformed "axis_sampled")
    | _ => (st, .malformed "axis_sampled")
  | "axis_range" => some <|
    match args with
    | [ticks, unit] =>
      match parseListOf parseF64 ticks, parseOpt parseStr unit with
      | some ticks, some unit => ({ st with axis := .range ticks unit }, cmp "axis_range" ["ok"] impl)
      | _, _ => (st, .malformed "axis_range")
    | _ => (st, .malformed "axis_range")
  | "axis_alias" => some <|
    match args with
    | [ticks] =>
      match parseListOf parseF64 ticks with
      | some ticks => ({ st with axis := .range ticks none }, cmp "axis_alias" ["ok"] impl)
      | none => (st, .malformed "axis_alias")
    | _ => (st, .malformed "axis_alias")
  -- the ticks replaced by another route than the handle the conversions go through: from now on the conversions are about the new ticks
  | "axis_reticks" => some <|
    match args with
    | [ticks] =>
      match parseListOf parseF64 ticks, st.axis with
      | some ticks, .range _ unit => ({ st with axis := .range ticks unit }, cmp "axis_reticks" ["ok"] impl)
      | _, _ => (st, .malformed "axis_reticks")
    | _ => (st, .malformed "axis_reticks")
  | "axis_set" | "axis_df" => some <|
    match args.map parseNat with
    | [some n] => ({ st with axis := .count n }, cmp op ["ok"] impl)
    | _ => (st, .malformed op)
  | "idx" => some <| (st,
    match args with
    | [p, m] =>
      match parseF64 p, parsePM m with
      | some p, some m =>
        let r := kernel st.axis p m
        let tag := s!"idx.{kindTag st.axis}.{pmTag m}.{if r.isSome then "some" else "none"}"
        let rules : List (String × Bool) :=
          match impl with
          | ["ok", t] =>
            match parseIdx t with
            | some ri => if posInScope st.axis p then [(s!"index_rule_{pmTag m}", relIndex (specAxis st.axis) m p ri (kernel st.axis p .lessOrEqual))] else []
            | none => [("result_parses", false)]
          | _ => [("conversion_does_not_throw", false)]
        judge tag ["ok", fmtIdx r] impl rules
      | _, _ => .malformed "idx"
    | _ => .malformed "idx")
  | "pair" => some <| (st,
    match args with
    | [s, e, rm] =>
      match parseF64 s, parseF64 e, parseRM rm with
      | some s, some e, some rm =>
        let r := pairKernel st.axis s e rm
        let tag := s!"pair.{kindTag st.axis}.{if rm == .inclusive then "incl" else "excl"}.{if r.isSome then "some" else "none"}"
        let rules : List (String × Bool) :=
          match impl with
          | ["ok", t] =>
            match parsePair t with
            | some ri =>
              if posInScope st.axis s && posInScope st.axis e then
                [("pair_rule", relPair (specAxis st.axis) rm s e ri (kernel st.axis s .greaterOrEqual) (kernel st.axis e rm.endMatch))]
              else []
            | none => [("result_parses", false)]
          | _ => [("conversion_does_not_throw", false)]
        judge tag ["ok", fmtPair r] impl rules
      | _, _, _ => .malformed "pair"
    | _ => .malformed "pair")
  | "pairv" => some <| (st,
    match args with
    | [ss, es, rm] =>
      match parseListOf parseF64 ss, parseListOf parseF64 es, parseRM rm with
      | some ss, some es, some rm =>
        if ss.length != es.length then cmp "pairv.mismatch" ["err", "StdRuntime"] impl else
        let rs := (ss.zip es).map fun (s, e) => pairKernel st.axis s e rm
        -- the vector overload must equal the map of the scalar one: judged through the model, whose
        -- scalar results are themselves judged by `pair`
        cmp s!"pairv.{kindTag st.axis}" ["ok", fmtList (rs.map fmtPair)] impl
      | _, _, _ => .malformed "pairv"
    | _ => .malformed "pairv")
  | "posat" => some <| (st,
    match args.map parseNat with
    | [some i] =>
      match st.axis with
      | .sampled si off _ =>
        -- a coordinate that is not a number (0 · inf): which of the NaN bit patterns the hardware delivers is not the library's choice
        let v := posAt si off i
        let implNaN := match impl with
          | ["ok", t] => (parseF64 t).any (·.isNaN)
          | _ => false
        if v.isNaN && implNaN then .ok "posat.sampled.nan" else cmp "posat.sampled" ["ok", fmtF64 v] impl
      | .range ticks _ =>
        match ticks[i]? with
        | some t => cmp "posat.range" ["ok", fmtF64 t] impl
        | none => cmp "posat.range.oob" ["err", "OutOfBounds"] impl
      | .count _ => cmp "posat.count" ["ok", fmtF64 (Float.ofNat i)] impl
      | .none => .malformed "posat without axis"
    | _ => .malformed "posat")
  -- axis(count, startIndex): the coordinates of the samples startIndex … startIndex+count-1, bit for bit what positionAt gives
  -- (the axis the indices have to be consistent with)
  | "axisv" => some <| (st,
    match args.map parseNat with
    | [some count, some start] =>
      match st.axis with
      | .sampled si off _ => cmp "axisv.sampled" ["ok", fmtList ((List.range count).map fun i => fmtF64 (posAt si off (i + start)))] impl
      | .range ticks _ =>
        if start + count ≤ ticks.length then cmp "axisv.range" ["ok", fmtList (((ticks.drop start).take count).map fmtF64)] impl
        else .ok "axisv.range.past_the_end"
      | .count _ => .ok "axisv.count"
      | .none => .malformed "axisv without axis"
    | _ => .malformed "axisv")
  -- … and each of them converts back to its index (C07: "the coordinate of sample i converts back to i"), judged on the
  -- implementation's answer alone
  | "axisrt" => some <| (st,
    match args.map parseNat with
    | [some count, some start] =>
      let expect := ["ok", fmtList ((List.range count).map fun i => toString (i + start))]
      match st.axis with
      | .sampled .. => judge "axisrt.sampled" expect impl [("axis_coordinate_converts_back", impl == expect)]
      | .range ticks _ =>
        if start + count ≤ ticks.length then judge "axisrt.range" expect impl [("axis_coordinate_converts_back", impl == expect)]
        else .ok "axisrt.range.past_the_end"
      | _ => .malformed "axisrt without axis"
    | _ => .malformed "axisrt")
  | _ => none

end Nix.Drive.Index
