import NixModel.NDArray
import NixModel.Drive.Common
import NixModel.Drive.State
namespace Nix.Drive.Array
open Nix Nix.Proto Nix.Drive

/-- element tokens: integers decimal, bool 0/1, float `f`+8 hex, double `d`+16 hex, strings `x`+hex -/
def zeroTok (dt : String) : String :=
  match dt with
  | "Float" => "f00000000"
  | "Double" => "d0000000000000000"
  | "String" => "x"
  | _ => "0"

def isIntType (dt : String) : Bool :=
  dt ∈ ["Int8", "Int16", "Int32", "Int64", "UInt8", "UInt16", "UInt32", "UInt64", "Bool"]

def parseF32 (tok : String) : Option Float :=
  match tok.toList with
  | 'f' :: rest => if rest.length == 8 then (parseHexNat rest).map (fun n => (Float32.ofBits (UInt32.ofNat n)).toFloat) else none
  | _ => none
def fmtF32 (f : Float) : String :=
  let n := f.toFloat32.toBits.toNat
  String.ofList ('f' :: (List.range 8).reverse.map fun i => hexDigit ((n / 16 ^ i) % 16))

/-- the element as a double (what `H5Tconvert` to NATIVE_DOUBLE yields for exactly representable values) -/
def tokToFloat (dt tok : String) : Option Float :=
  match dt with
  | "Double" => parseF64 tok
  | "Float" => parseF32 tok
  | "String" => none
  | _ => (parseInt tok).map Float.ofInt

def intRange (dt : String) : Int × Int :=
  match dt with
  | "Int8" => (-128, 127) | "Int16" => (-32768, 32767) | "Int32" => (-2147483648, 2147483647)
  | "Int64" => (-9223372036854775808, 9223372036854775807)
  | "UInt8" => (0, 255) | "UInt16" => (0, 65535) | "UInt32" => (0, 4294967295) | "UInt64" => (0, 18446744073709551615)
  | "Bool" => (0, 1)
  | _ => (0, 0)

/-- double → element of type dt (`H5Tconvert`: truncation towards zero, clipped to the range) -/
def floatToTok (dt : String) (f : Float) : String :=
  match dt with
  | "Double" => fmtF64 f
  | "Float" => fmtF32 f
  | _ =>
    let (lo, hi) := intRange dt
    let t : Int := if f.isNaN then 0 else
      if f ≥ 18446744073709551615.0 then hi else if f ≤ -9223372036854775808.0 then lo else
      if f ≥ 0 then Int.ofNat f.toUInt64.toNat else Int.ofNat 0 - Int.ofNat (0.0 - f).toUInt64.toNat
    toString (if t < lo then lo else if t > hi then hi else t)

/-- conversion between element types for values that are exactly representable in both -/
def convTok (src dst tok : String) : Option String :=
  if src == dst then some tok else
  if src == "String" || dst == "String" then none else
  if isIntType src && isIntType dst then
    (parseInt tok).map fun i => let (lo, hi) := intRange dst; toString (if i < lo then lo else if i > hi then hi else i)
  else (tokToFloat src tok).map (floatToTok dst)

/-- `util::applyPolynomial` for one element, in the code's accumulation order -/
def applyPoly (coeffs : List Float) (origin x : Float) : Float :=
  if coeffs.isEmpty then x - origin else
  let xx := x - origin
  (coeffs.foldl (fun (acc : Float × Float) c => (acc.1 + c * acc.2, acc.2 * xx)) (0.0, 1.0)).1

def fmtIdx (l : List Nat) : String := fmtList (l.map toString)
def parseIdx (t : String) : Option Idx := parseListOf parseNat t

def errTok (e : Err) : List String := ["err", e.name]

/-- a raw or calibrated read of the box, as the tokens the harness prints for `reqType` -/
def readTokens (s : ArrSt) (reqType : String) (raw : List String) : Option (List String) :=
  if s.poly.isEmpty && s.origin.isNone then raw.mapM (convTok s.dtype reqType)
  else raw.mapM fun tok => do
    let x ← tokToFloat s.dtype tok
    pure (floatToTok reqType (applyPoly s.poly (s.origin.getD 0.0) x))

/-- the hyperslab an (offset, count) request addresses in an array of the given shape (as `offsetCount2DataSpaces`) -/
def resolveBox (shape cnt off : Idx) : Option (Idx × Idx) :=
  if off.isEmpty && !cnt.isEmpty then (if prod cnt == prod shape then some (zeros shape.length, shape) else none)
  else
    let cnt' := if cnt.isEmpty then List.replicate off.length 1 else cnt
    some (off.take shape.length, cnt'.take shape.length)

def implOk (impl : List String) : Bool := impl.head? == some "ok"

/-- C01.Rel for one read answered by the implementation: every element equals the value the history rule
    designates (last covering write since the index was last outside the extent, else zero), through the
    calibration / type conversion in force -/
def relRead (s : ArrSt) (reqType : String) (cnt off : Idx) (impl : List String) : List (String × Bool) :=
  match impl with
  | ["ok", toks] =>
    match parseList toks, resolveBox s.implShape cnt off with
    | some got, some (o, c) =>
      let expectRaw := (tuples c).map fun t => C01.lastValue (zeroTok s.dtype) s.hist (addIdx o t)
      match readTokens s reqType expectRaw with
      | some exp => [(if s.poly.isEmpty && s.origin.isNone then "read_returns_last_written_value" else "calibrated_read_is_polynomial_of_stored_minus_origin", got == exp)]
      | none => []
    | _, _ => []
  | _ => []

/-- does the request (count, offset), relative to the window, stay inside the window? (`none`: ranks disagree) -/
def viewInside (v : View) (real off : Idx) : Option Bool :=
  let off' := if off.isEmpty then zeros v.count.length else off
  if real.length != v.count.length || off'.length != v.count.length then none else
  some ((List.zip (addIdx real off') v.count).all fun p => p.1 ≤ p.2)

/-- C17.Rel for a read through a view: elements of the array at window origin + offset, per the history rule;
    a request extending past the window raises OutOfBounds -/
def relView (s : ArrSt) (v : View) (reqType : String) (cnt off : Idx) (impl : List String) : List (String × Bool) :=
  let real := if cnt.isEmpty then v.count else cnt
  match viewInside v real off with
  | none => []
  | some false => [("view_request_past_window_raises_OutOfBounds", impl == ["err", "OutOfBounds"])]
  | some true =>
    match impl with
    | ["ok", toks] =>
      let base := addIdx v.offset (if off.isEmpty then zeros v.offset.length else off)
      let expectRaw := (tuples real).map fun t => C01.lastValue (zeroTok s.dtype) s.hist (addIdx base t)
      match parseList toks, expectRaw.mapM (convTok s.dtype reqType) with
      | some got, some exp => [("view_read_is_array_at_origin_plus_offset", got == exp)]
      | _, _ => []
    | _ => [("view_request_inside_window_is_served", false)]

def okOr (r : Except Err (List String)) : List String :=
  match r with
  | .ok l => "ok" :: l
  | .error e => errTok e

def handle (st : DState) (op : String) (args impl : List String) : Option (DState × Out) :=
  let noArr : DState × Out := (st, .malformed (op ++ " without array"))
  match op with
  | "da_new" => some <|
    match args with
    | [dt, shape, _, _] =>
      match parseIdx shape with
      | some sh => ({ st with arr := some { arr := NDArray.empty sh (zeroTok dt), dtype := dt, hist := [.extent sh], implShape := sh } }, cmp "da_new" ["ok"] impl)
      | none => (st, .malformed "da_new")
    | _ => (st, .malformed "da_new")
  | "da_wr" => some <|
    match st.arr, args with
    | some s, [dt, cnt, off, vals] =>
      match parseIdx cnt, parseIdx off, parseList vals with
      | some cnt, some off, some vals =>
        match (if s.dtype == "Bool" && dt != "Bool" then none else vals.mapM (convTok dt s.dtype)) with      -- only booleans convert into a boolean array
        | none => (st, cmp "da_wr.conv" ["err", "H5Error"] impl)
        | some vs =>
          let s := if implOk impl then (match resolveBox s.implShape cnt off with
              | some (o, c) => { s with hist := .write o c vs :: s.hist }
              | none => s) else s
          match s.arr.write cnt off vs with
          | .ok a' => ({ st with arr := some { s with arr := a' } }, cmp "da_wr.ok" ["ok"] impl)
          | .error e => ({ st with arr := some s }, cmp "da_wr.err" (errTok e) impl)
      | _, _, _ => (st, .malformed "da_wr")
    | none, _ => noArr
    | _, _ => (st, .malformed "da_wr")
  -- the whole-array write that also sets the extent (NDArray.setWhole, fix 17a5091): accepted iff the element classes convert —
  -- strings only into string arrays, only booleans into boolean arrays (HDF5 has no conversion path otherwise)
  | "da_whole" => some <|
    match st.arr, args with
    | some s, [dt, shape, vals] =>
      match parseIdx shape, parseList vals with
      | some sh, some vals =>
        let conv := vals.mapM (convTok dt s.dtype)
        let accepts := conv.isSome && !(s.dtype == "Bool" && dt != "Bool")
        let vs := conv.getD []
        let s := if implOk impl then { s with hist := .write (zeros sh.length) sh vs :: .extent sh :: s.hist, implShape := sh } else s
        let (a', r) := s.arr.setWhole sh vs accepts
        let tag := s!"da_whole.{if sh == s.arr.shape then "same" else "resize"}.{if accepts then "accepted" else "refused"}"
        ({ st with arr := some { s with arr := a' } },
          match r with
          | .ok () => cmp (tag ++ ".ok") ["ok"] impl
          | .error e => cmp (tag ++ ".err") (errTok e) impl)
      | _, _ => (st, .malformed "da_whole")
    | none, _ => noArr
    | _, _ => (st, .malformed "da_whole")
  | "da_rd" => some <|
    -- a whole read into a container that had another shape before: the container must come back with the shape of the data
    if impl == ["ok", "[!shape]"] then (st, .rel "da_rd.container" "container_read_has_the_shape_of_the_data") else
    match st.arr, args with
    | some s, [dt, cnt, off, _] =>
      match parseIdx cnt, parseIdx off with
      | some cnt, some off =>
        let rules := relRead s dt cnt off impl
        match s.arr.read cnt off with
        | .error e => (st, judge "da_rd.err" (errTok e) impl rules)
        | .ok raw =>
          match readTokens s dt raw with
          | some toks => (st, judge (if s.poly.isEmpty && s.origin.isNone then "da_rd.raw" else "da_rd.calibrated") ["ok", fmtList toks] impl rules)
          | none => (st, cmp "da_rd.conv" ["err", "H5Error"] impl)
      | _, _ => (st, .malformed "da_rd")
    | none, _ => noArr
    | _, _ => (st, .malformed "da_rd")
  | "da_ext" => some <|
    match st.arr, args with
    | some s, [shape] =>
      match parseIdx shape with
      | some sh =>
        let s := if implOk impl then { s with hist := .extent sh :: s.hist, implShape := sh } else s
        match s.arr.setExtent sh with
        | .ok a' => ({ st with arr := some { s with arr := a' } }, cmp "da_ext.ok" ["ok"] impl)
        | .error e => ({ st with arr := some s }, cmp "da_ext.err" (errTok e) impl)
      | none => (st, .malformed "da_ext")
    | none, _ => noArr
    | _, _ => (st, .malformed "da_ext")
  | "da_shape" => some <|
    match st.arr with
    | some s => (st, judge "da_shape" ["ok", fmtIdx s.arr.shape, s.dtype] impl
        [("extent_is_what_was_last_set", impl == ["ok", fmtIdx s.implShape, s.dtype])])
    | none => noArr
  | "da_app" => some <|
    match st.arr, args with
    | some s, [dt, cnt, axis, vals] =>
      match parseIdx cnt, parseNat axis, parseList vals with
      | some cnt, some axis, some vals =>
        -- NDArray.appendChecked (fix 80dff08): the front-end checks, the enlargement, the write — refused when the element classes do
        -- not convert (only booleans convert into a boolean array), and then the enlargement is taken back
        let conv := if s.dtype == "Bool" && dt != "Bool" then none else vals.mapM (convTok dt s.dtype)
        let vs := conv.getD []
        let s := if implOk impl then
            let off := (List.range s.implShape.length).map fun i => if i == axis then (s.implShape[i]?).getD 0 else 0
            let ext := (List.range s.implShape.length).map fun i => (s.implShape[i]?).getD 0 + (if i == axis then (cnt[i]?).getD 0 else 0)
            { s with hist := .write off cnt vs :: .extent ext :: s.hist, implShape := ext }
          else s
        let (a', r) := s.arr.appendChecked cnt axis vs conv.isSome
        ({ st with arr := some { s with arr := a' } },
          match r with
          | .ok () => cmp "da_app.ok" ["ok"] impl
          | .error e => cmp (if conv.isSome then "da_app.err" else "da_app.conv") (errTok e) impl)
      | _, _, _ => (st, .malformed "da_app")
    | none, _ => noArr
    | _, _ => (st, .malformed "da_app")
  | "da_poly" => some <|
    match st.arr, args with
    | some s, [c] =>
      if c == "~" then ({ st with arr := some { s with poly := [] } }, cmp "da_poly" ["ok"] impl) else
      match parseListOf parseF64 c with
      | some cs => ({ st with arr := some { s with poly := cs } }, cmp "da_poly" ["ok"] impl)
      | none => (st, .malformed "da_poly")
    | none, _ => noArr
    | _, _ => (st, .malformed "da_poly")
  | "da_origin" => some <|
    match st.arr, args with
    | some s, [o] =>
      match parseOpt parseF64 o with
      | some o => ({ st with arr := some { s with origin := o } }, cmp "da_origin" ["ok"] impl)
      | none => (st, .malformed "da_origin")
    | none, _ => noArr
    | _, _ => (st, .malformed "da_origin")
  | "da_reopen" => some <|
    match st.arr with
    | some s => ({ st with arr := some { s with view := none } }, cmp "da_reopen" ["ok"] impl)
    | none => noArr
  | "dv_new" => some <|
    match st.arr, args with
    | some s, [cnt, off] =>
      match parseIdx cnt, parseIdx off with
      | some cnt, some off =>
        match View.create s.arr.shape cnt off with
        | .ok v => ({ st with arr := some { s with view := some v } }, cmp "dv_new.ok" ["ok", fmtIdx v.count] impl)
        | .error e => ({ st with arr := some { s with view := none } }, cmp "dv_new.err" (errTok e) impl)
      | _, _ => (st, .malformed "dv_new")
    | none, _ => noArr
    | _, _ => (st, .malformed "dv_new")
  | "dv_rd" => some <|
    match st.arr, args with
    | some s, [dt, cnt, off, _] =>
      match s.view, parseIdx cnt, parseIdx off with
      | some v, some cnt, some off =>
        let rules := relView s v dt cnt off impl
        match v.read s.arr cnt off with
        | .error e => (st, judge s!"dv_rd.{e.name}" (errTok e) impl rules)
        | .ok raw =>
          match raw.mapM (convTok s.dtype dt) with
          | some toks => (st, judge "dv_rd.ok" ["ok", fmtList toks] impl rules)
          | none => (st, cmp "dv_rd.conv" ["err", "H5Error"] impl)
      | none, _, _ => (st, cmp "dv_rd.noview" ["ok", "no-view"] impl)
      | _, _, _ => (st, .malformed "dv_rd")
    | none, _ => noArr
    | _, _ => (st, .malformed "dv_rd")
  | "dv_wr" => some <|
    match st.arr, args with
    | some s, [dt, cnt, off, vals] =>
      match s.view, parseIdx cnt, parseIdx off, parseList vals with
      | some v, some cnt, some off, some vals =>
        match vals.mapM (convTok dt s.dtype) with
        | none => (st, cmp "dv_wr.conv" ["err", "H5Error"] impl)
        | some vs =>
          -- record what the implementation says it did: a write at window origin + offset
          let real := if cnt.isEmpty then v.count else cnt
          let inside := viewInside v real off
          let s := if implOk impl && inside == some true then
              { s with hist := .write (addIdx v.offset (if off.isEmpty then zeros v.offset.length else off)) real vs :: s.hist } else s
          let rules : List (String × Bool) := match inside with
            | some false => [("view_request_past_window_raises_OutOfBounds", impl == ["err", "OutOfBounds"])]
            | some true => [("view_request_inside_window_is_served", implOk impl)]
            | none => []
          match v.write s.arr cnt off vs with
          | .ok a' => ({ st with arr := some { s with arr := a' } }, judge "dv_wr.ok" ["ok"] impl rules)
          | .error e => ({ st with arr := some s }, judge s!"dv_wr.{e.name}" (errTok e) impl rules)
      | none, _, _, _ => (st, cmp "dv_wr.noview" ["ok", "no-view"] impl)
      | _, _, _, _ => (st, .malformed "dv_wr")
    | none, _ => noArr
    | _, _ => (st, .malformed "dv_wr")
  | _ => none

/-! ### typed transfers of one value / of a vector the library sizes (templates of include/nix/DataSet.hpp over Hydra)

The count the library derives: a single value is ONE element — `data_traits<T>::resize` accepts an empty count or a count of one
element, an empty count then stands for ones (one per dimension of the data set), never for "all of it"; `getData(value, offset)` /
`setData(value, offset)` use one per offset entry (one per dimension when the offset is empty too); a `std::vector` is resized to the
only count entry above 1 (`InvalidRank` when there are two, `std::out_of_range` for an empty count). The transfer itself is the raw
one (`da_rd` / `dv_rd` / `da_wr` / `dv_wr`) with that count. -/

def retag (p : String) : Out → Out
  | .ok t => .ok (p ++ t)
  | .diff t m => .diff (p ++ t) m
  | .rel t r => .rel (p ++ t) r
  | o => o

def handleTyped (st : DState) (op : String) (args impl : List String) : Option (DState × Out) :=
  match op, args with
  | "da_one", [how, dt, arg, offT] | "dv_one", [how, dt, arg, offT] =>
    let viaView := op == "dv_one"
    let raw (o : String) := if viaView then "dv_" ++ o else "da_" ++ o
    match st.arr, parseIdx offT with
    | some s, some off =>
      if viaView && s.view.isNone then some (st, cmp "dv_one.noview" ["ok", "no-view"] impl) else
      let rank := if viaView then (s.view.map (·.count.length)).getD 0 else s.arr.shape.length
      let cnt? : Option Idx := if how == "rd3" || how == "vec" then parseIdx arg else some []
      match cnt? with
      | none => some (st, .malformed "da_one count")
      | some cnt =>
        match typedCount how rank cnt off with
        | .error e => some (st, cmp s!"{op}.{how}.{e.name}" (errTok e) impl)
        | .ok c =>
          let tag := s!"{how}."
          if how == "wr2" then (handle st (raw "wr") [dt, fmtIdx c, offT, fmtList [arg]] impl).map fun r => (r.1, retag tag r.2)
          else if how == "vec" then
            -- the vector comes back with the size the library gave it; what the transfer did not fill is value-initialised
            let n := prod c
            let impl' := match impl with
              | ["ok", toks] =>
                (match parseList toks with
                 | some l => if l.length == vecSize c && (l.drop n).all (· == zeroTok dt) then ["ok", fmtList (l.take n)] else ["ok", "[!size]"]
                 | none => impl)
              | _ => impl
            if impl' == ["ok", "[!size]"] then some (st, .rel s!"{op}.vec" "vector_has_the_size_of_the_count") else
            (handle st (raw "rd") [dt, fmtIdx c, offT, toString n] impl').map fun r => (r.1, retag tag r.2)
          else (handle st (raw "rd") [dt, fmtIdx c, offT, "1"] impl).map fun r => (r.1, retag tag r.2)
    | none, _ => some (st, .malformed (op ++ " without array"))
    | _, none => some (st, .malformed (op ++ " offset"))
  -- getDataDirect / setDataDirect: the transfer without the calibration (polynomial, expansion origin) of the array
  | "da_rdd", _ =>
    let st' := { st with arr := st.arr.map fun s => { s with poly := [], origin := none } }
    (handle st' "da_rd" args impl).map fun r => (st, retag "direct." r.2)
  | "da_wrd", _ => (handle st "da_wr" args impl).map fun r => (r.1, retag "direct." r.2)
  | _, _ => none

end Nix.Drive.Array
