import NixModel.Index
import NixModel.NDArray
import NixModel.Spec.C01
import NixModel.Dump
import NixModel.Drive.StoreModel
import NixModel.Drive.FileState
import NixModel.Spec.C14
import NixModel.Spec.C15
import NixModel.Drive.DimDescSt
namespace Nix.Drive

/-- the axis a trace is currently talking about (index family) -/
inductive AxisDesc
  | none
  | sampled (si off : Float) (unit : Option String)
  | range (ticks : List Float) (unit : Option String)
  | count (n : Nat)          -- set dimension with n labels / data-frame dimension with n rows

/-- the data array a trace is currently talking about (array family); elements are tokens -/
structure ArrSt where
  arr : NDArray String
  dtype : String
  poly : List Float := []
  origin : Option Float := none
  view : Option View := none
  -- what the IMPLEMENTATION did, as far as its own answers say (for judging reads against the history rule)
  hist : List (C01.HOp String) := []
  implShape : Idx := []

/-- what the store family remembers between lines (only what the IMPLEMENTATION answered) -/
structure StoreSt where
  lastDump : Option Dump := none
  sinceDump : List (String × Bool) := []          -- ops since the last dump: (op name, did the implementation accept it?)
  slotIds : List (String × String) := []          -- slot ↦ id, from the answers to mk / get
  order : List (String × List String) := []       -- container key "kind@parentId" ↦ ids in creation order (never shrinks)
  everSeen : List (String × String) := []
  slotInfo : List (String × (String × String × String)) := []   -- slot ↦ (kind, parent slot, name token), from mk
  linkObs : List (String × List String) := []      -- link-container answers obtained through handles since the last mutation (query text ↦ answer)
  goneIds : List String := []                     -- ids that vanished between the dumps around the last delete (victim and everything below it)
  lastLinked : Option (String × String × String) := none   -- the last accepted `link … handle`: (relation, id of the holder, id of the entity handed in)
  lastDeleted : Option String := none             -- the slot whose entity the last mutating op deleted (answer `ok 1`)         -- id ↦ "kind name created" as first observed

/-- props family (C14): the property model and the history of calls the IMPLEMENTATION accepted (most recent first) -/
structure PvSt where
  model : PV.SecSt String String := {}
  hist : List (C14.Ev String String) := []
  opened : Bool := false

/-- frame family (C15): the frame model and the history of calls the IMPLEMENTATION accepted (most recent first) -/
structure FrSt where
  model : DF.FSt String := {}
  hist : List (C15.Ev String) := []
  opened : Bool := false

/-- the state of the `props` (C14) and `frame` (C15) families -/
structure DevPropsSt where
  pv : PvSt := {}
  fr : FrSt := {}

/-- what the search family remembers: the links as the ACCEPTED operations set them (entity id ↦ target id), so that the
    back-reference rules do not have to believe the getters `metadata()` / `link()` / `sources()` of the dump -/
structure SearchSt where
  md : List (String × Option String) := []        -- holder id ↦ section id set as metadata (none = removed)
  seclink : List (String × Option String) := []   -- section id ↦ linked section id
  srcs : List (String × List String) := []        -- holder id ↦ ids of the attached sources
  untracked : List String := []                      -- entities whose links were changed in a way the tracker does not follow

structure DState where
  axis : AxisDesc := .none
  arr : Option ArrSt := none
  store : StoreSt := {}
  smodel : StoreModel.MState := {}             -- the Lean store model replayed alongside (store family)
  fileFam : FileFamSt := {}       -- modes / crash / ids families (C09 C11 C12)
  dp : DevPropsSt := {}
  search : SearchSt := {}
  validDesc : List String := []                    -- valid family (C19): the last `vl_desc` answer, raw tokens
  dd : Option DimDescSt.DDSt := none      -- dimension-descriptor family (C13)

end Nix.Drive
