import NixModel.Index
namespace Nix.Drive

/-- the axis a trace is currently talking about (index family) -/
inductive AxisDesc
  | none
  | sampled (si off : Float) (unit : Option String)
  | range (ticks : List Float) (unit : Option String)
  | count (n : Nat)          -- set dimension with n labels / data-frame dimension with n rows

structure DState where
  axis : AxisDesc := .none

end Nix.Drive
