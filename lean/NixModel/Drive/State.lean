import NixModel.Index
import NixModel.NDArray
import NixModel.Spec.C01
namespace Nix.Drive

/-- the axis a trace is currently talking about (index family) -/
inductive AxisDesc
  | none
  | sampled (si off : Float) (unit : Option String)
  | range (ticks : List Float) (unit : Option String)
  | count (n : Nat)          -- set dimension with n labels / data-frame dimension with n rows

/-- the data array a trace is currently talking about (array family); elements are tokens -/
structure ArrSt where
  arr : NDArray String
  dtype : String
  poly : List Float := []
  origin : Option Float := none
  view : Option View := none
  -- what the IMPLEMENTATION did, as far as its own answers say (for judging reads against the history rule)
  hist : List (C01.HOp String) := []
  implShape : Idx := []

structure DState where
  axis : AxisDesc := .none
  arr : Option ArrSt := none

end Nix.Drive
