import NixModel.Index
import NixModel.NDArray
import NixModel.Spec.C01
import NixModel.Dump
import NixModel.Drive.DimDescSt
namespace Nix.Drive

/-- the axis a trace is currently talking about (index family) -/
inductive AxisDesc
  | none
  | sampled (si off : Float) (unit : Option String)
  | range (ticks : List Float) (unit : Option String)
  | count (n : Nat)          -- set dimension with n labels / data-frame dimension with n rows

/-- the data array a trace is currently talking about (array family); elements are tokens -/
structure ArrSt where
  arr : NDArray String
  dtype : String
  poly : List Float := []
  origin : Option Float := none
  view : Option View := none
  -- what the IMPLEMENTATION did, as far as its own answers say (for judging reads against the history rule)
  hist : List (C01.HOp String) := []
  implShape : Idx := []

/-- what the store family remembers between lines (only what the IMPLEMENTATION answered) -/
structure StoreSt where
  lastDump : Option Dump := none
  sinceDump : List (String × Bool) := []          -- ops since the last dump: (op name, did the implementation accept it?)
  slotIds : List (String × String) := []          -- slot ↦ id, from the answers to mk / get
  order : List (String × List String) := []       -- container key "kind@parentId" ↦ ids in creation order (never shrinks)
  everSeen : List (String × String) := []         -- id ↦ "kind name created" as first observed

structure DState where
  axis : AxisDesc := .none
  arr : Option ArrSt := none
  store : StoreSt := {}
  dd : Option DimDescSt.DDSt := none      -- dimension-descriptor family (C13)

end Nix.Drive
