import NixModel.Validate
import NixModel.Spec.C19
import NixModel.Drive.Common
import NixModel.Drive.State
/-
  Valid family (C19): `vl_desc` gives the file description (what the getters answer), `vl_validate` what the
  implementation's validator reports.  The handler runs the validator model on the description, compares the two
  message multisets (DIFF) and evaluates `C19.Rel` on the implementation's own answer (REL).
-/
namespace Nix.Drive.Valid
open Nix Nix.Proto Nix.Drive Nix.Validate

-- ---- token parsers ----------------------------------------------------------------------------------------------
def gotOf {β : Type} (f : String → Option β) (tok : String) : Option (Got β) :=
  if tok == "!" then some .threw else (f tok).map .val
def pBool (tok : String) : Option Bool := parseBool tok
def pOptStr (tok : String) : Option (Option String) := parseOpt parseStr tok

def modifyLast {β : Type} (l : List β) (f : β → β) : List β :=
  match l.reverse with
  | [] => []
  | x :: xs => (f x :: xs).reverse

def splitRecs (toks : List String) : List (List String) :=
  (toks.foldr (fun t acc => if t == "|" then [] :: acc else match acc with | [] => [[t]] | h :: r => (t :: h) :: r) [[]]).filter (· ≠ [])

def pNamed : List String → Option Named
  | [id, name, type, created] => do
    let i ← parseStr id; let n ← parseStr name; let t ← gotOf parseStr type; let c ← gotOf parseInt created
    pure { id := i, name := n, type := t, created := c }
  | _ => none

structure PState where
  desc : FileDesc Float := { blocks := [], sections := [] }
  lastTagMulti : Bool := false
  secTree : List String := []                       -- every section id by index enumeration
  srcTree : List (List String) := []                -- per block: every source id by index enumeration

def addArray (st : PState) (a : ArrayDesc Float) : PState :=
  { st with desc := { st.desc with blocks := modifyLast st.desc.blocks fun b => { b with arrays := b.arrays ++ [a] } } }
def addDim (st : PState) (d : DimDesc Float) : PState :=
  { st with desc := { st.desc with blocks := modifyLast st.desc.blocks fun b =>
      { b with arrays := modifyLast b.arrays fun a => { a with dims := a.dims ++ [d] } } } }
def addTag (st : PState) (t : TagDesc) : PState :=
  { st with lastTagMulti := t.isMulti, desc := { st.desc with blocks := modifyLast st.desc.blocks fun b =>
      if t.isMulti then { b with mtags := b.mtags ++ [t] } else { b with tags := b.tags ++ [t] } } }
def addFeature (st : PState) (f : FeatureDesc) : PState :=
  let upd (l : List TagDesc) := modifyLast l fun t => { t with features := t.features ++ [f] }
  { st with desc := { st.desc with blocks := modifyLast st.desc.blocks fun b =>
      if st.lastTagMulti then { b with mtags := upd b.mtags } else { b with tags := upd b.tags } } }

/-- `refs` are the ids of the referenced arrays; their dimension units are derived by the model (`resolveRefs`) from the
    arrays of the block described so far (arrays precede tags in the description) -/
def pTag (st : PState) (multi : Bool) (rest : List String) : Option TagDesc :=
  match rest with
  | [id, name, type, created, pos, units, refs] => do
    let ent ← pNamed [id, name, type, created]
    let p ← gotOf pBool pos
    let us ← parseListOf parseStr units
    let ids ← gotOf (parseListOf parseStr) refs
    let arrays := match st.desc.blocks.getLast? with | some b => b.arrays | none => []
    -- a reference is described by id and name together (`id ++ "\x1f" ++ name`): ids alone are ambiguous once raw edits have
    -- blanked the ids of two arrays of a block
    let rs : Got (List (List String)) := match ids with
      | .threw => .threw
      | .val l => .val (l.map fun key =>
          match arrays.find? (fun a => a.ent.id ++ "\x1f" ++ a.ent.name == key) with
          | some a => getDimensionsUnits a
          | none => [])
    pure { ent := ent, isMulti := multi, posSet := p, units := us, refs := rs, features := [] }
  | _ => none

def pDim (rest : List String) : Option (DimDesc Float) :=
  match rest with
  | ["R", idx, ticks, unit] => do
    let i ← parseNat idx; let t ← parseListOf parseF64 ticks; let un ← gotOf pOptStr unit
    pure { index := i, kind := .range t un }
  | ["S", idx, si, off, unit] => do
    let i ← parseNat idx; let s ← gotOf parseF64 si; let o ← gotOf pBool off; let un ← gotOf pOptStr unit
    pure { index := i, kind := .sampled s o un }
  | ["T", idx, n] => do
    let i ← parseNat idx; let k ← parseNat n
    pure { index := i, kind := .set k }
  | ["F", idx, n, cu] => do
    let i ← parseNat idx; let k ← parseNat n; let u ← pOptStr cu
    pure { index := i, kind := .frame k u }
  | _ => none

/-- one record; `none` = a getter the model takes as a plain value threw (or the record is malformed) -/
def pRec (st : PState) (r : List String) : Option PState :=
  match r with
  | ["H", ids] => do let l ← parseListOf parseStr ids; pure { st with secTree := l }
  | ["B", id, name, type, created, srcs] => do
    let ent ← pNamed [id, name, type, created]
    let l ← parseListOf parseStr srcs
    pure { st with srcTree := st.srcTree ++ [l],
                   desc := { st.desc with blocks := st.desc.blocks ++ [{ ent := ent, arrays := [], mtags := [], tags := [], sources := [] }] } }
  | ["A", id, name, type, created, dt, dc, shape, unit, poly, origin] => do
    let ent ← pNamed [id, name, type, created]
    let d ← gotOf pBool dt; let c ← gotOf parseNat dc; let sh ← parseListOf parseNat shape
    let u ← gotOf pOptStr unit; let p ← gotOf parseNat poly; let o ← gotOf pBool origin
    pure (addArray st { ent := ent, dtypeSet := d, dimCount := c, shape := sh, dims := [], unit := u, polyN := p, originSet := o })
  | "X" :: rest => do let d ← pDim rest; pure (addDim st d)
  | "M" :: rest => do let t ← pTag st true rest; pure (addTag st t)
  | "T" :: rest => do let t ← pTag st false rest; pure (addTag st t)
  | ["R", id, created, data, lt] => do
    let i ← parseStr id; let c ← gotOf parseInt created; let d ← gotOf pBool data; let l ← gotOf parseInt lt
    pure (addFeature st { id := i, created := c, dataSet := d, linkType := l })
  | "O" :: rest => do
    let ent ← pNamed rest
    pure { st with desc := { st.desc with blocks := modifyLast st.desc.blocks fun b => { b with sources := b.sources ++ [ent] } } }
  | "S" :: rest => do
    let ent ← pNamed rest
    pure { st with desc := { st.desc with sections := st.desc.sections ++ [{ ent := ent, props := [] }] } }
  | ["P", id, name, created, vc, unit] => do
    let i ← parseStr id; let n ← parseStr name; let c ← gotOf parseInt created; let v ← gotOf parseNat vc; let u ← gotOf pOptStr unit
    pure { st with desc := { st.desc with sections := modifyLast st.desc.sections fun s =>
      { s with props := s.props ++ [{ id := i, name := n, created := c, valueCount := v, unit := u }] } } }
  | _ => none

def parseDesc (impl : List String) : Option PState :=
  match impl with
  | "ok" :: _ :: rest => (splitRecs rest).foldlM pRec {}
  | _ => none

-- ---- messages ---------------------------------------------------------------------------------------------------
/-- (severity, id, class code) -/
abbrev M3 := String × String × String

def modelMsgs (r : Result) : List M3 :=
  r.errors.map (fun m => ("E", m.id, m.cls.code)) ++ r.warnings.map (fun m => ("W", m.id, m.cls.code))

def parseMsgs (impl : List String) : Option (List M3) :=
  match impl with
  | "ok" :: _ :: _ :: rest =>
    (splitRecs rest).mapM fun r =>
      match r with
      | [sev, id, cls] => (parseStr id).map fun i => (sev, i, cls)
      | _ => none
  | _ => none

/-- the implementation's messages as a `Result` (the relation only looks at ids and severities) -/
def implResult (ms : List M3) : Result :=
  { errors := (ms.filter (·.1 == "E")).map fun m => ⟨m.2.1, .id⟩,
    warnings := (ms.filter (·.1 == "W")).map fun m => ⟨m.2.1, .id⟩ }

/-- multiset equality; an implementation message whose text the harness does not know (class `?`) matches any
    model message of the same severity and id -/
def sameMsgs (model impl : List M3) : Bool :=
  let known := impl.filter (·.2.2 != "?")
  let wild := impl.filter (·.2.2 == "?")
  let step (acc : Option (List M3)) (pred : M3 → Bool) : Option (List M3) :=
    match acc with
    | none => none
    | some l => match l.findIdx? pred with
      | some i => some (l.eraseIdx i)
      | none => none
  let afterKnown := known.foldl (fun acc m => step acc (· == m)) (some model)
  let afterWild := wild.foldl (fun acc m => step acc (fun x => x.1 == m.1 && x.2.1 == m.2.1)) afterKnown
  afterWild == some []

def fmtMsgs (l : List M3) : String :=
  " ".intercalate (l.map fun m => s!"{m.1}:{if m.2.1.length == 36 then (m.2.1.take 8).toString else m.2.1}:{m.2.2}")

def sameSet (a b : List String) : Bool := a.all b.contains && b.all a.contains && a.length == b.length

/-- the walk reaches every source and every section of the tree (the description lists what `findSources` /
    `findSections` returned next to an enumeration by index) -/
def walkComplete (st : PState) : Bool :=
  sameSet (st.desc.sections.map (·.ent.id)) st.secTree &&
  st.desc.blocks.length == st.srcTree.length &&
  (st.desc.blocks.zip st.srcTree).all fun (b, ids) => sameSet (b.sources.map (·.id)) ids

def arrays (d : FileDesc Float) : List (ArrayDesc Float) := d.blocks.flatMap (·.arrays)

/-- documentation-level rule (docs/validation.rst names the absence of a DataArray unit as a soft-rule violation) -/
def missingUnitWarned (d : FileDesc Float) (r : Result) : Bool :=
  (arrays d).all fun a => match a.unit with
    | .val none => r.warnings.any (·.id == a.ent.id)
    | _ => true

def handle (ds : DState) (op : String) (args impl : List String) : Option (DState × Out) :=
  let ok := impl.head? == some "ok"
  match op with
  | "vl_desc" =>
    match parseDesc impl with
    | some _ => some ({ ds with validDesc := impl }, .ok "vl_desc.ok")
    | none => some ({ ds with validDesc := [] }, .ok (if ok then "vl_desc.unmodelled" else "vl_desc.err"))
  | "vl_set" => some (ds, .ok s!"vl_set.{(args[1]?).getD ""}.{if ok then "ok" else (impl[1]?).getD "err"}")
  | "vl_raw" => some ({ ds with validDesc := [] }, if ok then .ok s!"vl_raw.{(args[0]?).getD ""}" else .malformed s!"vl_raw failed: {" ".intercalate impl}")
  | "vl_validate" | "vl_validate_doc" =>
    match parseDesc ds.validDesc with
    | none =>
      -- no description (a getter the model needs as a value threw, or no vl_desc before): nothing to compare
      some (ds, .ok s!"{op}.no_description.{if ok then "ok" else (impl[1]?).getD "err"}")
    | some st =>
      let d := st.desc
      let model := validateFile d
      match parseMsgs impl with
      | none =>
        -- the model always produces a result for a description without thrown plain getters
        some (ds, .rel s!"{op}.threw" "validate_does_not_throw")
      | some ms =>
        let r := implResult ms
        if op == "vl_validate_doc" then
          some (ds, judge "vl_validate_doc" [] [] [("missing_array_unit_is_warned", missingUnitWarned d r)])
        else
        let ents := C19.entities d
        let nb := ents.countP fun e => !e.breaches.isEmpty
        let ns := ents.countP fun e => !e.soft.isEmpty
        let kinds := (ents.flatMap (·.breaches)).eraseDups
        let tag := if nb == 0 && ns == 0 then "vl_validate.conforming"
          else if nb == 0 then "vl_validate.soft_only"
          else s!"vl_validate.breaches{if nb > 4 then "5+" else toString nb}{if ns > 0 then ".soft" else ""}{if kinds.any (·.listed) then ".listed" else ""}"
        let rules := [("getters_are_consistent", C19.WF d), ("walk_reaches_every_source_and_section", walkComplete st)] ++ C19.rules d r
        let same := sameMsgs (modelMsgs model) ms
        match firstFail rules with
        | some rl => some (ds, .rel tag rl)
        | none => some (ds, if same then .ok tag else .diff tag (fmtMsgs (modelMsgs model) ++ " impl= " ++ fmtMsgs ms))
  | _ => none

end Nix.Drive.Valid
