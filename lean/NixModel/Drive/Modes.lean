import NixModel.OpenMode
import NixModel.Spec.C09
import NixModel.Drive.Common
import NixModel.Drive.State
/-
  modes family (C09): replays `fm_prep` / `fm_open` / `fm_close` on the model of `File::open` (OpenMode.lean) and compares
  (DIFF); evaluates the relations of Spec/C09.lean on what the implementation answered (REL).
-/
namespace Nix.Drive.Modes
open Nix Nix.Proto Nix.Drive Nix.Modes Nix.C09

def emptyContent : String := "0 0 0 14650fb0739d0383"

def parsePath : List String → Option (PathObs × List String)
  | "~" :: rest => some (.nothing, rest)
  | "dir" :: rest => some (.dir, rest)
  | sz :: h :: rest => (parseNat sz).map fun n => (.bytes n h, rest)
  | _ => none

def parseSnap : List String → Option Snap
  | [id, created, updated, fmt, ver, nb, ns, nrec, tree] => do
    let f ← parseStr fmt
    let v ← parseListOf parseInt ver
    let b ← parseNat nb; let s ← parseNat ns; let r ← parseNat nrec
    pure { fileId := id, created := created, updated := updated, format := f, version := v, blocks := b, sections := s, records := r, tree := tree }
  | _ => none

def Snap.content (s : Snap) : String := s!"{s.blocks} {s.sections} {s.records} {s.tree}"

def parseMode : String → Option FileMode
  | "ro" => some .readOnly | "rw" => some .readWrite | "ow" => some .overwrite | _ => none
def modeTok : FileMode → String
  | .readOnly => "ro" | .readWrite => "rw" | .overwrite => "ow"

def pathKind : PathObs → String
  | .nothing => "nothing" | .dir => "dir" | .bytes _ _ => "file"
def diskKind : Disk String → String
  | .missing => "nothing" | .dir => "dir" | _ => "file"

def countsOf (content : String) : Option (String × String) :=
  match content.splitOn " " with
  | [nb, ns, _, _] => some (nb, ns)
  | _ => none

/-- the header attribute a `fm_prep hdr` token plants -/
def plantAttr {α : Type} (tok : String) (old : Attr α) (parse : String → Option α) (cls : Err) : Option (Attr α) :=
  if tok == "=" then some old else if tok == "~" then some .missing
  else if tok.startsWith "#" then some (.unreadable cls) else (parse tok).map .value

def plantedOf (vtok ftok itok : String) (vlen : Option Nat) (idRequired : Bool) : Option Planted :=
  if ftok == "~" then some .formatMissing else if ftok.startsWith "#" then some .formatUnreadable
  else if ftok != "=" && ftok != fmtStr Gen.fileFormat then some .formatWrong
  else if vtok == "~" then some .versionMissing else if vtok.startsWith "#" || vtok == "[]" then some .versionUnreadable
  else if vlen.isSome && vlen != some 3 then some .versionWrongLength
  else if !idRequired then none
  else if itok == "~" then some .idMissing else if itok.startsWith "#" then some .idUnreadable
  else none

def isErr (impl : List String) : Bool := impl.head? == some "err"

/-- which exception classes the model allows for a refused File-level call on a read-only file -/
def roClasses (inner : List String) : Option (List String) :=
  match inner with
  | "mk" :: _ :: kind :: "$F" :: name :: type :: _ =>
    if kind == "B" || kind == "S" then
      match parseStr name, parseStr type with
      | some n, some t =>
        match nameCheck n with
        | some e => some [e.name]
        | none => if t.isEmpty then some [Err.emptyString.name] else some [Err.duplicateName.name, Err.h5Error.name]
      | _, _ => none
    else none
  | "fm_file" :: w :: _ => if w == "forceid" || w == "forceupdated" || w == "forcecreated" then some [Err.h5Error.name] else none
  | _ => none

def handle (ds : DState) (op : String) (args impl : List String) : Option (DState × Out) :=
  let st := ds.fileFam.modes
  let fin (st : ModesSt) (o : Out) : Option (DState × Out) := some ({ ds with fileFam := { ds.fileFam with modes := st } }, o)
  match op with
  | "fm_stat" =>
    match impl with
    | "ok" :: rest =>
      match parsePath rest with
      | some (obs, []) =>
        let rules := match st.pathBefore with
          | some p => [("readonly_open_changes_no_byte", relRoBytes p obs)]
          | none => []
        fin { st with pathBefore := some obs } (judge s!"stat.{pathKind obs}" ["ok", diskKind st.disk] ["ok", pathKind obs] rules)
      | _ => fin st (.malformed "fm_stat answer")
    | _ => fin st (.malformed "fm_stat answer")
  | "fm_prep" =>
    if impl != ["ok"] then fin st (.malformed "fm_prep failed in the harness") else
    let clear (st : ModesSt) : ModesSt := { st with session := none, implOpen := none, implRequested := none, libraryWritten := false, tampered := true, pathBefore := none, openSnap := none, lastSnap := none, closedSnap := none }
    match args with
    | ["missing"] => fin { clear st with disk := .missing, planted := none } (.ok "prep.missing")
    | ["empty"] => fin { clear st with disk := .empty, planted := some .emptyFile } (.ok "prep.empty")
    | ["junk", _] => fin { clear st with disk := .junk, planted := some .notHdf5 } (.ok "prep.junk")
    | ["dir"] => fin { clear st with disk := .dir, planted := some .directory } (.ok "prep.dir")
    | ["symlink"] =>
      -- the same file behind a symbolic link: what is at the path (followed) is what was there; every later open must treat it alike
      fin { st with session := none, implOpen := none, implRequested := none, pathBefore := none } (.ok "prep.symlink")
    | ["plainh5"] => fin { clear st with disk := .h5 emptyRoot emptyContent, planted := some .plainHdf5 } (.ok "prep.plainh5")
    | ["trunc", _] => fin { clear st with disk := .junk, planted := some .truncated } (.ok "prep.trunc")
    | ["hdr", vtok, ftok, itok] =>
      match st.disk with
      | .h5 r c =>
        -- "[]" is written as an attribute with a null dataspace: Hydra cannot size the vector for it (StdOutOfRange), like "#"
        let v := if vtok == "[]" then some (.unreadable .stdOutOfRange) else plantAttr vtok r.version (parseListOf parseInt) .stdOutOfRange
        let f := plantAttr ftok r.format parseStr .h5Error
        let i := plantAttr itok r.id parseStr .h5Error
        match v, f, i with
        | some v, some f, some i =>
          let vlen := match v with | .value vv => some vv.length | _ => none
          -- an id is part of the header from the id-gate version on (anchor: "id (>= 1.2.0)")
          let idRequired := match v with
            | .value [x, y, z] => FormatVersion.ge ⟨x, y, z⟩ idGateVersion
            | _ => true
          let pl := match plantedOf vtok ftok itok vlen idRequired with
            | some p => some p
            | none => st.planted
          fin { clear st with disk := .h5 { r with version := v, format := f, id := i } c, planted := pl } (.ok s!"prep.hdr")
        | _, _, _ => fin st (.malformed "fm_prep hdr tokens")
      | _ => fin st (.malformed "fm_prep hdr without a file")
    | ["settime", a, t] =>
      -- a benign edit: the file stays what the library wrote, with an old time stamp that a later open must not refresh
      let upd (s : Snap) : Snap := if a == "created_at" then { s with created := t } else if a == "updated_at" then { s with updated := t } else s
      fin { st with closedSnap := st.closedSnap.map upd, pathBefore := none } (.ok "prep.settime")
    | ["rmgroup", g] =>
      match st.disk with
      | .h5 r _ =>
        let r' := if g == "data" then { r with hasData := false } else { r with hasMetadata := false }
        fin { clear st with disk := .h5 r' "?" } (.ok "prep.rmgroup")
      | _ => fin st (.malformed "fm_prep rmgroup without a file")
    | ["rmattr", a] =>
      match st.disk with
      | .h5 r c =>
        let r' := if a == "created_at" then { r with createdAt := none } else if a == "updated_at" then { r with updatedAt := none } else r
        fin { clear st with disk := .h5 r' c } (.ok "prep.rmattr")
      | _ => fin st (.malformed "fm_prep rmattr without a file")
    | _ => fin st (.malformed "fm_prep")
  | "fm_open" =>
    match args with
    | [mtok, _, ftok] =>
      match parseMode mtok, parseBool ftok with
      | some mode, some force =>
        -- what the implementation answered
        let obs : Option OpenObs := match impl with
          | ["ok", id, m, nb, ns] => do
            let m ← parseMode m; let b ← parseNat nb; let n ← parseNat ns
            pure (.opened id m b n)
          | ["err", cls] => some (.refused cls)
          | _ => none
        match obs with
        | none => fin st (.malformed "fm_open answer")
        | some obs =>
          let implId := match obs with | .opened id _ _ _ => id | _ => ""
          -- the model
          let out := openFile emptyContent libVersion { now := 0, freshId := implId } st.disk mode force
          let modelToks : List String := match out.result with
            | .error e => ["err", e.name]
            | .ok s => match countsOf s.content with
              | some (nb, ns) => ["ok", modeTok s.mode, nb, ns]
              | none => ["ok", modeTok s.mode]
          let implToks : List String := match obs, out.result with
            | .refused cls, _ => ["err", cls]
            | .opened _ m b n, .ok s => if (countsOf s.content).isSome then ["ok", modeTok m, toString b, toString n] else ["ok", modeTok m]
            | .opened _ m b n, _ => ["ok", modeTok m, toString b, toString n]
          -- the property, on the implementation's answer
          let wasNothing := st.pathBefore == some .nothing
          let present := st.pathBefore.isSome && !wasNothing
          let rules : List (String × Bool) :=
            (if mode == .readOnly && wasNothing then [("readonly_on_missing_path_is_refused", obs.isRefused)] else []) ++
            (match st.planted with
             | some _ => if !force && mode != .overwrite then [("file_with_header_defect_is_refused", relDefectRefused obs)] else []
             | none => []) ++
            (if mode == .overwrite && st.planted != some .directory then
               [("overwrite_yields_empty_valid_file", relEmptyValid libVersion obs none st.previousId)] else []) ++
            (if mode == .readWrite && wasNothing then
               [("readwrite_creates_absent_file", relEmptyValid libVersion obs none none)] else []) ++
            (if st.libraryWritten && st.planted.isNone && mode != .overwrite then
               [("valid_file_is_opened", !obs.isRefused)] else []) ++
            (if st.pathBefore.isSome && st.planted != some .directory then [("mode_in_force", relModeInForce mode present obs)] else []) ++
            (match st.closedSnap, obs with
             | some s, .opened id _ b n =>
               if mode != .overwrite && st.planted.isNone then [("reopen_shows_prior_content", id == s.fileId && b == s.blocks && n == s.sections)] else []
             | _, _ => [])
          let opened := !obs.isRefused
          let inForce : Option FileMode := match obs with | .opened _ m _ _ => some m | _ => none
          let st' : ModesSt := { st with
            disk := out.disk,
            session := out.result.toOption,
            implOpen := inForce, implRequested := if opened then some mode else none,
            openSnap := none, lastSnap := none,
            -- a ReadOnly attempt leaves the path observation valid; any other attempt may legitimately change the bytes
            pathBefore := if mode == .readOnly then st.pathBefore else none,
            closedSnap := if mode == .readOnly || (mode == .readWrite && opened && !wasNothing) then st.closedSnap else none,
            previousId := if opened then some implId else st.previousId,
            planted := if opened && inForce == some .overwrite then none else st.planted,
            tampered := if opened && inForce == some .overwrite then false else st.tampered,
            libraryWritten := if mode == .readOnly then st.libraryWritten else false }
          fin st' (judge s!"open.{mtok}.{if force then "force" else "plain"}.{match obs with | .refused c => c | .opened .. => "ok"}" modelToks implToks rules)
      | _, _ => fin st (.malformed "fm_open args")
    | _ => fin st (.malformed "fm_open arity")
  | "fm_close" =>
    match st.implOpen with
    | none => fin st (.ok "close.nothing_open")
    | some m =>
      let writable := m != .readOnly
      let disk' := match st.session with
        | some s => .h5 s.root s.content
        | none => st.disk
      let st' : ModesSt := { st with
        disk := disk', session := none, implOpen := none, implRequested := none, openSnap := none, lastSnap := none,
        closedSnap := if writable then st.lastSnap else st.closedSnap,
        pathBefore := if writable then none else st.pathBefore,
        libraryWritten := if writable then st.planted.isNone && !st.tampered else st.libraryWritten }
      fin st' (.ok s!"close.{modeTok m}")
  | "fm_snap" =>
    match impl with
    | "ok" :: rest =>
      match parsePath rest with
      | some (obs, ["~"]) =>
        let rules := match st.pathBefore with
          | some p => [("readonly_open_changes_no_byte", relRoBytes p obs)]
          | none => []
        fin { st with pathBefore := some obs } (judge "snap.closed" [] [] rules)
      | some (obs, more) =>
        match parseSnap more with
        | none => fin st (.malformed "fm_snap answer")
        | some snap =>
          let ro := st.implOpen == some .readOnly
          let first := st.openSnap.isNone
          let rules : List (String × Bool) :=
            (if ro then (match st.pathBefore with
              | some p => [("readonly_session_changes_no_byte", relRoBytes p obs)]
              | none => []) else []) ++
            (if ro then (match st.openSnap with
              | some s0 => [("readonly_session_shows_the_same", relRoSnap s0 snap)]
              | none => []) else []) ++
            (if first then (match st.closedSnap with
              | some s => if st.implRequested == some .overwrite then [] else
                  [(if ro then "readonly_open_shows_prior_content" else "readwrite_open_preserves_content", relPreserved s snap)]
              | none => []) else []) ++
            (if first && st.implOpen == some .overwrite && st.lastSnap.isNone && st.session.map (·.content) == some emptyContent then
               [("created_file_is_empty_and_valid", relEmptyValid libVersion (.opened snap.fileId .overwrite snap.blocks snap.sections) (some snap) none)]
             else [])
          -- model: in a read-only session the content cannot have moved; in a writable one the model learns it here
          let (modelToks, implToks, sess) : List String × List String × Option (Session String) :=
            match st.session with
            | some s =>
              if !s.writable && s.content != "?" then ((s.content.splitOn " ").take 3, (Snap.content snap).splitOn " " |>.take 3, some s)
              else ([], [], some { s with content := Snap.content snap, root := { s.root with id := if s.root.id == .missing then .missing else .value snap.fileId } })
            | none => (["no session"], ["session"], none)
          let st' : ModesSt := { st with openSnap := if first then some snap else st.openSnap, lastSnap := some snap, session := sess }
          fin st' (judge s!"snap.{match st.implOpen with | some m => modeTok m | none => "none"}{if first then ".first" else ""}{if ro && (st.openSnap.map (·.tree)).getD snap.tree != snap.tree then ".cached_attribute_moved" else ""}" modelToks implToks rules)
      | none => fin st (.malformed "fm_snap answer")
    | _ => fin st (.malformed "fm_snap answer")
  | "fm_try" =>
    match args with
    | flag :: inner =>
      let innerOp := (inner.head?).getD "?"
      let kind := match inner with
        | "mk" :: _ :: k :: _ => s!"mk.{k}"
        | "del" :: k :: _ => s!"del.{k}"
        | "link" :: r :: _ => s!"link.{r}"
        | "unlink" :: r :: _ => s!"unlink.{r}"
        | "single" :: f :: _ :: how :: _ => s!"single.{f}.{how}"
        | "set" :: _ :: f :: _ => s!"set.{f}"
        | "adim" :: _ :: k :: _ => s!"adim.{k}"
        | "sdim" :: _ :: _ :: f :: _ => s!"sdim.{f}"
        | "fm_file" :: w :: _ => s!"file.{w}"
        | "fm_ent" :: _ :: w :: _ => s!"ent.{w}"
        | _ => innerOp
      let res := if isErr impl then (impl[1]?).getD "err" else "ok"
      match st.implOpen with
      | some .readOnly =>
        let rules := if flag == "mut" then [("mutating_call_on_readonly_file_is_refused", relRoMutatorRefused (isErr impl) ((innerOp == "del" || innerOp == "unlink") && impl == ["ok", "0"]))] else []
        -- model: every program that would write is refused; the class is predicted where the File-level model knows it
        let (modelToks, implToks) : List String × List String :=
          if flag == "mut" then
            match roClasses inner with
            | some cls => if cls.contains ((impl[1]?).getD "") && isErr impl then (impl, impl) else (["err", "|".intercalate cls], impl.take 2)
            | none => (["err"], impl.take 1)
          else ([], [])
        fin st (judge s!"try.ro.{flag}.{kind}.{res}" modelToks implToks rules)
      | some _ =>
        -- a writable session: the content is no longer what the last snapshot showed
        let sess := st.session.map fun s => { s with content := "?" }
        fin { st with lastSnap := none, session := sess } (.ok s!"try.rw.{flag}.{kind}.{res}")
      | none => fin st (.ok s!"try.closed.{kind}.{res}")
    | _ => fin st (.malformed "fm_try")
  | "fm_file" | "fm_ent" =>
    let sess := st.session.map fun s => if s.writable then { s with content := "?" } else s
    fin { st with lastSnap := if st.implOpen == some .readOnly then st.lastSnap else none, session := sess } (.ok s!"{op}.{(args.head?).getD ""}")
  | _ => none

end Nix.Drive.Modes
