import NixModel.Index
/-
  C07 — what the property says about position→index conversion, independent of the kernels.
-/
namespace Nix.C07
open Nix Scalar

/-- an axis: coordinates `x_0 < x_1 < …`, bounded by `len` entries when `len = some n` -/
structure Axis (α : Type) where
  coord : Nat → α
  len : Option Nat

variable {α : Type} [Scalar α]

def Axis.valid (a : Axis α) (i : Nat) : Prop :=
  match a.len with
  | none => True
  | some n => i < n

instance (a : Axis α) (i : Nat) : Decidable (a.valid i) := by
  unfold Axis.valid; split <;> infer_instance

def Axis.StrictMono (a : Axis α) : Prop := ∀ i j, a.valid j → i < j → a.coord i < a.coord j

/-- The documented rule, as the property states it. -/
def IsIndex (a : Axis α) (m : PositionMatch) (p : α) (r : Option Nat) : Prop :=
  match m, r with
  | .lessOrEqual, some i => a.valid i ∧ a.coord i ≤ p ∧ ∀ j, a.valid j → a.coord j ≤ p → j ≤ i
  | .lessOrEqual, none => ∀ j, a.valid j → ¬ a.coord j ≤ p
  | .less, some i => a.valid i ∧ a.coord i < p ∧ ∀ j, a.valid j → a.coord j < p → j ≤ i
  | .less, none => ∀ j, a.valid j → ¬ a.coord j < p
  | .greaterOrEqual, some i => a.valid i ∧ p ≤ a.coord i ∧ ∀ j, a.valid j → p ≤ a.coord j → i ≤ j
  | .greaterOrEqual, none => ∀ j, a.valid j → ¬ p ≤ a.coord j
  | .greater, some i => a.valid i ∧ p < a.coord i ∧ ∀ j, a.valid j → p < a.coord j → i ≤ j
  | .greater, none => ∀ j, a.valid j → ¬ p < a.coord j
  | .equal, some i => a.valid i ∧ a.coord i = p
  | .equal, none => ∀ j, a.valid j → ¬ a.coord j = p

/-- a start/end pair: (GreaterOrEqual(start), LessOrEqual|Less(end)), valid exactly when
    start ≤ end and the resulting pair is ordered -/
def IsPair (a : Axis α) (rm : RangeMatch) (s e : α) (r : Option (Nat × Nat)) : Prop :=
  match r with
  | some (i, j) => ¬ e < s ∧ IsIndex a .greaterOrEqual s (some i) ∧ IsIndex a rm.endMatch e (some j) ∧ i ≤ j
  | none => e < s ∨ IsIndex a .greaterOrEqual s none ∨ IsIndex a rm.endMatch e none ∨
      ∃ i j, IsIndex a .greaterOrEqual s (some i) ∧ IsIndex a rm.endMatch e (some j) ∧ j < i

/-! ### the same rule in a form that is decidable by looking only at the neighbours of the answer.
    `hint` is a candidate witness for the one case that needs one (Equal ↦ none): an index with
    `coord hint < p < coord (hint+1)`; the evaluator *checks* the witness, it does not trust it. -/

def relIndex (a : Axis α) (m : PositionMatch) (p : α) (r : Option Nat) (hint : Option Nat) : Bool :=
  match m, r with
  | .lessOrEqual, some i => decide (a.valid i) && decide (a.coord i ≤ p) && (!decide (a.valid (i+1)) || decide (p < a.coord (i+1)))
  | .lessOrEqual, none => !decide (a.valid 0) || decide (p < a.coord 0)
  | .less, some i => decide (a.valid i) && decide (a.coord i < p) && (!decide (a.valid (i+1)) || decide (p ≤ a.coord (i+1)))
  | .less, none => !decide (a.valid 0) || decide (p ≤ a.coord 0)
  | .greaterOrEqual, some i => decide (a.valid i) && decide (p ≤ a.coord i) && (i == 0 || decide (a.coord (i-1) < p))
  | .greaterOrEqual, none => match a.len with
      | none => false
      | some n => n == 0 || decide (a.coord (n-1) < p)
  | .greater, some i => decide (a.valid i) && decide (p < a.coord i) && (i == 0 || decide (a.coord (i-1) ≤ p))
  | .greater, none => match a.len with
      | none => false
      | some n => n == 0 || decide (a.coord (n-1) ≤ p)
  | .equal, some i => decide (a.valid i) && beq (a.coord i) p
  | .equal, none =>
      !decide (a.valid 0) || decide (p < a.coord 0) ||
      (match hint with
       | some h => decide (a.valid h) && decide (a.coord h < p) && (!decide (a.valid (h+1)) || decide (p < a.coord (h+1)))
       | none => false)

def relPair (a : Axis α) (rm : RangeMatch) (s e : α) (r : Option (Nat × Nat))
    (hs he : Option Nat) : Bool :=
  match r with
  | some (i, j) => !decide (e < s) && relIndex a .greaterOrEqual s (some i) none &&
      relIndex a rm.endMatch e (some j) none && decide (i ≤ j)
  | none => decide (e < s) || relIndex a .greaterOrEqual s none none || relIndex a rm.endMatch e none none ||
      (match hs, he with
       | some i, some j => relIndex a .greaterOrEqual s (some i) none && relIndex a rm.endMatch e (some j) none && decide (j < i)
       | _, _ => false)

/-- axes of the four descriptor kinds -/
def rangeAxis (ticks : List α) : Axis α := { coord := fun i => ticks.getD i Scalar.zero, len := some ticks.length }
def sampledAxis (si off : α) : Axis α := { coord := posAt si off, len := none }
def countAxis (count : Nat) : Axis α := { coord := Scalar.ofNat, len := if count = 0 then none else some count }

end Nix.C07
