import NixModel.Property
/-
  C14 — the property as a statement about histories of ACCEPTED calls (events): what a property reports is
  what was last assigned to it.  The functions below scan a history backwards (most recent event first) and
  never build a property; they are evaluated by the driver on what the implementation answered and are what
  the theorems of Props/C14.lean say about the model.
-/
namespace Nix.C14
open Nix Nix.PV

/-- calls that were accepted (did not raise) -/
inductive Ev (V D : Type)
  | created (name : String) (dt : DType) (init : Option (List (Variant V)))
      -- `none`: created from a data type only — the property statement says nothing about the initial values
  | assigned (name : String) (vs : List (Variant V))
  | cleared (name : String)
  | unit (name : String) (u : Option String)
  | unc (name : String) (d : Option D)
  | defn (name : String) (s : Option String)
  | deleted (name : String)
  | reopened (writable : Bool)

variable {V D : Type}

/-- what is known about a property's values -/
inductive Known (α : Type)
  | absent                 -- no such property
  | unspecified            -- exists, but nothing has been assigned yet (created from a type only)
  | is (a : α)

/-- the values a property must report: those of the last assignment / clearing / creation from values -/
def lastValues (name : String) : List (Ev V D) → Known (List (Variant V))
  | [] => .absent
  | .assigned n vs :: rest => if n == name then .is vs else lastValues name rest
  | .cleared n :: rest => if n == name then .is [] else lastValues name rest
  | .created n _ init :: rest =>
    if n == name then (match init with | some vs => .is vs | none => .unspecified) else lastValues name rest
  | .deleted n :: rest => if n == name then .absent else lastValues name rest
  | _ :: rest => lastValues name rest

/-- the element type: that of the creation -/
def typeOf (name : String) : List (Ev V D) → Option DType
  | [] => none
  | .created n dt _ :: rest => if n == name then some dt else typeOf name rest
  | .deleted n :: rest => if n == name then none else typeOf name rest
  | _ :: rest => typeOf name rest

/-- a unit is stored without blanks; an all-blank unit unsets it -/
def normUnit (u : Option String) : Option String :=
  match u with
  | none => none
  | some u => if (deblank u).isEmpty then none else some (deblank u)

def lastUnit (name : String) : List (Ev V D) → Known (Option String)
  | [] => .absent
  | .unit n u :: rest => if n == name then .is (normUnit u) else lastUnit name rest
  | .created n _ _ :: rest => if n == name then .is none else lastUnit name rest
  | .deleted n :: rest => if n == name then .absent else lastUnit name rest
  | _ :: rest => lastUnit name rest

def lastUnc (name : String) : List (Ev V D) → Known (Option D)
  | [] => .absent
  | .unc n d :: rest => if n == name then .is d else lastUnc name rest
  | .created n _ _ :: rest => if n == name then .is none else lastUnc name rest
  | .deleted n :: rest => if n == name then .absent else lastUnc name rest
  | _ :: rest => lastUnc name rest

def lastDef (name : String) : List (Ev V D) → Known (Option String)
  | [] => .absent
  | .defn n d :: rest => if n == name then .is d else lastDef name rest
  | .created n _ _ :: rest => if n == name then .is none else lastDef name rest
  | .deleted n :: rest => if n == name then .absent else lastDef name rest
  | _ :: rest => lastDef name rest

/-- is the file writable after this history? (a fresh file is) -/
def writableAfter : List (Ev V D) → Bool
  | [] => true
  | .reopened w :: _ => w
  | _ :: rest => writableAfter rest

/-- what one `get` observes of a property -/
structure Obs (V D : Type) where
  dtype : DType
  count : Nat
  values : List (Variant V)
  unit : Option String
  unc : Option D
  defn : Option String

/-- the verdict on one value vector offered to a property of element type `dt` in a writable file:
    it must be accepted exactly when every value has the property's type -/
def mustAccept (dt : DType) (vs : List (Variant V)) : Bool := vs.all fun v => v.ty == dt

section
variable [DecidableEq V] [DecidableEq D]

/-- **Rel**, reading part: the observation agrees with the history (most recent event first) -/
def relValues (name : String) (h : List (Ev V D)) (o : Obs V D) : Bool :=
  match lastValues name h with
  | .is vs => decide (o.values = vs) && o.count == vs.length
  | .unspecified => !o.dtype.isValueType || o.count == o.values.length
  | .absent => false

def relType (name : String) (h : List (Ev V D)) (o : Obs V D) : Bool :=
  typeOf name h == some o.dtype && o.values.all fun v => v.ty == o.dtype

def relUnit (name : String) (h : List (Ev V D)) (o : Obs V D) : Bool :=
  match lastUnit name h with | .is u => decide (o.unit = u) | _ => false
def relUnc (name : String) (h : List (Ev V D)) (o : Obs V D) : Bool :=
  match lastUnc name h with | .is u => decide (o.unc = u) | _ => false
def relDef (name : String) (h : List (Ev V D)) (o : Obs V D) : Bool :=
  match lastDef name h with | .is u => decide (o.defn = u) | _ => false

def Rel (name : String) (h : List (Ev V D)) (o : Obs V D) : Bool :=
  relValues name h o && relType name h o && relUnit name h o && relUnc name h o && relDef name h o
end

end Nix.C14
