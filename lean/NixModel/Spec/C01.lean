import NixModel.NDArray
/-
  C01 — the property as a statement about histories: the value at an index is the one put there by
  the last write covering it since the index was last outside the extent, else zero.
  `lastValue` scans the history backwards and never builds an array.
-/
namespace Nix.C01
open Nix

variable {V : Type}

/-- the events of a history that succeeded (an append is an extent change followed by a write) -/
inductive HOp (V : Type)
  | write (off cnt : Idx) (vals : List V)     -- resolved hyperslab, values row-major
  | extent (shape : Idx)

/-- most recent event first; the creation of the array is the last entry (`extent initialShape`) -/
def lastValue (zero : V) : List (HOp V) → Idx → V
  | [], _ => zero
  | .write off cnt vals :: rest, idx =>
    if inBox off cnt idx then (match vals[linear cnt (subIdx idx off)]? with | some v => v | none => zero)
    else lastValue zero rest idx
  | .extent shape :: rest, idx => if inShape shape idx then lastValue zero rest idx else zero

/-- replay of the same events on the array model -/
def applyOp (a : NDArray V) : HOp V → NDArray V
  | .write off cnt vals => match a.write cnt off vals with | .ok a' => a' | .error _ => a
  | .extent shape => match a.setExtent shape with | .ok a' => a' | .error _ => a

/-- an event is admissible in the state it meets: boxes inside the extent, rank preserved -/
def Admissible (a : NDArray V) : HOp V → Prop
  | .write off cnt _ => a.boxOk off cnt = true ∧ cnt ≠ [] ∧ off ≠ []
  | .extent shape => shape.length = a.shape.length

end Nix.C01
