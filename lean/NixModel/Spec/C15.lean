import NixModel.DataFrame
/-
  C15 — the property as a statement about histories of ACCEPTED calls: a cell holds the value of the last write
  (through writeRow, writeCells or writeColumn) that covered it since its row was last outside the row count,
  else the fill value of its column type.  `lastCell` scans the history backwards (most recent event first) and
  never builds a table; the driver evaluates it on what the implementation answered.
-/
namespace Nix.C15
open Nix Nix.PV Nix.DF

/-- accepted calls, with column references already resolved to indices -/
inductive Ev (V : Type)
  | created (cols : List Col)
  | rows (n : Nat)
  | cells (row : Nat) (cs : List (Nat × Variant V))                      -- writeRow / writeCells / writeCell
  | column (col : Nat) (ty : DType) (offset : Nat) (vals : List V)       -- writeColumn, `vals` cut to the count written
  | reopened (writable : Bool)

variable {V : Type} (zero : DType → V) (conv : DType → DType → V → V)

/-- the schema: that of the creation -/
def schemaOf : List (Ev V) → List Col
  | [] => []
  | .created cols :: _ => cols
  | _ :: rest => schemaOf rest

def typeAt (cols : List Col) (c : Nat) : DType := ((cols[c]?).map (·.dtype)).getD .nothing

/-- the row count: that of the last `rows(n)`, 0 after the creation -/
def rowsAfter : List (Ev V) → Nat
  | [] => 0
  | .created _ :: _ => 0
  | .rows n :: _ => n
  | _ :: rest => rowsAfter rest

def writableAfter : List (Ev V) → Bool
  | [] => true
  | .created _ :: _ => true
  | .reopened w :: _ => w
  | _ :: rest => writableAfter rest

/-- the value of cell (r, c): last covering write since the row was last outside the row count, else the fill value -/
def lastCell (cols : List Col) : List (Ev V) → Nat → Nat → V
  | [], _, c => zero (typeAt cols c)
  | .created _ :: _, _, c => zero (typeAt cols c)
  | .rows n :: rest, r, c => if r < n then lastCell cols rest r c else zero (typeAt cols c)
  | .cells row cs :: rest, r, c =>
    if r = row then (match cs.lookup c with
      | some v => convert conv v.ty (typeAt cols c) v.val
      | none => lastCell cols rest r c)
    else lastCell cols rest r c
  | .column col ty off vals :: rest, r, c =>
    if c = col ∧ off ≤ r ∧ r < off + vals.length then
      (match vals[r - off]? with | some v => convert conv ty (typeAt cols c) v | none => lastCell cols rest r c)
    else lastCell cols rest r c
  | .reopened _ :: rest, r, c => lastCell cols rest r c

/-- what a read of a whole row must return -/
def expectRow (h : List (Ev V)) (r : Nat) : List (Variant V) :=
  let cols := schemaOf h
  (List.range cols.length).map fun c => { ty := typeAt cols c, val := lastCell zero conv cols h r c }

/-- what a column read of `count` elements from `offset` as element type `ty` must return -/
def expectColumn (h : List (Ev V)) (c : Nat) (ty : DType) (offset count : Nat) : List V :=
  let cols := schemaOf h
  (List.range count).map fun i => convert conv (typeAt cols c) ty (lastCell zero conv cols h (offset + i) c)

/-- column index of a reference according to a schema -/
def resolveRef (cols : List Col) : Ref → Option Nat
  | .idx i => if i < cols.length then some i else none
  | .name n => let i := cols.findIdx (fun c => c.name == n); if i < cols.length then some i else none

/-- … of a Cell: a Cell whose name is empty is addressed by its index (0 when it was made from a name) -/
def resolveCellRef (cols : List Col) : Ref → Option Nat
  | .name n => if n.isEmpty then resolveRef cols (.idx 0) else resolveRef cols (.name n)
  | r => resolveRef cols r

/-- the cells of a write call as (column index, value) pairs -/
def resolvedCells (cols : List Col) (cells : List (Ref × Variant V)) : List (Nat × Variant V) :=
  cells.filterMap fun c => (resolveCellRef cols c.1).map fun i => (i, c.2)

end Nix.C15
