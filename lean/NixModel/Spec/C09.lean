import NixModel.OpenMode
import NixModel.Dump
/-
  C09 — specification-level definitions: what the property says, as decidable relations over what a client observes
  (bytes at the path, the answer of `File::open`, snapshots of an open file, answers of calls).  Used by the theorems
  (Props/C09.lean, instantiated with the model's answers) and by the driver on the implementation's answers.
-/
namespace Nix.C09
open Nix Nix.Modes

/-- what can be seen at the path from outside -/
inductive PathObs
  | nothing
  | dir
  | bytes (size : Nat) (hash : String)
deriving DecidableEq, Repr

/-- what an open file shows -/
structure Snap where
  fileId : String
  created : String
  updated : String
  format : String
  version : List Int
  blocks : Nat
  sections : Nat
  records : Nat           -- entities in the canonical dump
  tree : String           -- digest of the canonical dump of all entities
deriving DecidableEq, Repr

/-- the answer to one `File::open` -/
inductive OpenObs
  | refused (cls : String)
  | opened (fileId : String) (mode : FileMode) (blocks sections : Nat)
deriving DecidableEq, Repr

def OpenObs.isRefused : OpenObs → Bool
  | .refused _ => true
  | _ => false

/-- header defects a test can plant (the list of the property text, refined) -/
inductive Planted
  | formatMissing | formatWrong | formatUnreadable | versionMissing | versionUnreadable | versionWrongLength
  | idMissing | idUnreadable | plainHdf5 | notHdf5 | emptyFile | truncated | directory
deriving DecidableEq, Repr

/-- "Opening a non-existent path in ReadOnly mode … is refused" — and nothing appears at the path -/
def relRoMissing (o : OpenObs) (after : PathObs) : Bool := o.isRefused && after == .nothing

/-- "…or any file that lacks the NIX format / version / id header, is refused with an error instead of returning a usable File" -/
def relDefectRefused (o : OpenObs) : Bool := o.isRefused

/-- "Opening a file in ReadOnly mode never changes a single byte of it": the path before the open, and at any later point of the
    read-only session or after it -/
def relRoBytes (before later : PathObs) : Bool := before == later

/-- a read-only session keeps showing the file it opened: same id, creation time, format, version, and the same entities.
    (The digest of the entity attributes is deliberately not part of this relation: HDF5 keeps the new value of an attribute write it
    has refused in its cache until the file is closed — the call throws and no byte changes, which is all the property asks.) -/
def relRoSnap (atOpen later : Snap) : Bool := { atOpen with tree := "" } == { later with tree := "" }

/-- "…and every mutating call fails with an exception".  A removal that answers `false` (nothing was there to remove) is not a
    mutating call; any other answer of a call that would change a writable file must be an exception. -/
def relRoMutatorRefused (answerIsError : Bool) (answersNothingRemoved : Bool) : Bool := answerIsError || answersNothingRemoved

/-- "ReadWrite opens an existing file with all prior content intact": the snapshot taken before the previous session was closed and
    the one taken after reopening (ReadWrite or ReadOnly) -/
def relPreserved (before after : Snap) : Bool := before == after

/-- "Overwrite always yields an empty, valid NIX file" (also: ReadWrite "creates it if absent") -/
def relEmptyValid (lib : FormatVersion) (o : OpenObs) (s : Option Snap) (previousId : Option String) : Bool :=
  (match o with
   | .opened id _ b n => b == 0 && n == 0 && Dump.wellFormedUUID id && some id != previousId
   | .refused _ => false) &&
  (match s with
   | some s => s.blocks == 0 && s.sections == 0 && s.records == 0 && s.format == Gen.fileFormat && s.version == [lib.x, lib.y, lib.z] &&
               Dump.wellFormedUUID s.fileId
   | none => true)

/-- the mode a successful open reports: the requested one, except that a missing file is created (Overwrite) -/
def relModeInForce (requested : FileMode) (wasPresent : Bool) (o : OpenObs) : Bool :=
  match o with
  | .opened _ m _ _ => m == (if wasPresent then requested else .overwrite)
  | .refused _ => true

end Nix.C09
