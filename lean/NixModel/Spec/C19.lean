import NixModel.Validate
/-
  C19 — specification level.  What a breach IS (written from the documented rules, docs/validation.rst and the
  property text, per entity, without loops, early exits or accumulators), which entities of a file description
  are subject to the rules, and the decidable relation `Rel` between a file description and a validation result
  that the property demands.  Nothing here calls the validator model (`validate*`); `Rel` is evaluated by the
  driver on the description and the result the IMPLEMENTATION produced, and `Props/C19.lean` proves it of the model.
-/
namespace Nix.C19
open Nix Nix.Validate

/-- the kinds of hard-rule breach -/
inductive Breach
  | blankId | noDate | blankName | blankType                        -- every entity
  | noDtype | rank | ticks | labels | rows                          -- data array
  | badIndex | noTicks | unsorted | interval | dimUnit              -- dimension descriptor
  | noPosition | noPositions | tagUnitInvalid | unitsNotConvertible -- tag / multi-tag
  | noData | badLinkType                                            -- feature
  | propUnit                                                        -- property
deriving DecidableEq, Repr

def Breach.code : Breach → String
  | .blankId => "blank_id" | .noDate => "no_date" | .blankName => "blank_name" | .blankType => "blank_type"
  | .noDtype => "no_dtype" | .rank => "dimension_count_differs_from_rank" | .ticks => "tick_count_differs_from_data_length"
  | .labels => "label_count_differs_from_data_length" | .rows => "row_count_differs_from_data_length"
  | .badIndex => "bad_index" | .noTicks => "no_ticks" | .unsorted => "unsorted_ticks" | .interval => "non_positive_sampling_interval"
  | .dimUnit => "dimension_unit_not_si" | .noPosition => "tag_without_position" | .noPositions => "multitag_without_positions"
  | .tagUnitInvalid => "tag_unit_invalid" | .unitsNotConvertible => "tag_units_not_convertible"
  | .noData => "feature_without_data" | .badLinkType => "bad_link_type" | .propUnit => "property_unit_not_si"

/-- the breach kinds the property text lists explicitly -/
def Breach.listed : Breach → Bool
  | .rank | .ticks | .labels | .rows | .unsorted | .interval | .unitsNotConvertible | .noPositions | .noData => true
  | _ => false

def allBreaches : List Breach :=
  [.blankId, .noDate, .blankName, .blankType, .noDtype, .rank, .ticks, .labels, .rows, .badIndex, .noTicks, .unsorted,
   .interval, .dimUnit, .noPosition, .noPositions, .tagUnitInvalid, .unitsNotConvertible, .noData, .badLinkType, .propUnit]

/-- the soft rules -/
inductive Soft
  | unitNotSI | polyWithoutOrigin | originWithoutPoly | offsetWithoutUnit | valuesWithoutUnit
deriving DecidableEq, Repr

def when {β : Type} (c : Bool) (b : β) : List β := if c then [b] else []

variable {α : Type} [Scalar α]

/-- ticks are unsorted: some element is smaller than its predecessor -/
def unsorted (ticks : List α) : Bool := (ticks.zip ticks.tail).any fun p => decide (p.2 < p.1)

def isSet (g : Got Bool) : Bool := g.passes fun b => b

def entityBreaches (id : String) (created : Got Int) : List Breach :=
  when id.isEmpty .blankId ++ when (!created.passes (· != 0)) .noDate

def namedBreaches (n : Named) : List Breach :=
  entityBreaches n.id n.created ++ when n.name.isEmpty .blankName ++ when (!n.type.passes (!·.isEmpty)) .blankType

/-- length of the data along the dimension a descriptor describes (`index` is 1-based) -/
def dataLen (shape : List Nat) (d : DimDesc α) : Option Nat :=
  if d.index = 0 then none else shape[d.index - 1]?

/-- the descriptor's own length differs from the data length (labels may be left empty) -/
def dimSizeBreach (shape : List Nat) (d : DimDesc α) : List Breach :=
  match dataLen shape d with
  | none => []
  | some n =>
    match d.kind with
    | .range ticks _ => when (ticks.length != n) .ticks
    | .set labels => when (labels != 0 && labels != n) .labels
    | .frame rows _ => when (rows != n) .rows
    | .sampled _ _ _ => []

def arrayBreaches (a : ArrayDesc α) : List Breach :=
  namedBreaches a.ent ++ when (!isSet a.dtypeSet) .noDtype ++
  when (!a.dimCount.passes (· == a.shape.length)) .rank ++
  a.dims.flatMap (dimSizeBreach a.shape)

/-- a unit, where given, must be an SI unit -/
def unitBreach (u : Got (Option String)) (pred : String → Bool) : Bool :=
  match u with
  | .val (some s) => !pred s
  | _ => false

def dimBreaches (d : DimDesc α) : List Breach :=
  match d.kind with
  | .range ticks unit =>
    when (d.index = 0) .badIndex ++ when ticks.isEmpty .noTicks ++ when (unitBreach unit isAtomicUnit) .dimUnit ++
    when (unsorted ticks) .unsorted
  | .sampled si _ unit =>
    when (d.index = 0) .badIndex ++ when (!si.passes fun x => decide (Scalar.zero < x)) .interval ++
    when (unitBreach unit isAtomicUnit) .dimUnit
  | .set _ => when (d.index = 0) .badIndex
  | .frame _ _ => []

/-- a tag unit against the unit of the dimension it applies to: both given and not convertible -/
def pairBreach (tu du : String) : Bool :=
  du != "none" && !tu.isEmpty && tu != "none" && !isScalable tu du

/-- the i-th tag unit applies to the i-th dimension of the referenced array -/
def refBreach (units ref : List String) : Bool := (units.zip ref).any fun p => pairBreach p.1 p.2

def tagBreaches (t : TagDesc) : List Breach :=
  namedBreaches t.ent ++ when (!isSet t.posSet) (if t.isMulti then .noPositions else .noPosition) ++
  when (!t.units.all isValidUnit) .tagUnitInvalid ++
  when (!t.units.isEmpty && match t.refs with | .threw => true | .val rs => rs.any (refBreach t.units)) .unitsNotConvertible

def featureBreaches (f : FeatureDesc) : List Breach :=
  entityBreaches f.id f.created ++ when (!isSet f.dataSet) .noData ++ when (!f.linkType.passes fun l => decide (l ≥ 0)) .badLinkType

def propBreaches (p : PropDesc) : List Breach :=
  entityBreaches p.id p.created ++ when p.name.isEmpty .blankName ++ when (unitBreach p.unit isValidUnit) .propUnit

def arraySoft (a : ArrayDesc α) : List Soft :=
  when (unitBreach a.unit isValidUnit) .unitNotSI ++
  when (a.polyN.passes (· != 0) && !isSet a.originSet) .polyWithoutOrigin ++
  when (isSet a.originSet && !a.polyN.passes (· != 0)) .originWithoutPoly

def dimSoft (d : DimDesc α) : List Soft :=
  match d.kind with
  | .sampled _ off unit => when (isSet off && !unit.passes (optUnit isAtomicUnit)) .offsetWithoutUnit
  | _ => []

def propSoft (p : PropDesc) : List Soft :=
  when (p.valueCount.passes (· != 0) && !p.unit.passes Option.isSome) .valuesWithoutUnit

/-- an entity the rules apply to -/
inductive Ent (α : Type) where
  | named (n : Named)                -- block, source, section
  | array (a : ArrayDesc α)
  | dim (d : DimDesc α)
  | tag (t : TagDesc)                -- tag, multi-tag
  | feature (f : FeatureDesc)
  | prop (p : PropDesc)

/-- the id a message about the entity carries (dimension descriptors have none) -/
def Ent.msgId : Ent α → String
  | .named n => n.id | .array a => a.ent.id | .dim _ => dimId | .tag t => t.ent.id | .feature f => f.id | .prop p => p.id

def Ent.breaches : Ent α → List Breach
  | .named n => namedBreaches n | .array a => arrayBreaches a | .dim d => dimBreaches d | .tag t => tagBreaches t
  | .feature f => featureBreaches f | .prop p => propBreaches p

def Ent.soft : Ent α → List Soft
  | .array a => arraySoft a | .dim d => dimSoft d | .prop p => propSoft p | _ => []

def tagEnts (t : TagDesc) : List (Ent α) := .tag t :: t.features.map .feature
def arrayEnts (a : ArrayDesc α) : List (Ent α) := .array a :: a.dims.map .dim
def blockEnts (b : BlockDesc α) : List (Ent α) :=
  .named b.ent :: (b.arrays.flatMap arrayEnts ++ b.mtags.flatMap tagEnts ++ b.tags.flatMap tagEnts ++ b.sources.map .named)
def sectionEnts (s : SectionDesc) : List (Ent α) := .named s.ent :: s.props.map .prop

/-- every entity of the file the rules apply to: every block, array, dimension descriptor, multi-tag, tag, feature,
    source, section and property, wherever it sits -/
def entities (d : FileDesc α) : List (Ent α) := d.blocks.flatMap blockEnts ++ d.sections.flatMap sectionEnts

/-- what the getters guarantee by construction (backend/hdf5: a descriptor's index is its position, `dimensionCount`
    is the number of descriptors `dimensions()` returns); checked on every description the implementation produces -/
def arrayWF (a : ArrayDesc α) : Bool :=
  (match a.dimCount with | .threw => true | .val n => n == a.dims.length) &&
  a.dims.all fun d => decide (1 ≤ d.index) && decide (d.index ≤ a.dims.length)

def WF (d : FileDesc α) : Bool := d.blocks.all fun b => b.arrays.all arrayWF

def Conforms (d : FileDesc α) : Bool := (entities d).all fun e => e.breaches.isEmpty

def countId (s : String) (l : List Msg) : Nat := l.countP fun m => m.id == s

/-- (a) no false alarm: every error is attributed to an entity that breaches a hard rule -/
def relSound (d : FileDesc α) (r : Result) : Bool :=
  r.errors.all fun m => (entities d).any fun e => e.msgId == m.id && !e.breaches.isEmpty

/-- (b) for breach kind `k`: the errors attributed to an id are at least as many as the entities with that id that breach
    a hard rule (ids are unique, so: at least one error per breaching entity; dimension descriptors share the id
    "unknown", so: at least one error per breaching descriptor) -/
def relFlagged (k : Breach) (d : FileDesc α) (r : Result) : Bool :=
  (entities d).all fun e => !e.breaches.contains k ||
    decide (countId e.msgId r.errors ≥ (entities d).countP fun e' => e'.msgId == e.msgId && !e'.breaches.isEmpty)

/-- (c) soft rules: a soft breach is reported as a warning … -/
def relSoftWarned (d : FileDesc α) (r : Result) : Bool :=
  (entities d).all fun e => e.soft.isEmpty ||
    decide (countId e.msgId r.warnings ≥ (entities d).countP fun e' => e'.msgId == e.msgId && !e'.soft.isEmpty)

/-- … and a warning is only ever about a soft breach (soft breaches alone never produce an error: `relSound`) -/
def relWarnOnlySoft (d : FileDesc α) (r : Result) : Bool :=
  r.warnings.all fun m => (entities d).any fun e => e.msgId == m.id && !e.soft.isEmpty

def rules (d : FileDesc α) (r : Result) : List (String × Bool) :=
  [("no_error_without_a_hard_breach", relSound d r)] ++
  (allBreaches.map fun k => ("breach_is_flagged:" ++ k.code, relFlagged k d r)) ++
  [("soft_breach_is_warned", relSoftWarned d r), ("warning_only_for_soft_breach", relWarnOnlySoft d r)]

/-- the property relation -/
def Rel (d : FileDesc α) (r : Result) : Bool := (rules d r).all (·.2)

end Nix.C19
