import NixModel.Session
/-
  C11 — specification-level relations over what a client observes: the canonical dump a session took right before it flushed or
  closed, the dump another process takes after the first one was killed, the count of open HDF5 ids after a close, the answers of
  calls through handles obtained before the close.
-/
namespace Nix.C11

/-- how a session made its writes durable -/
inductive Durable | flush | close
deriving DecidableEq, Repr

/-- "Once close() has returned — or flush() has returned true and nothing has been modified since — the file on disk is complete:
    it can be reopened in any mode … also after the writing process has been killed …, and it contains everything written before."
    `atFlush`: the dump taken in the writing process, `reopened`: the answer of the reopen in another process (none = refused). -/
def relKilledAfterDurable (atFlush : List String) (reopened : Option (List String)) : Bool :=
  match reopened with
  | some d => d == atFlush
  | none => false

/-- "After close() … instead of keeping the file open": no object id of the file, nor the file id, is left open in the process
    (`before`: ids open before the file was opened, e.g. the library's transient datatypes) -/
structure IdCount where
  files : Nat
  groups : Nat
  datasets : Nat
  datatypes : Nat
  attrs : Nat
deriving DecidableEq, Repr

def relReleased (before after : IdCount) : Bool :=
  after.files == before.files && after.groups == before.groups && after.datasets == before.datasets &&
  after.datatypes == before.datatypes && after.attrs == before.attrs

/-- "…entity handles obtained earlier fail with an exception instead of … touching it" -/
def relStaleHandleFails (answerIsError : Bool) : Bool := answerIsError

/-- the closed file can be truncated and recreated in the same process (HDF5 refuses that while the file is open anywhere in it) -/
def relCanTruncate (reopenedOverwrite : Option (List String)) : Bool :=
  match reopenedOverwrite with
  | some d => d.count "E" == 1        -- the file record only
  | none => false

end Nix.C11
