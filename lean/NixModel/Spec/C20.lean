import NixModel.Search
import NixModel.Dump
/-
  C20 — tree searches and back references equal a brute-force traversal.

  Part 1: the brute-force side for the theorems (level order of a forest; no queue, no depth counters).
  Part 2: the property as a decidable relation on what the IMPLEMENTATION answered: the expected answer of every query is
          computed from the records of the canonical dump by path arithmetic only (never consults `Search.lean`).
-/
namespace Nix.C20
open Nix.Search Nix.Search.Tree

variable {α : Type}

/-! ## Part 1 — level order -/

/-- generation `k` of a forest (`k = 0`: the forest's own roots), in index order -/
def level : Nat → List (Tree α) → List (Tree α)
  | 0, ts => ts
  | k + 1, ts => level k (ts.flatMap children)

/-- the first `n` generations, one after the other: the breadth-first listing of everything within depth `n` -/
def levels : Nat → List (Tree α) → List (Tree α)
  | 0, _ => []
  | n + 1, ts => ts ++ levels n (ts.flatMap children)

/-- the nearest generation (among the first `k`) that has a node accepted by `f`: its accepted nodes -/
def firstHit (f : Tree α → Bool) : Nat → List (Tree α) → List (Tree α)
  | 0, _ => []
  | k + 1, ts => if (ts.filter f).isEmpty then firstHit f k (ts.flatMap children) else ts.filter f

end Nix.C20

/-! ## Part 2 — the relation on the implementation's answers

  Everything below works on the flat record list of the canonical dump: an entity is a record, its position in the tree is
  its path (`s0/s2/s1`, `b0/o1/o0`), "depth" is the number of path components, "below" is a path prefix.  The dump lists
  parents before children and siblings by index, so two records of the same depth appear in breadth-first order.
-/
namespace Nix.C20.Rel
open Nix Nix.Dump

/-- a query filter as the generator wrote it; names and types stay hex tokens (the dump prints them the same way) -/
inductive F
  | all
  | id (s : String)
  | ids (l : List String)
  | name (tok : String)
  | type (tok : String)
  | nameType (n t : String)

def F.accepts : F → Rec → Bool
  | .all, _ => true
  | .id s, r => r.id == s
  | .ids l, r => l.contains r.id
  | .name t, r => r.name == t
  | .type t, r => r.type == t
  | .nameType n t, r => r.name == n && r.type == t

def depthOf (path : String) : Nat := if path.isEmpty then 0 else (path.splitOn "/").length

def isBelow (anc path : String) : Bool := path.startsWith (anc ++ "/")

/-- records of `kind` exactly `k` levels below `base` (k ≥ 1), in dump order -/
def generation (d : Dump) (kind base : String) (k : Nat) : List Rec :=
  d.filter fun r => r.kind == kind && isBelow base r.path && depthOf r.path == depthOf base + k

/-- the greatest distance of a record of `kind` below `base` -/
def reach (d : Dump) (kind base : String) : Nat :=
  (d.filter fun r => r.kind == kind && isBelow base r.path).foldl (fun m r => max m (depthOf r.path - depthOf base)) 0

/-- brute force: the accepted records below `base`, generation by generation, down to `limit` (none = no limit) -/
def belowLevelOrder (d : Dump) (kind base : String) (limit : Option Nat) (f : F) : List Rec :=
  let top := match limit with | some n => min n (reach d kind base) | none => reach d kind base
  ((List.range top).flatMap fun k => generation d kind base (k + 1)).filter f.accepts

/-- all sections of the file within `limit` generations (roots = generation 1) -/
def fileSections (d : Dump) (limit : Option Nat) (f : F) : List Rec :=
  d.filter fun r => r.kind == "S" && (match limit with | some n => decide (depthOf r.path ≤ n) | none => true) && f.accepts r

/-- all sources of a block within `limit` generations (roots = generation 0) -/
def blockSources (d : Dump) (b : Rec) (limit : Option Nat) (f : F) : List Rec :=
  d.filter fun r => r.kind == "O" && isBelow b.path r.path &&
    (match limit with | some n => decide (depthOf r.path ≤ depthOf b.path + 1 + n) | none => true) && f.accepts r

def insertSorted (x : String) : List String → List String
  | [] => [x]
  | y :: ys => if x ≤ y then x :: y :: ys else y :: insertSorted x ys
def sortStr (l : List String) : List String := l.foldr insertSorted []

def nodupStr : List String → Bool
  | [] => true
  | x :: xs => !xs.contains x && nodupStr xs

def sameSet (a b : List String) : Bool := sortStr a.eraseDups == sortStr b.eraseDups

/-- rules for a search started at one section / source: exactly the brute-force entities, each once, breadth first -/
def singleStart (answer : List String) (expected : List Rec) : List (String × Bool) :=
  let e := expected.map (·.id)
  [("result_is_exactly_the_accepted_entities_within_depth", sameSet answer e),
   ("each_entity_once", nodupStr answer),
   ("breadth_first_order", answer == e)]

/-- rules for a search started at the file or a block, and for back references: a set, each entity once -/
def asSet (what : String) (answer : List String) (expected : List Rec) : List (String × Bool) :=
  [(what, sameSet answer (expected.map (·.id))), ("each_entity_once", nodupStr answer)]

def recOfId (d : Dump) (kind id : String) : Option Rec := d.find? fun r => r.kind == kind && r.id == id

/-- the chain of records above `path`, nearest first -/
def ancestors (d : Dump) (kind path : String) : List Rec :=
  let rec go (fuel : Nat) (p : String) : List Rec :=
    match fuel with
    | 0 => []
    | fuel + 1 =>
      let pp := parentPath p
      if pp.isEmpty then [] else
      match d.find? fun r => r.kind == kind && r.path == pp with
      | some r => r :: go fuel pp
      | none => []
  go (depthOf path) path

/-- related sections by brute force: the nearest generation below with an accepted section; else the nearest accepted
    ancestor; else the accepted children — except the start — of the nearest ancestor that has any -/
def related (d : Dump) (start : Rec) (f : F) : List Rec :=
  let n := reach d "S" start.path
  let down := ((List.range n).map fun k => (generation d "S" start.path (k + 1)).filter f.accepts).find? (!·.isEmpty)
  match down with
  | some l => l
  | none =>
    let anc := ancestors d "S" start.path
    match anc.find? f.accepts with
    | some p => [p]
    | none =>
      match (anc.map fun p => (generation d "S" p.path 1).filter f.accepts).find? (!·.isEmpty) with
      | some l => l.filter (·.id != start.id)
      | none => []

/-- holders of `kind` (optionally inside one block) whose metadata link points to the section; `mdOf` = the target of an
    entity's metadata link as the accepted operations set it -/
def metaHolders (d : Dump) (mdOf : Rec → String) (kind secId : String) (block : Option Rec) : List Rec :=
  d.filter fun r => r.kind == kind && mdOf r == secId &&
    (match block with | some b => isBelow b.path r.path | none => true)

def blockOf (d : Dump) (r : Rec) : Option Rec :=
  d.find? fun b => b.kind == "B" && (b.path == r.path || isBelow b.path r.path)

/-- holders of `kind` in the source's block to which the source is attached; `srcsOf` = the sources attached to an entity
    as the accepted operations say -/
def srcHolders (d : Dump) (srcsOf : Rec → List String) (kind : String) (src : Rec) : List Rec :=
  match blockOf d src with
  | none => []
  | some b => d.filter fun r => r.kind == kind && parentPath r.path == b.path && (srcsOf r).contains src.id

/-- the record one level up, if it is a source -/
def parentSource (d : Dump) (src : Rec) : Option Rec :=
  d.find? fun r => r.kind == "O" && r.path == parentPath src.path

def propsOf (d : Dump) (sec : Rec) : List Rec := d.filter fun r => r.kind == "P" && parentPath r.path == sec.path

/-- own properties plus the linked section's properties whose name no own property has; `linkOf` = the section a section
    links to as the accepted operations say -/
def inherited (d : Dump) (linkOf : Rec → String) (sec : Rec) : List Rec :=
  let own := propsOf d sec
  match recOfId d "S" (linkOf sec) with
  | none => own
  | some l => own ++ (propsOf d l).filter fun p => !own.any fun o => o.name == p.name

end Nix.C20.Rel
