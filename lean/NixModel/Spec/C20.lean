import NixModel.Search
import NixModel.Dump
/-
  C20 — tree searches and back references equal a brute-force traversal.

  Part 1: the brute-force side for the theorems (level order of a forest; no queue, no depth counters).
  Part 2: the property as a decidable relation on what the IMPLEMENTATION answered: the expected answer of every query is
          computed from the records of the canonical dump by path arithmetic only (never consults `Search.lean`).
-/
namespace Nix.C20
open Nix.Search Nix.Search.Tree

variable {α : Type}

/-! ## Part 1 — level order -/

/-- generation `k` of a forest (`k = 0`: the forest's own roots), in index order -/
def level : Nat → List (Tree α) → List (Tree α)
  | 0, ts => ts
  | k + 1, ts => level k (ts.flatMap children)

/-- the first `n` generations, one after the other: the breadth-first listing of everything within depth `n` -/
def levels : Nat → List (Tree α) → List (Tree α)
  | 0, _ => []
  | n + 1, ts => ts ++ levels n (ts.flatMap children)

/-- the nearest generation (among the first `k`) that has a node accepted by `f`: its accepted nodes -/
def firstHit (f : Tree α → Bool) : Nat → List (Tree α) → List (Tree α)
  | 0, _ => []
  | k + 1, ts => if (ts.filter f).isEmpty then firstHit f k (ts.flatMap children) else ts.filter f

end Nix.C20
