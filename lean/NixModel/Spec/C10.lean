import NixModel.Version
/-
  C10 — specification-level definitions (what the property says, independent of the model).
  Used both by the theorems (Props/C10.lean) and by the driver when it judges the
  implementation's observations.
-/
namespace Nix.C10
open Nix

/-- the property's own reading of "older than": plain lexicographic order on (x,y,z) -/
def specLt (a b : FormatVersion) : Prop :=
  a.x < b.x ∨ (a.x = b.x ∧ (a.y < b.y ∨ (a.y = b.y ∧ a.z < b.z)))

instance (a b : FormatVersion) : Decidable (specLt a b) := by unfold specLt; infer_instance

/-- readable exactly when same major and file minor not newer -/
def specCanRead (lib file : FormatVersion) : Bool := decide (file.x = lib.x) && decide (file.y ≤ lib.y)
/-- writable exactly when identical -/
def specCanWrite (lib file : FormatVersion) : Bool := decide (file = lib)

end Nix.C10
