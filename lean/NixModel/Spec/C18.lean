import NixModel.Units
/-
  C18 — specification-level definitions: the SI prefix exponents as the SI defines them
  (written here by hand, NOT taken from the source), and what "scaling" must be.
-/
namespace Nix.C18
open Nix.Units

/-- the SI prefixes and their decimal exponents (BIPM brochure; `u` stands for micro) -/
def siPrefixes : List (String × Int) :=
  [("Y", 24), ("Z", 21), ("E", 18), ("P", 15), ("T", 12), ("G", 9), ("M", 6), ("k", 3), ("h", 2), ("da", 1),
   ("d", -1), ("c", -2), ("m", -3), ("u", -6), ("n", -9), ("p", -12), ("f", -15), ("a", -18), ("z", -21), ("y", -24)]

/-- exponent of a prefix ("" = no prefix = 0) -/
def siExp (p : String) : Option Int :=
  if p.isEmpty then some 0 else (siPrefixes.find? fun e => e.1 == p).map (·.2)

/-- the specified decimal exponent of the factor from `p1 u^n` to `p2 u^n`: n · (exp p1 − exp p2) -/
def specExp (p1 p2 : String) (n : Int) : Option Int := do
  let e1 ← siExp p1
  let e2 ← siExp p2
  pure (n * (e1 - e2))

/-- the unit string written by a client: prefix ++ unit ++ "^" ++ power (power "" = none) -/
def mkUnit (p u n : String) : Str := p.toList ++ u.toList ++ (if n.isEmpty then [] else '^' :: n.toList)

end Nix.C18
