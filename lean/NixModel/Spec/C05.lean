import NixModel.Region
import NixModel.Spec.C07
/-
  C05 / C06 / C17 — what "the tagged region" is, stated directly on coordinates
  (no kernels, no index arithmetic): used by the theorems and, as a brute-force evaluator over a
  window of indices, by the driver to judge the implementation's answers.
-/
namespace Nix.C05
open Nix Scalar Nix.C07

variable {α : Type} [Scalar α]

/-- the axis a descriptor defines (coordinates in the descriptor's own unit) -/
def axisOf : DimDesc α → Axis α
  | .sampled si off _ => sampledAxis si off
  | .range ticks _ => rangeAxis ticks
  | .set n => countAxis n
  | .frame n _ => countAxis n

/-- membership of index k in the region [s, e] (inclusive) / [s, e) (exclusive) along axis a -/
def inRegion (a : Axis α) (rm : RangeMatch) (s e : α) (k : Nat) : Prop :=
  a.valid k ∧ s ≤ a.coord k ∧ (match rm with | .inclusive => a.coord k ≤ e | .exclusive => a.coord k < e)

instance (a : Axis α) (rm : RangeMatch) (s e : α) (k : Nat) : Decidable (inRegion a rm s e k) := by
  unfold inRegion; cases rm <;> infer_instance

/-- the point rule: k is the first index at or after s -/
def isFirstAtOrAfter (a : Axis α) (s : α) (k : Nat) : Prop :=
  a.valid k ∧ s ≤ a.coord k ∧ ∀ j, j < k → ¬ s ≤ a.coord j

/-- expected outcome along one dimension, by brute force over the window `[0, window)`:
    `some (offset, count)`, or `none` = out of bounds (empty, or reaching beyond `dataLen`).
    Returns `none` in the outer option when the window is too small to decide. -/
def specDim (a : Axis α) (dataLen window : Nat) (rm : RangeMatch) (s e : α) (point : Bool) :
    Option (Option (Nat × Nat)) :=
  let ks := (List.range window).filter fun k =>
    if point then decide (a.valid k ∧ s ≤ a.coord k) else decide (inRegion a rm s e k)
  if point then
    match ks.head? with
    | none => if decide (a.valid (window - 1)) then none else some none   -- nothing at or after s inside the window
    | some k => if k < dataLen then some (some (k, 1)) else some none
  else
    match ks.head?, ks.getLast? with
    | some lo, some hi =>
      if hi + 1 == window && decide (a.valid window) then none      -- region still open at the window edge
      else if hi < dataLen then some (some (lo, hi - lo + 1)) else some none
    | _, _ => some none

end Nix.C05
