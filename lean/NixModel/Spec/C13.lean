import NixModel.DimDesc
/-
  C13 — dimension descriptors: the property as a relation between what a client was told (which calls were accepted, with
  which arguments) and what the getters answer.

  `Shadow` is the client's bookkeeping: descriptors BY POSITION (index = position + 1), the array fields an alias mirrors.
  `Shadow.apply` is what an accepted call is supposed to do, `illegal` which calls must be refused, `rules` the relation that is
  evaluated on an observation (`Obs`) of the implementation, and — by the theorems of Props/C13.lean — holds of the model's
  observation after every history.  Nothing here consults the model state (`Arr`).
-/
namespace Nix.C13
open Nix Nix.DimDesc

variable {α : Type}

structure Shadow (α : Type) where
  rank : Nat
  numeric : Bool
  dims : List (Desc α) := []
  label : Option String := none
  unit : Option String := none
  data : List α := []
  ro : Bool := false
deriving Repr

/-- descriptor with index `i` (1-based) -/
def Shadow.get (s : Shadow α) (i : Nat) : Option (Desc α) := if i = 0 then none else s.dims[i - 1]?

def modifyAt (i : Nat) (f : Desc α → Desc α) (l : List (Desc α)) : List (Desc α) :=
  if i = 0 then l else l.modify (i - 1) f

def isAlias (d : Desc α) : Bool := match d.body with | .alias => true | _ => false

/-- the only descriptor is an alias (`DataArray::unit` then insists on an SI unit) -/
def soleAliasS : List (Desc α) → Bool
  | [d] => isAlias d
  | _ => false

/-- the column a column argument designates in the frame of the array's block -/
def resolveCol (env : Env α) : ColArg → Option Nat
  | .idx i => some i
  | .name s => colIndex s env.cols
  | .whole => none

section
variable [Scalar α]

/-- the calls that must be refused (illegal arguments), as a function of what the client knows -/
def illegal (env : Env α) (s : Shadow α) : Op α → Bool
  | .appendSet _ => false
  | .appendRange t _ u => t.isEmpty || !ascending t || (!u.isEmpty && !env.isSI u)
  | .appendSampled si _ u _ => !positive si || (!u.isEmpty && !env.isSI u)
  | .appendAlias => s.rank > 1 || !s.numeric || !s.dims.isEmpty ||
      (match s.unit with | some u => !(env.isSI u || env.isCompound u) | none => false)
  | .appendFrame f c => f != .own ||
      (match c with | .idx i => i ≥ env.cols.length | .name n => (colIndex n env.cols).isNone | .whole => false)
  | .deleteDims => false
  | .setLabel i v => (match s.get i with
      | none => true
      | some d => (match d.body with | .frame _ => true | _ => false) || v == some "")
  | .setUnit i v => (match s.get i with
      | none => true
      | some d => (match d.body with | .frame _ => true | .set _ => true | _ => false) ||
                  (match v with | some u => u.isEmpty || !env.isSI u | none => false))
  | .setInterval i v => (match s.get i with
      | none => true
      | some d => (match d.body with | .sampled _ _ => false | _ => true) || !positive v)
  | .setOffset i _ => (match s.get i with
      | none => true
      | some d => (match d.body with | .sampled _ _ => false | _ => true))
  | .setTicks i v => (match s.get i with
      | none => true
      | some d => (match d.body with | .range _ => false | .alias => false | _ => true) || !ascending v)
  | .setLabels i _ => (match s.get i with
      | none => true
      | some d => (match d.body with | .set _ => false | _ => true))
  | .arrLabel v => v == some ""
  | .arrUnit v => (match v with
      | none => false
      | some u => (deblank u).isEmpty ||
          (soleAliasS s.dims && !(env.isSI (deblank u) || env.isCompound (deblank u))))
  | .arrData _ => s.rank ≠ 1 || !s.numeric
  | .arrExtent sh => sh.length ≠ s.rank
  | .reopen _ => false

/-- what an accepted call does -/
def Shadow.apply (env : Env α) (s : Shadow α) : Op α → Shadow α
  | .appendSet l => { s with dims := s.dims ++ [{ body := .set (if l.isEmpty then none else some l) }] }
  | .appendRange t l u => { s with dims := s.dims ++ [{ label := optArg l, unit := optArg u, body := .range t }] }
  | .appendSampled si l u o =>
    { s with dims := s.dims ++ [{ label := optArg l, unit := optArg u,
                                  body := .sampled si (if Scalar.beq o Scalar.zero then none else some o) }] }
  | .appendAlias => { s with dims := s.dims ++ [{ body := .alias }] }
  | .appendFrame _ c => { s with dims := s.dims ++ [{ body := .frame (resolveCol env c) }] }
  | .deleteDims => { s with dims := [] }
  | .setLabel i v => (match s.get i with
      | some d => if isAlias d then { s with label := v } else { s with dims := modifyAt i (fun d => { d with label := v }) s.dims }
      | none => s)
  | .setUnit i v => (match s.get i with
      | some d => if isAlias d then { s with unit := v } else { s with dims := modifyAt i (fun d => { d with unit := v }) s.dims }
      | none => s)
  | .setInterval i v =>
    { s with dims := modifyAt i (fun d => match d.body with | .sampled _ off => { d with body := .sampled v off } | _ => d) s.dims }
  | .setOffset i v =>
    { s with dims := modifyAt i (fun d => match d.body with | .sampled si _ => { d with body := .sampled si v } | _ => d) s.dims }
  | .setTicks i v => (match s.get i with
      | some d => if isAlias d then { s with data := v.map env.conv }
                  else { s with dims := modifyAt i (fun d => { d with body := .range v }) s.dims }
      | none => s)
  | .setLabels i v => { s with dims := modifyAt i (fun d => { d with body := .set v }) s.dims }
  | .arrLabel v => { s with label := v }
  | .arrUnit v => { s with unit := v }
  | .arrData v => { s with data := v.map env.conv }
  | .arrExtent sh => (match sh with
      | [n] => { s with data := (s.data ++ List.replicate (n - s.data.length) Scalar.zero).take n }
      | _ => s)
  | .reopen r => { s with ro := r }

/-- the descriptor an append call is to add -/
def appendedDesc (env : Env α) : Op α → Option (Desc α)
  | .appendSet l => some { body := .set (if l.isEmpty then none else some l) }
  | .appendRange t l u => some { label := optArg l, unit := optArg u, body := .range t }
  | .appendSampled si l u o => some { label := optArg l, unit := optArg u,
                                      body := .sampled si (if Scalar.beq o Scalar.zero then none else some o) }
  | .appendAlias => some { body := .alias }
  | .appendFrame _ c => some { body := .frame (resolveCol env c) }
  | _ => none

/-- the bookkeeping after a call, given whether it was accepted; a read-only session changes nothing -/
def Shadow.next (env : Env α) (s : Shadow α) (op : Op α) (accepted : Bool) : Shadow α :=
  match op with
  | .reopen r => { s with ro := r }
  | _ => if s.ro || !accepted then s else s.apply env op

/-- the specification's own verdict on acceptance -/
def accepts (env : Env α) (s : Shadow α) (op : Op α) : Bool :=
  match op with
  | .reopen _ => true
  | _ => !s.ro && !illegal env s op

end

/-- what `dd_obs` reports: count, the indices `dimensions()` yields, the array fields, `getDimension(i)` for i = 0..count+1 -/
structure Obs (α : Type) where
  count : Nat
  indices : List Nat
  label : Option String
  unit : Option String
  data : List α
  gets : List (Option (Nat × View α))
deriving Repr, DecidableEq

/-- the getters of a descriptor the client expects, given the array fields -/
def viewD (env : Env α) (label unit : Option String) (data : List α) (d : Desc α) : View α :=
  match d.body with
  | .sampled si off => .sampled si off d.unit d.label
  | .range t => .range false t d.unit d.label
  | .alias => .range true data unit label
  | .set l => .set (l.getD []) d.label
  | .frame c => .frame env.frameName c (frameLabel env c) (frameUnit env c)

def Shadow.expect (env : Env α) (s : Shadow α) (i : Nat) : Option (Nat × View α) :=
  (s.get i).map fun d => (i, viewD env s.label s.unit s.data d)

section
variable [Scalar α] [DecidableEq α]

/-- every range descriptor that is not an alias has ascending ticks -/
def ticksOk : Option (Nat × View α) → Bool
  | some (_, .range false t _ _) => ascending t
  | _ => true

/-- every sampled descriptor has a positive interval -/
def intervalOk : Option (Nat × View α) → Bool
  | some (_, .sampled si _ _ _) => positive si
  | _ => true

/-- an alias shows the array's data, unit and label -/
def aliasOk (o : Obs α) : Option (Nat × View α) → Bool
  | some (_, .range true t u l) => t = o.data && u = o.unit && l = o.label
  | _ => true

/-- **C13.Rel** as named rules -/
def rules (env : Env α) (s : Shadow α) (o : Obs α) : List (String × Bool) :=
  let n := s.dims.length
  [ ("dimensionCount_is_number_of_descriptors", o.count = n),
    ("indices_are_1_to_n_in_append_order", o.indices = List.range' 1 n),
    ("getDimension_0_and_n_plus_1_are_refused", o.gets.length = n + 2 && o.gets[0]? = some none && o.gets[n + 1]? = some none),
    ("descriptor_reads_back_what_it_was_given", o.gets = (List.range (n + 2)).map (s.expect env)),
    ("range_ticks_ascending", o.gets.all ticksOk),
    ("sampling_interval_positive", o.gets.all intervalOk),
    ("alias_mirrors_array", o.gets.all (aliasOk o)),
    ("array_fields_read_back", o.label = s.label && o.unit = s.unit && (s.rank ≠ 1 || !s.numeric || o.data = s.data)) ]

def Rel (env : Env α) (s : Shadow α) (o : Obs α) : Bool := (rules env s o).all (·.2)

end

end Nix.C13

/-! ### the model seen through the same glasses (used by the driver for the DIFF verdict and by the theorems) -/
namespace Nix.C13
open Nix Nix.DimDesc
variable {α : Type}

/-- what `dd_obs` reports, computed on the model -/
def observe (env : Env α) (a : Arr α) : Obs α :=
  { count := a.count, indices := dimensionIndices a, label := a.label, unit := a.unit, data := a.data,
    gets := (List.range (a.count + 2)).map (getDimension env a) }

/-- forget the link names: descriptors by position -/
def toShadow (a : Arr α) : Shadow α :=
  { rank := a.rank, numeric := a.numeric, dims := a.dims.map (·.d), label := a.label, unit := a.unit, data := a.data, ro := a.ro }

/-- the client's bookkeeping over a history, with the specification's own verdict on acceptance -/
def shadowRun [Scalar α] (env : Env α) (s : Shadow α) (ops : List (Op α)) : Shadow α :=
  ops.foldl (fun s op => s.next env op (accepts env s op)) s

end Nix.C13
