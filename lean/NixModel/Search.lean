/-
  Search.lean — model of the tree searches and back-reference queries of nix (C20).

  Transcribed statement by statement from
    src/Section.cpp   findSections / addChildrenIfNotMaxDepth / findRelated / findDownstream / findAmongParents /
                      findSideways / tree_depth / inheritedProperties / referring*
    src/Source.cpp    findSources / parentSource / referring*
    src/File.cpp      findSections            src/Block.cpp   findSources
    include/nix/util/filter.hpp               (AcceptAll, IdFilter, IdsFilter, NameFilter, TypeFilter, MetadataFilter, SourceFilter)
    backend/hdf5/EntityWithMetadataHDF5.cpp   metadata()  (the linked group is looked up again with File::findSections(IdFilter))
    backend/hdf5/SectionHDF5.cpp              link()      (same)
    backend/hdf5/SourceHDF5.cpp + h5x/H5Group.cpp   hasSource(name_or_id) = findGroupByNameOrAttribute
    backend/hdf5/EntityWithSourcesHDF5.cpp    hasSource(id) = a link of that name in the "sources" group

  Input of the model = the entity forest as the public getters expose it (sections with properties and link, sources,
  which entity names which section as metadata / which sources), i.e. what the canonical dump prints.
  Core Lean only: the driver links this file.
-/
namespace Nix.Search

/-- an ordered tree; `children` in index order (= the order `sections()` / `sources()` enumerate) -/
inductive Tree (α : Type) where
  | node (val : α) (children : List (Tree α))

namespace Tree
variable {α : Type}

def val : Tree α → α | node v _ => v
def children : Tree α → List (Tree α) | node _ cs => cs

mutual
/-- number of nodes -/
def size : Tree α → Nat
  | node _ cs => 1 + sizeL cs
def sizeL : List (Tree α) → Nat
  | [] => 0
  | t :: ts => size t + sizeL ts
end

mutual
/-- number of levels (a leaf has height 1) -/
def height : Tree α → Nat
  | node _ cs => 1 + heightL cs
def heightL : List (Tree α) → Nat
  | [] => 0
  | t :: ts => max (height t) (heightL ts)
end

mutual
/-- every node of the tree, parents before children (the order of the canonical dump) -/
def nodes : Tree α → List (Tree α)
  | node v cs => node v cs :: nodesL cs
def nodesL : List (Tree α) → List (Tree α)
  | [] => []
  | t :: ts => nodes t ++ nodesL ts
end

mutual
def decEqTree [DecidableEq α] : (a b : Tree α) → Decidable (a = b)
  | node v cs, node v' cs' =>
    if hv : v = v' then
      match decEqForest cs cs' with
      | isTrue hc => isTrue (by rw [hv, hc])
      | isFalse hc => isFalse (by intro h; cases h; exact hc rfl)
    else isFalse (by intro h; cases h; exact hv rfl)
def decEqForest [DecidableEq α] : (a b : List (Tree α)) → Decidable (a = b)
  | [], [] => isTrue rfl
  | [], _ :: _ => isFalse (by intro h; cases h)
  | _ :: _, [] => isFalse (by intro h; cases h)
  | x :: xs, y :: ys =>
    match decEqTree x y with
    | isFalse h1 => isFalse (by intro h; cases h; exact h1 rfl)
    | isTrue h1 =>
      match decEqForest xs ys with
      | isTrue h2 => isTrue (by rw [h1, h2])
      | isFalse h2 => isFalse (by intro h; cases h; exact h2 rfl)
end
instance [DecidableEq α] : DecidableEq (Tree α) := decEqTree

theorem size_eq (t : Tree α) : t.size = 1 + sizeL t.children := by cases t; simp [size, children]
theorem sizeL_append (a b : List (Tree α)) : sizeL (a ++ b) = sizeL a + sizeL b := by
  induction a with
  | nil => simp [sizeL]
  | cons t ts ih => simp [sizeL, ih]; omega

end Tree
open Tree

variable {α : Type}

/-! ### the work list of `Section::findSections` / `Source::findSources` -/

def qsize (q : List (Tree α × Nat)) : Nat := sizeL (q.map (·.1))

theorem qsize_append (a b : List (Tree α × Nat)) : qsize (a ++ b) = qsize a + qsize b := by
  simp [qsize, sizeL_append]

theorem qsize_children (t : Tree α) (d : Nat) : qsize (t.children.map (·, d)) = sizeL t.children := by
  simp [qsize, Function.comp_def]

/-- the `while (todo.size() > 0)` loop: pop the front entry, keep it if the filter accepts it, append its children with
    depth + 1 behind everything already queued iff its depth is below `maxd` (`addChildrenIfNotMaxDepth`) -/
def bfsQ (f : Tree α → Bool) (maxd : Nat) : List (Tree α × Nat) → List (Tree α)
  | [] => []
  | (t, d) :: q =>
      let rest := bfsQ f maxd (q ++ (if d < maxd then t.children.map (·, d + 1) else []))
      if f t then t :: rest else rest
termination_by q => qsize q
decreasing_by
  simp only [qsize_append]
  have h1 : qsize ((t, d) :: q) = t.size + qsize q := by simp [qsize, sizeL]
  rw [h1, size_eq]
  split
  · rw [qsize_children]; omega
  · simp [qsize, sizeL]; omega

def tag (d : Nat) (ts : List (Tree α)) : List (Tree α × Nat) := ts.map (·, d)

/-- `size_t max_depth = std::numeric_limits<size_t>::max()` -/
def unlimited : Nat := 2 ^ 64 - 1

/-- `Section::findSections(filter, max_depth)`: the start node is not a candidate; its children enter at depth 1 -/
def findSections (f : Tree α → Bool) (maxd : Nat) (t : Tree α) : List (Tree α) :=
  bfsQ f maxd (if 0 < maxd then tag 1 t.children else [])

/-- `Source::findSources(filter, max_depth)`: the start node enters at depth 0 -/
def findSources (f : Tree α → Bool) (maxd : Nat) (t : Tree α) : List (Tree α) :=
  bfsQ f maxd [(t, 0)]

/-- `File::findSections(filter, max_depth)`: nothing for depth 0, else per root: the root if accepted, then its search
    with depth - 1 -/
def fileFindSections (f : Tree α → Bool) (maxd : Nat) (roots : List (Tree α)) : List (Tree α) :=
  if maxd = 0 then [] else
  roots.flatMap fun r => (if f r then [r] else []) ++ findSections f (maxd - 1) r

/-- `Block::findSources(filter, max_depth)`: the searches of the root sources one after the other -/
def blockFindSources (f : Tree α → Bool) (maxd : Nat) (roots : List (Tree α)) : List (Tree α) :=
  roots.flatMap (findSources f maxd)

/-! ### findRelated -/

mutual
/-- `Section::tree_depth()` -/
def treeDepth : Tree α → Nat
  | node _ cs => treeDepthL cs
/-- 0 without children, else 1 + the maximum over the children -/
def treeDepthL : List (Tree α) → Nat
  | [] => 0
  | t :: ts => max (treeDepth t + 1) (treeDepthL ts)
end

/-- the loop of `findDownstream`: `k` iterations are left, the next one searches with depth `d` -/
def downLoop (f : Tree α → Bool) (t : Tree α) : Nat → Nat → List (Tree α)
  | 0, _ => []
  | k + 1, d =>
    let r := findSections f d t
    if r.isEmpty then downLoop f t k (d + 1) else r

/-- `Section::findDownstream`: `actual_depth` runs from 1 to `tree_depth()` while nothing has been found -/
def findDownstream (f : Tree α → Bool) (t : Tree α) : List (Tree α) :=
  downLoop f t (treeDepth t) 1

/-- `Section::findAmongParents`; `anc` = the chain of `parent()` handles, nearest first -/
def findAmongParents (f : Tree α → Bool) : List (Tree α) → List (Tree α)
  | [] => []
  | p :: rest => if f p then [p] else findAmongParents f rest

/-- `Section::findSideways(filter, caller_id)`; `isCaller` = "has the caller's id" -/
def findSideways (f : Tree α → Bool) (isCaller : Tree α → Bool) : List (Tree α) → List (Tree α)
  | [] => []
  | p :: rest =>
    let r := findSections f 1 p
    if r.isEmpty then findSideways f isCaller rest else r.filter (fun s => !isCaller s)

/-- `Section::findRelated(filter)` on the section `t` whose parent chain is `anc` -/
def findRelated (f : Tree α → Bool) (isMe : Tree α → Bool) (anc : List (Tree α)) (t : Tree α) : List (Tree α) :=
  let results := findDownstream f t
  let results := results.filter (fun s => !isMe s)                          -- erase_section_with_id
  let results := if results.isEmpty then findAmongParents f anc else results
  let results := results.filter (fun s => !isMe s)
  if results.isEmpty then findSideways f isMe anc else results

/-! ### the entity forest -/

structure PropInfo where
  id : String
  name : String
deriving Repr, BEq, DecidableEq

structure SecInfo where
  id : String
  name : String
  type : String
  link : Option String := none          -- id of the section the "link" group points to
  props : List PropInfo := []
deriving Repr, BEq, DecidableEq

structure SrcInfo where
  id : String
  name : String
  type : String
  md : Option String := none            -- id of the section the "metadata" group points to
deriving Repr, BEq, DecidableEq

/-- a data array, tag or multi tag as far as the back-reference queries look at it -/
structure Holder where
  id : String
  md : Option String := none
  srcs : List String := []               -- names of the links in its "sources" group (= source ids)
deriving Repr, BEq, DecidableEq

structure Blk where
  id : String
  md : Option String := none
  das : List Holder := []
  tags : List Holder := []
  mtags : List Holder := []
  sources : List (Tree SrcInfo) := []

structure World where
  blocks : List Blk := []
  sections : List (Tree SecInfo) := []

abbrev Sec := Tree SecInfo
abbrev Src := Tree SrcInfo

/-! ### filters (include/nix/util/filter.hpp) -/

/-- `util::looksLikeUUID` -/
def looksLikeUUID (s : String) : Bool :=
  let cs := s.toList
  cs.length == 36 && cs[8]? == some '-' && cs[13]? == some '-' && cs[18]? == some '-' && cs[23]? == some '-'

/-- the filters a client can pass to a search; `type` stands for `TypeFilter(str)` with a pattern free of regex
    metacharacters (then `regex_match` is string equality), `nameType` for a client lambda -/
inductive Flt
  | all
  | id (s : String)
  | ids (l : List String)
  | name (s : String)
  | type (s : String)
  | nameType (n t : String)
deriving Repr

def Flt.sec : Flt → Sec → Bool
  | .all, _ => true
  | .id s, e => e.val.id == s
  | .ids l, e => l.contains e.val.id
  | .name s, e => e.val.name == s
  | .type s, e => e.val.type == s
  | .nameType n t, e => e.val.name == n && e.val.type == t

def Flt.src : Flt → Src → Bool
  | .all, _ => true
  | .id s, e => e.val.id == s
  | .ids l, e => l.contains e.val.id
  | .name s, e => e.val.name == s
  | .type s, e => e.val.type == s
  | .nameType n t, e => e.val.name == n && e.val.type == t

/-! ### links are resolved by a search (EntityWithMetadataHDF5::metadata(), SectionHDF5::link()) -/

/-- `File(file()).findSections(util::IdFilter<Section>(id))` … `found.front()` -/
def resolveSection (w : World) (id : String) : Option Sec :=
  (fileFindSections (fun s => s.val.id == id) unlimited w.sections).head?

/-- `MetadataFilter(sec_id)(e)`: `if (e.metadata()) return e.metadata().id() == sec_id; else return false;` -/
def metaFilter (w : World) (secId : String) (md : Option String) : Bool :=
  match md.bind (resolveSection w) with
  | some s => s.val.id == secId
  | none => false

/-! ### back references of a section -/

def secReferringBlocks (w : World) (secId : String) : List Blk :=
  w.blocks.filter fun b => metaFilter w secId b.md

/-- `referringDataArrays(const Block &b)` with an initialised block -/
def secReferringDataArraysIn (w : World) (secId : String) (b : Blk) : List Holder :=
  b.das.filter fun h => metaFilter w secId h.md
def secReferringTagsIn (w : World) (secId : String) (b : Blk) : List Holder :=
  b.tags.filter fun h => metaFilter w secId h.md
def secReferringMultiTagsIn (w : World) (secId : String) (b : Blk) : List Holder :=
  b.mtags.filter fun h => metaFilter w secId h.md
/-- `b.findSources(MetadataFilter<Source>(id()))` with the default depth -/
def secReferringSourcesIn (w : World) (secId : String) (b : Blk) : List Src :=
  blockFindSources (fun s => metaFilter w secId s.val.md) unlimited b.sources

/-- the overloads without argument: `for (auto b : f.blocks()) … insert(end)` -/
def secReferringDataArrays (w : World) (secId : String) : List Holder :=
  w.blocks.flatMap (secReferringDataArraysIn w secId)
def secReferringTags (w : World) (secId : String) : List Holder :=
  w.blocks.flatMap (secReferringTagsIn w secId)
def secReferringMultiTags (w : World) (secId : String) : List Holder :=
  w.blocks.flatMap (secReferringMultiTagsIn w secId)
def secReferringSources (w : World) (secId : String) : List Src :=
  w.blocks.flatMap (secReferringSourcesIn w secId)

/-! ### back references of a source (all within its block) -/

/-- `SourceFilter(src_id)(e)` on an entity with sources: a link named `src_id` in its "sources" group -/
def srcFilter (srcId : String) (h : Holder) : Bool := h.srcs.contains srcId

def srcReferringDataArrays (b : Blk) (srcId : String) : List Holder := b.das.filter (srcFilter srcId)
def srcReferringTags (b : Blk) (srcId : String) : List Holder := b.tags.filter (srcFilter srcId)
def srcReferringMultiTags (b : Blk) (srcId : String) : List Holder := b.mtags.filter (srcFilter srcId)

/-- `Source::hasSource(name_or_id)` = `findGroupByNameOrAttribute("entity_id", key)`: a child of that NAME, or — when the key
    looks like a UUID — a child with that id -/
def hasSourceKey (key : String) (s : Src) : Bool :=
  s.children.any (fun c => c.val.name == key) || (looksLikeUUID key && s.children.any (fun c => c.val.id == key))

/-- `!src.sources(util::IdFilter<Source>(my_id)).empty()`: a direct child with that id -/
def hasChildWithId (id : String) (s : Src) : Bool := s.children.any (fun c => c.val.id == id)

/-- `Source::parentSource()`: the first hit of `b.findSources(<has a direct child with id()>)`, or a null source -/
def parentSource (b : Blk) (srcId : String) : Option Src :=
  (blockFindSources (hasChildWithId srcId) unlimited b.sources).head?

/-- `Source::parentSource()` as it was before fix S1: `b.findSources(SourceFilter<Source>(id()))`, i.e. by `hasSource(name_or_id)` -/
def parentSourceByKey (b : Blk) (srcId : String) : Option Src :=
  (blockFindSources (hasSourceKey srcId) unlimited b.sources).head?

/-! ### inherited properties -/

/-- `copy_if(linked …, back_inserter(own), [&own](p){ return find_if(own …, same name) == own.end(); })`:
    the predicate looks at `own` as it has grown so far -/
def copyUnshadowed (own linked : List PropInfo) : List PropInfo :=
  linked.foldl (fun acc p => if acc.any (fun o => p.name == o.name) then acc else acc ++ [p]) own

/-- `Section::inheritedProperties()` -/
def inheritedProperties (w : World) (s : SecInfo) : List PropInfo :=
  match s.link.bind (resolveSection w) with
  | none => s.props
  | some l => copyUnshadowed s.props l.val.props

end Nix.Search
