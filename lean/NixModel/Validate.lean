import NixModel.Scalar
import NixModel.Units
/-
  Model of the nix validator (C19):
    include/nix/valid/conditions.hpp   must / should / could   (incl. "getter threw ⇒ condition failed")
    src/valid/validator.cpp            validator(list of conditions)
    src/valid/result.cpp               Result::concat
    include/nix/valid/checks.hpp       notEmpty, notFalse, isEqual, notSmaller, isGreater, isSorted, isValidUnit, isAtomicUnit
    src/valid/checks.cpp               tagUnitsMatchRefsUnits, dimTicksMatchData, dimLabelsMatchData, dimDataFrameTicksMatchData
    src/valid/validate.cpp             the rule table of every validate(…) overload
    src/File.cpp                       File::validate — which entities are visited, in which order

  Input of the model = `FileDesc`: what the public getters answer for every entity the walk reaches.
  A getter that is called inside the try-block of a condition has type `Got _` (it may have thrown);
  a getter that the C++ (also) evaluates OUTSIDE a try-block (`id()` and `name()` in the lambda prologue,
  `dataExtent()`, `tag.units()` when the rule table is built, everything the check functors and the walk
  call) is a plain value: if such a getter throws, `File::validate` itself throws and there is no Result
  (the driver then only checks that the implementation threw, too).

  Conditions are evaluated eagerly here (the getters are pure values), which is the same function as the
  C++ closures because a failed condition discards its sub-results.
-/
namespace Nix.Validate
open Nix

/-- outcome of a getter call inside a condition's try-block -/
inductive Got (α : Type) where
  | threw
  | val (a : α)
deriving DecidableEq, Repr

/-- `!(errOccured || !check(val))` -/
def Got.passes {α : Type} (g : Got α) (check : α → Bool) : Bool :=
  match g with
  | .threw => false
  | .val a => check a

/-- message classes: one per message text of validate.cpp -/
inductive Cls
  | name | type | id | date
  | dtype | ndims | ticksN | labelsN | rowsN | unitSI | noOrigin | noPoly
  | pos | positions | tagUnit | refUnits
  | propNoUnit
  | index | noTicks | dimType | dimUnit | unsorted | interval | offsetUnit
  | featData | linkType
deriving DecidableEq, Repr

def Cls.code : Cls → String
  | .name => "name" | .type => "type" | .id => "id" | .date => "date"
  | .dtype => "dtype" | .ndims => "ndims" | .ticksN => "ticksN" | .labelsN => "labelsN" | .rowsN => "rowsN"
  | .unitSI => "unitSI" | .noOrigin => "noOrigin" | .noPoly => "noPoly"
  | .pos => "pos" | .positions => "positions" | .tagUnit => "tagUnit" | .refUnits => "refUnits"
  | .propNoUnit => "propNoUnit"
  | .index => "index" | .noTicks => "noTicks" | .dimType => "dimType" | .dimUnit => "dimUnit"
  | .unsorted => "unsorted" | .interval => "interval" | .offsetUnit => "offsetUnit"
  | .featData => "featData" | .linkType => "linkType"

/-- `valid::Message` without the text: the id the message is attributed to and its class -/
structure Msg where
  id : String
  cls : Cls
deriving DecidableEq, Repr

/-- `valid::Result` -/
structure Result where
  errors : List Msg
  warnings : List Msg
deriving DecidableEq, Repr

def Result.empty : Result := ⟨[], []⟩

/-- `Result::concat` -/
def Result.concat (a b : Result) : Result := ⟨a.errors ++ b.errors, a.warnings ++ b.warnings⟩

/-- `validator(li)`: `for (sub : li) result = result.concat(sub())` -/
def validator (li : List Result) : Result := li.foldl Result.concat Result.empty

/-- `must(parent, getter, check, msg, subs)`; `pass` = the getter did not throw and the check holds -/
def must (pass : Bool) (id : String) (cls : Cls) (subs : List Result := []) : Result :=
  if !pass then ⟨[⟨id, cls⟩], []⟩ else validator subs

/-- `should(…)`: a failure is a warning -/
def should (pass : Bool) (id : String) (cls : Cls) (subs : List Result := []) : Result :=
  if !pass then ⟨[], [⟨id, cls⟩]⟩ else validator subs

/-- `could(…)`: a failure is silent -/
def could (pass : Bool) (subs : List Result := []) : Result :=
  if !pass then Result.empty else validator subs

-- ---------------------------------------------------------------------------------------------------
-- checks
-- ---------------------------------------------------------------------------------------------------

/-- `isValidUnit()(string)`: `isSIUnit(u) || isCompoundSIUnit(u)` -/
def isValidUnit (u : String) : Bool := Units.isSIUnit u.toList || Units.isCompoundSIUnit u.toList
/-- `isAtomicUnit()(string)`: `util::isSIUnit(u)` (sic) -/
def isAtomicUnit (u : String) : Bool := Units.isSIUnit u.toList
/-- `isUnit::operator()(optional<string>)`: `u && pred(*u)` -/
def optUnit (pred : String → Bool) : Option String → Bool
  | none => false
  | some u => pred u

def isScalable (a b : String) : Bool := Units.isScalable a.toList b.toList

variable {α : Type} [Scalar α]

/-- `std::is_sorted(begin, end)`: no element is smaller than its predecessor -/
def isSortedFrom (prev : α) : List α → Bool
  | [] => true
  | x :: xs => if x < prev then false else isSortedFrom x xs

def isSorted : List α → Bool
  | [] => true
  | x :: xs => isSortedFrom x xs

-- ---------------------------------------------------------------------------------------------------
-- descriptions
-- ---------------------------------------------------------------------------------------------------

/-- what validate_entity / validate_named_entity read (Block, Source, Section and the base part of
    DataArray, Tag, MultiTag) -/
structure Named where
  id : String               -- also evaluated outside the try-block (message attribution)
  name : String             -- also evaluated outside the try-block (`getEntityName`)
  type : Got String
  created : Got Int         -- createdAt() as time_t
deriving DecidableEq, Repr

inductive DimKind (α : Type) where
  | range (ticks : List α) (unit : Got (Option String))
  | sampled (interval : Got α) (offsetSet : Got Bool) (unit : Got (Option String))
  | set (labels : Nat)
  | frame (rows : Nat) (colUnit : Option String)   -- size(); unit() of the column when a column index is set

structure DimDesc (α : Type) where
  index : Nat               -- Dimension::index()
  kind : DimKind α

structure ArrayDesc (α : Type) where
  ent : Named
  dtypeSet : Got Bool       -- dataType() != DataType::Nothing
  dimCount : Got Nat        -- dimensionCount()
  shape : List Nat          -- dataExtent()
  dims : List (DimDesc α)   -- dimensions()
  unit : Got (Option String)
  polyN : Got Nat           -- polynomCoefficients().size()
  originSet : Got Bool      -- expansionOrigin() is set

structure FeatureDesc where
  id : String
  created : Got Int
  dataSet : Got Bool        -- data() is a valid handle
  linkType : Got Int        -- the enumerator as an integer
deriving DecidableEq, Repr

/-- the part Tag and MultiTag share.  `refs`: for every referenced array the units of its dimensions
    (`getDimensionsUnits(ref)`, modelled below as `resolveRefs` over the arrays of the tag's block) -/
structure TagDesc where
  ent : Named
  isMulti : Bool
  posSet : Got Bool         -- Tag: !position().empty()    MultiTag: positions() is a valid handle
  units : List String       -- units(), evaluated when the rule table is built
  refs : Got (List (List String))
  features : List FeatureDesc
deriving DecidableEq, Repr

structure PropDesc where
  id : String
  name : String
  created : Got Int
  valueCount : Got Nat
  unit : Got (Option String)
deriving DecidableEq, Repr

structure SectionDesc where
  ent : Named
  props : List PropDesc
deriving DecidableEq, Repr

structure BlockDesc (α : Type) where
  ent : Named
  arrays : List (ArrayDesc α)
  mtags : List TagDesc
  tags : List TagDesc
  sources : List Named      -- block.findSources()

structure FileDesc (α : Type) where
  blocks : List (BlockDesc α)
  sections : List SectionDesc   -- file.findSections()

-- ---------------------------------------------------------------------------------------------------
-- src/valid/helper.cpp getDimensionsUnits, src/util/dataAccess.cpp getDimensionUnit
-- ---------------------------------------------------------------------------------------------------

/-- `unit().value_or("none")` -/
def unitOrNone (u : Got (Option String)) : String :=
  match u with
  | .val (some s) => s
  | _ => "none"

/-- `util::getDimensionUnit(dim)` -/
def dimensionUnit (d : DimDesc α) : String :=
  match d.kind with
  | .set _ => "none"
  | .frame _ colUnit =>
    match colUnit with                       -- unit = "none"; if (columnIndex()) unit = df_dim.unit(); if (unit.empty()) unit = "none";
    | some u => if u.isEmpty then "none" else u
    | none => "none"
  | .sampled _ _ unit => unitOrNone unit
  | .range _ unit => unitOrNone unit

/-- `valid::getDimensionsUnits(darray)` -/
def getDimensionsUnits (a : ArrayDesc α) : List String := a.dims.map dimensionUnit

/-- what `references()` hands to `tagUnitsMatchRefsUnits`, seen through `getDimensionsUnits`: the referenced arrays are
    arrays of the tag's block, named by id -/
def resolveRefs (arrays : List (ArrayDesc α)) (ids : List String) : List (List String) :=
  ids.map fun i =>
    match arrays.find? (·.ent.id == i) with
    | some a => getDimensionsUnits a
    | none => []

-- ---------------------------------------------------------------------------------------------------
-- check functors of src/valid/checks.cpp
-- ---------------------------------------------------------------------------------------------------

/-- one pass of the inner loop of `tagUnitsMatchRefsUnits` over the tag's units, `i` = loop counter -/
def unitsLoop (dimsUnits : List String) : List String → Nat → Bool → Bool
  | [], _, m => m
  | tu :: rest, i, m =>
    let m' :=
      match dimsUnits[i]? with                                   -- if (i < dims_units.size())
      | some du =>
        if du != "none" then
          if !tu.isEmpty && tu != "none" then m && isScalable tu du else m
        else m
      | none => m && (!tu.isEmpty || tu != "none")
    unitsLoop dimsUnits rest (i + 1) m'

/-- the outer loop over the references, with its `if (!match) break;` -/
def refsLoop (units : List String) : List (List String) → Bool → Bool
  | [], m => m
  | ref :: rest, m =>
    let m' := unitsLoop ref units 0 m
    if !m' then m' else refsLoop units rest m'

/-- `tagUnitsMatchRefsUnits(units)(references)` -/
def tagUnitsMatchRefsUnits (units : List String) (refs : List (List String)) : Bool :=
  refsLoop units refs true

/-- the version of the inner loop on the pinned tree (before the `fix:` for D19): `match` is overwritten -/
def unitsLoopPinned (dimsUnits : List String) : List String → Nat → Bool → Bool
  | [], _, m => m
  | tu :: rest, i, m =>
    let m' :=
      match dimsUnits[i]? with
      | some du =>
        if du != "none" then
          if !tu.isEmpty && tu != "none" then isScalable tu du else m
        else m
      | none => (!tu.isEmpty || tu != "none")
    unitsLoopPinned dimsUnits rest (i + 1) m'

def refsLoopPinned (units : List String) : List (List String) → Bool → Bool
  | [], m => m
  | ref :: rest, m =>
    let m' := unitsLoopPinned ref units 0 m
    if !m' then m' else refsLoopPinned units rest m'

/-- the three loops `while (!mismatch && it != dims.end())` share their shape: `probe d n` says whether
    dimension `d` mismatches a data dimension of length `n` (`none` = the dimension is of another type).
    Returns `!mismatch`. -/
def dimsLoop (probe : DimDesc α → Option (Nat → Bool)) (shape : List Nat) : List (DimDesc α) → Bool
  | [] => true
  | d :: ds =>
    match probe d with
    | none => dimsLoop probe shape ds
    | some mism =>
      -- ndsize_t dimIndex = index() - 1  (unsigned: index 0 wraps to 2^64-1, which is ≥ any rank)
      if d.index = 0 then true else
      match shape[d.index - 1]? with
      | none => true                                             -- if (dimIndex >= extent.size()) break;
      | some n => if mism n then false else dimsLoop probe shape ds

def probeTicks (d : DimDesc α) : Option (Nat → Bool) :=
  match d.kind with
  | .range ticks _ => some fun n => !(ticks.length == n)
  | _ => none
def probeLabels (d : DimDesc α) : Option (Nat → Bool) :=
  match d.kind with
  | .set labels => some fun n => decide (labels > 0) && !(labels == n)
  | _ => none
def probeRows (d : DimDesc α) : Option (Nat → Bool) :=
  match d.kind with
  | .frame rows _ => some fun n => !(rows == n)
  | _ => none

def dimTicksMatchData (shape : List Nat) (dims : List (DimDesc α)) : Bool := dimsLoop probeTicks shape dims
def dimLabelsMatchData (shape : List Nat) (dims : List (DimDesc α)) : Bool := dimsLoop probeLabels shape dims
def dimDataFrameTicksMatchData (shape : List Nat) (dims : List (DimDesc α)) : Bool := dimsLoop probeRows shape dims

-- ---------------------------------------------------------------------------------------------------
-- rule tables of src/valid/validate.cpp
-- ---------------------------------------------------------------------------------------------------

def notEmptyS (s : String) : Bool := !s.isEmpty

/-- `validate_entity` -/
def validateEntity (id : String) (created : Got Int) : Result :=
  validator [
    must (notEmptyS id) id .id,
    must (created.passes (· != 0)) id .date ]

/-- `validate_named_entity` (= validate_entity_with_metadata = validate_entity_with_sources):
    `result.concat(result_base)` -/
def validateNamed (e : Named) : Result :=
  let resultBase := validateEntity e.id e.created
  let result := validator [
    must (notEmptyS e.name) e.id .name,
    must (e.type.passes notEmptyS) e.id .type ]
  result.concat resultBase

/-- `validate(const DataArray &)` -/
def validateArray (a : ArrayDesc α) : Result :=
  let id := a.ent.id
  let resultBase := validateNamed a.ent
  let result := validator [
    must (a.dtypeSet.passes fun b => b) id .dtype,
    must (a.dimCount.passes (a.shape.length == ·)) id .ndims [
      could (!a.dims.isEmpty) [
        must (dimTicksMatchData a.shape a.dims) id .ticksN,
        must (dimLabelsMatchData a.shape a.dims) id .labelsN,
        must (dimDataFrameTicksMatchData a.shape a.dims) id .rowsN ] ],
    could (a.unit.passes Option.isSome) [
      should (a.unit.passes (optUnit isValidUnit)) id .unitSI ],
    could (a.polyN.passes (· != 0)) [
      should (a.originSet.passes fun b => b) id .noOrigin ],
    could (a.originSet.passes fun b => b) [
      should (a.polyN.passes (· != 0)) id .noPoly ] ]
  result.concat resultBase

/-- `validate(const Tag &)` / `validate(const MultiTag &)`: the same table up to the first rule's getter and text -/
def validateTag (t : TagDesc) : Result :=
  let id := t.ent.id
  let resultBase := validateNamed t.ent
  let result := validator [
    must (t.posSet.passes fun b => b) id (if t.isMulti then .positions else .pos),
    could (!t.units.isEmpty) [
      must (t.units.all isValidUnit) id .tagUnit,
      must (t.refs.passes (tagUnitsMatchRefsUnits t.units)) id .refUnits ] ]
  result.concat resultBase

/-- `validate(const Property &)` -/
def validateProp (p : PropDesc) : Result :=
  let resultBase := validateEntity p.id p.created
  let result := validator [
    must (notEmptyS p.name) p.id .name,
    could (p.valueCount.passes (· != 0)) [
      should (p.unit.passes Option.isSome) p.id .propNoUnit ],
    could (p.unit.passes Option.isSome) [
      must (p.unit.passes (optUnit isValidUnit)) p.id .unitSI ] ]
  result.concat resultBase

/-- dimensions have no `id()`: `ID<false>::get` -/
def dimId : String := "unknown"

/-- `validate(const RangeDimension &)` -/
def validateRange (index : Nat) (ticks : List α) (unit : Got (Option String)) : Result :=
  validator [
    must (decide (index ≥ 1)) dimId .index,
    must (!ticks.isEmpty) dimId .noTicks,
    must true dimId .dimType,
    could (unit.passes Option.isSome) [
      must (unit.passes (optUnit isAtomicUnit)) dimId .dimUnit ],
    must (isSorted ticks) dimId .unsorted ]

/-- `validate(const SampledDimension &)` -/
def validateSampled (index : Nat) (interval : Got α) (offsetSet : Got Bool) (unit : Got (Option String)) : Result :=
  validator [
    must (decide (index ≥ 1)) dimId .index,
    must (interval.passes fun si => decide (Scalar.zero < si)) dimId .interval,
    must true dimId .dimType,
    could (offsetSet.passes fun b => b) [
      should (unit.passes (optUnit isAtomicUnit)) dimId .offsetUnit ],
    could (unit.passes Option.isSome) [
      must (unit.passes (optUnit isAtomicUnit)) dimId .dimUnit ] ]

/-- `validate(const SetDimension &)` -/
def validateSet (index : Nat) : Result :=
  validator [
    must (decide (index ≥ 1)) dimId .index,
    must true dimId .dimType ]

/-- the three `if (dim.dimensionType() == …)` of the walk: data-frame dimensions are not validated -/
def validateDim (d : DimDesc α) : Result :=
  match d.kind with
  | .range ticks unit => validateRange d.index ticks unit
  | .set _ => validateSet d.index
  | .sampled si off unit => validateSampled d.index si off unit
  | .frame _ _ => Result.empty

/-- `validate(const Feature &)`; `notSmaller(0)` on the enumerator -/
def validateFeature (f : FeatureDesc) : Result :=
  let resultBase := validateEntity f.id f.created
  let result := validator [
    must (f.dataSet.passes fun b => b) f.id .featData,
    must (f.linkType.passes fun l => decide (l ≥ 0)) f.id .linkType ]
  result.concat resultBase

-- ---------------------------------------------------------------------------------------------------
-- File::validate
-- ---------------------------------------------------------------------------------------------------

def walkTag (r : Result) (t : TagDesc) : Result :=
  t.features.foldl (fun r f => r.concat (validateFeature f)) (r.concat (validateTag t))

def walkArray (r : Result) (a : ArrayDesc α) : Result :=
  a.dims.foldl (fun r d => r.concat (validateDim d)) (r.concat (validateArray a))

def walkBlock (r : Result) (b : BlockDesc α) : Result :=
  let r := r.concat (validateNamed b.ent)
  let r := b.arrays.foldl walkArray r
  let r := b.mtags.foldl walkTag r
  let r := b.tags.foldl walkTag r
  b.sources.foldl (fun r s => r.concat (validateNamed s)) r

def walkSection (r : Result) (s : SectionDesc) : Result :=
  s.props.foldl (fun r p => r.concat (validateProp p)) (r.concat (validateNamed s.ent))

/-- `File::validate()` -/
def validateFile (d : FileDesc α) : Result :=
  let r := d.blocks.foldl walkBlock Result.empty
  d.sections.foldl walkSection r

end Nix.Validate
