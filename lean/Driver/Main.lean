import NixModel.Drive.Common
import NixModel.Drive.Version
import NixModel.Drive.State
import NixModel.Drive.Index
import NixModel.Drive.Units
import NixModel.Drive.Region
import NixModel.Drive.Array
import NixModel.Drive.Store
import NixModel.Drive.Modes
import NixModel.Drive.Crash
import NixModel.Drive.Ids
import NixModel.Drive.Props
import NixModel.Drive.Frame
import NixModel.Drive.Search
import NixModel.Drive.Valid
import NixModel.Drive.DimDesc
import NixModel.Drive.Abuse
/-
  nixmodel: reads a trace (op lines with the implementation's recorded result after `=>`),
  replays each op on the Lean model, evaluates the property relations on the implementation's
  observation, and prints one verdict per op line.
-/
open Nix Nix.Proto Nix.Drive

/-- the family handlers, tried in order (a stateless handler is wrapped); merge-friendly: one line per family -/
def handlers : List (DState → String → List String → List String → Option (DState × Out)) := [
  fun st op args impl => (Version.handle op args impl).map fun o => (st, o),
  fun st op args impl => (Region.handle op args impl).map fun o => (st, o),
  fun st op args impl => (Units.handle op args impl).map fun o => (st, o),
  Index.handle,
  Array.handle,
  Array.handleTyped,
  Valid.handle,
  Store.handle,
  Modes.handle,
  Crash.handle,
  fun st op args impl => (Ids.handle st op args impl).map fun (st', o) =>
    -- File::forceId is the one call that re-identifies: keep the store model's root in step
    (if op == "id_forceid" && impl.head? == some "ok" then
      { st' with smodel := { st'.smodel with store := st'.smodel.store.setAttr 0 "id" ((impl[1]?).getD "?") } } else st', o),
  Props.handle,
  Frame.handle,
  Search.handle,
  DimDesc.handle,
  fun st op args impl => (Abuse.handle op args impl).map fun o => (st, o)
]

def step (st : DState) (line : String) : DState × Option String :=
  if line.isEmpty || line.startsWith "#" || line.startsWith "@" then (st, none) else
  let (toks, impl) := splitLine line
  match toks with
  | [] => (st, none)
  | op :: args =>
    if op == "reset" then ({}, none) else
    -- the search family watches the store family's ops to know the entity forest (no verdict of its own there)
    let st := Search.observe st op args impl
    match handlers.findSome? fun h => h st op args impl with
    | some (st', o) =>
      -- sr_mkalias creates a source NAMED like the id of another entity: for the store family (impl-side state and model)
      -- this is `mk <slot> O <parent> <that id> <type>`
      let st' := match op, args with
        | "sr_mkalias", [slot, parent, other, type] =>
          (match StoreModel.keyOf st'.smodel "idof" other with
          | some id => (match Store.handle st' "mk" [slot, "O", parent, Proto.fmtStr id, type] impl with
            | some (st'', _) => st''
            | none => st')
          | none => { st' with smodel := { st'.smodel with lost := some "sr_mkalias on an unknown slot" } })
        | _, _ => st'
      -- raw HDF5 edits and setters of the validator family change the file behind the store model's back
      let st' := if op == "vl_raw" || op == "vl_set" then
          { st' with smodel := { st'.smodel with lost := some "file edited outside the store grammar" } } else st'
      (st', some o.render)
    | none => (st, some Out.unknown.render)

partial def loop (h : IO.FS.Stream) (out : IO.FS.Stream) (st : DState) : IO Unit := do
  let line ← h.getLine
  if line.isEmpty then return ()
  let l := line.trimAscii.toString
  let (st', o) := step st l
  match o with
  | some s => out.putStrLn s
  | none => out.putStrLn "-"
  loop h out st'

def main (args : List String) : IO UInt32 := do
  let stdin ← IO.getStdin
  let stdout ← IO.getStdout
  match args with
  | [] => loop stdin stdout {}
  | path :: _ =>
    let h ← IO.FS.Handle.mk path .read
    loop (IO.FS.Stream.ofHandle h) stdout {}
  return 0
