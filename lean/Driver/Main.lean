import NixModel.Drive.Common
import NixModel.Drive.Version
import NixModel.Drive.State
import NixModel.Drive.Index
import NixModel.Drive.Units
import NixModel.Drive.Region
import NixModel.Drive.Array
import NixModel.Drive.Store
import NixModel.Drive.DimDesc
/-
  nixmodel: reads a trace (op lines with the implementation's recorded result after `=>`),
  replays each op on the Lean model, evaluates the property relations on the implementation's
  observation, and prints one verdict per op line.
-/
open Nix Nix.Proto Nix.Drive

def step (st : DState) (line : String) : DState × Option String :=
  if line.isEmpty || line.startsWith "#" || line.startsWith "@" then (st, none) else
  let (toks, impl) := splitLine line
  match toks with
  | [] => (st, none)
  | op :: args =>
    if op == "reset" then ({}, none) else
    match Version.handle op args impl with
    | some o => (st, some o.render)
    | none =>
    match Region.handle op args impl with
    | some o => (st, some o.render)
    | none =>
    match Units.handle op args impl with
    | some o => (st, some o.render)
    | none =>
    match Index.handle st op args impl with
    | some (st', o) => (st', some o.render)
    | none =>
    match Array.handle st op args impl with
    | some (st', o) => (st', some o.render)
    | none =>
    match DimDesc.handle st op args impl with
    | some (st', o) => (st', some o.render)
    | none =>
    match Store.handle st op args impl with
    | some (st', o) => (st', some o.render)
    | none => (st, some Out.unknown.render)

partial def loop (h : IO.FS.Stream) (out : IO.FS.Stream) (st : DState) : IO Unit := do
  let line ← h.getLine
  if line.isEmpty then return ()
  let l := line.trimAscii.toString
  let (st', o) := step st l
  match o with
  | some s => out.putStrLn s
  | none => out.putStrLn "-"
  loop h out st'

def main (args : List String) : IO UInt32 := do
  let stdin ← IO.getStdin
  let stdout ← IO.getStdout
  match args with
  | [] => loop stdin stdout {}
  | path :: _ =>
    let h ← IO.FS.Handle.mk path .read
    loop (IO.FS.Stream.ofHandle h) stdout {}
  return 0
