#!/usr/bin/env python3
"""Translator for the rule tables of the nix validator (src/valid/validate.cpp).

Every `validate(const X &)` overload (and the two templated helpers) builds its Result from `validator({ … })`, a list of nested
`must / should / could(entity, &Class::getter, check, "message", { sub-rules })` calls.  This script parses those lists and writes
them out as Lean data (NixModel/Gen/ValidRules.lean): the STRUCTURE of every table — which rule is nested under which, its
severity, its getter, its check expression, its message — comes from the source on every run.  What a (getter, check) pair means for
an entity description is given by hand in NixModel/ValidSource.lean; Props/C19Source.lean proves that the model's rule tables
(NixModel/Validate.lean) are these tables.

usage: extract_valid_rules.py <repo> <out.lean>      exit 3 when the source can no longer be parsed
"""
import re, sys, os

repo = sys.argv[1] if len(sys.argv) > 1 else '/repo'
out = sys.argv[2] if len(sys.argv) > 2 else None

src = open(os.path.join(repo, 'src/valid/validate.cpp'), encoding='utf-8', errors='replace').read()
src = re.sub(r'/\*.*?\*/', '', src, flags=re.S)
src = re.sub(r'//[^\n]*', '', src)

class ParseError(Exception): pass

def match_close(s, i, op, cl):
    """s[i] == op: index of the matching close, skipping string literals"""
    depth = 0
    j = i
    while j < len(s):
        c = s[j]
        if c == '"':
            j += 1
            while j < len(s) and s[j] != '"':
                if s[j] == '\\': j += 1
                j += 1
        elif c == op: depth += 1
        elif c == cl:
            depth -= 1
            if depth == 0: return j
        j += 1
    raise ParseError('unbalanced %s' % op)

def split_top(s):
    """split at top-level commas (outside (), {}, <> and string literals)"""
    parts, depth, cur, j = [], 0, '', 0
    while j < len(s):
        c = s[j]
        if c == '"':
            k = j + 1
            while k < len(s) and s[k] != '"':
                if s[k] == '\\': k += 1
                k += 1
            cur += s[j:k + 1]; j = k + 1; continue
        if c in '({': depth += 1
        elif c in ')}': depth -= 1
        elif c == '<' and re.match(r'[A-Za-z_:]', s[j + 1:j + 2] or ' '): depth += 1      # template argument list
        elif c == '>' and depth > 0 and cur.count('<') > cur.count('>'): depth -= 1
        if c == ',' and depth == 0:
            parts.append(cur.strip()); cur = ''
        else:
            cur += c
        j += 1
    if cur.strip(): parts.append(cur.strip())
    return parts

def parse_rules(body):
    """body: the text between the braces of a rule list"""
    rules = []
    for item in split_top(body):
        m = re.match(r'(must|should|could)\s*\(', item)
        if not m: raise ParseError('not a rule: %s' % item[:60])
        close = match_close(item, m.end() - 1, '(', ')')
        if item[close + 1:].strip(): raise ParseError('trailing text after a rule: %s' % item[close + 1:][:40])
        args = split_top(item[m.end():close])
        if len(args) < 3: raise ParseError('rule with fewer than 3 arguments: %s' % item[:60])
        g = re.match(r'&\s*([A-Za-z_:<>]+)$', args[1])
        if not g: raise ParseError('getter: %s' % args[1])
        getter = re.sub(r'base::(\w+)<T>', r'\1', g.group(1))
        check = re.sub(r'\s+', '', args[2])
        msg, subs = '', []
        for extra in args[3:]:
            if extra.startswith('"'):
                msg = ''.join(re.findall(r'"((?:[^"\\]|\\.)*)"', extra))
            elif extra.startswith('{'):
                subs = parse_rules(extra[1:match_close(extra, 0, '{', '}')])
            else: raise ParseError('argument: %s' % extra[:40])
        if m.group(1) != 'could' and not msg: raise ParseError('%s without a message' % m.group(1))
        rules.append((m.group(1), getter, check, msg, subs))
    return rules

# the functions that own a rule table, and the Lean name of each table
OWNERS = [('validate_entity', r'Result\s+validate_entity\s*\(', 'entity'), ('validate_named_entity', r'Result\s+validate_named_entity\s*\(', 'namedEntity'),
          ('DataArray', r'Result\s+validate\s*\(\s*const\s+DataArray\s*&', 'dataArray'), ('Tag', r'Result\s+validate\s*\(\s*const\s+Tag\s*&', 'tag'),
          ('Property', r'Result\s+validate\s*\(\s*const\s+Property\s*&', 'property'), ('MultiTag', r'Result\s+validate\s*\(\s*const\s+MultiTag\s*&', 'multiTag'),
          ('RangeDimension', r'Result\s+validate\s*\(\s*const\s+RangeDimension\s*&', 'rangeDimension'),
          ('SampledDimension', r'Result\s+validate\s*\(\s*const\s+SampledDimension\s*&', 'sampledDimension'),
          ('SetDimension', r'Result\s+validate\s*\(\s*const\s+SetDimension\s*&', 'setDimension'), ('Feature', r'Result\s+validate\s*\(\s*const\s+Feature\s*&', 'feature')]
# which helper supplies the base result of an overload (`Result result_base = validate_xxx(entity)`, concatenated AFTER the own table)
tables, bases = {}, {}
try:
    for cname, pat, lname in OWNERS:
        m = re.search(pat, src)
        if not m: raise ParseError('function for %s not found' % cname)
        ob = src.index('{', m.end())
        body = src[ob:match_close(src, ob, '{', '}') + 1]
        v = re.search(r'validator\s*\(\s*\{', body)
        if not v: raise ParseError('no validator({…}) in %s' % cname)
        lb = body.index('{', v.start())
        tables[lname] = parse_rules(body[lb + 1:match_close(body, lb, '{', '}')])
        b = re.search(r'Result\s+result_base\s*=\s*(validate_\w+)\s*(?:<T>)?\s*\(', body)
        bases[lname] = b.group(1) if b else ''
        if b and not re.search(r'return\s+result\s*\.\s*concat\s*\(\s*result_base\s*\)', body): raise ParseError('%s: result_base is not concatenated after the table' % cname)
    # the chain of helpers that only forward
    for helper, target in (('validate_entity_with_metadata', 'validate_named_entity'), ('validate_entity_with_sources', 'validate_entity_with_metadata')):
        m = re.search(r'Result\s+' + helper + r'\s*\([^)]*\)\s*\{\s*return\s+(\w+)\s*(?:<T>)?\s*\(', src)
        if not m or m.group(1) != target: raise ParseError('%s no longer forwards to %s' % (helper, target))
except (ParseError, ValueError) as e:
    print('extract_valid_rules: %s' % e)
    sys.exit(3)

def lstr(s): return '"' + s.replace('\\', '\\\\').replace('"', '\\"') + '"'
def emit(rules, ind):
    pad = ' ' * ind
    return '[' + (',\n' + pad + ' ').join('.node %s %s %s %s %s' % (lstr(k), lstr(g), lstr(c), lstr(m), emit(s, ind + 2)) for k, g, c, m, s in rules) + ']'

FORWARD = {'validate_entity_with_sources': 'namedEntity', 'validate_entity_with_metadata': 'namedEntity', 'validate_named_entity': 'namedEntity',
           'validate_entity': 'entity', '': ''}
L = ['/-', '  GENERATED by gen/extract_valid_rules.py from src/valid/validate.cpp on every run — do not edit.',
     '  The rule tables of the validator as data: kind (must / should / could), getter, check expression, message, sub-rules.', '-/',
     'namespace Nix.Gen.Valid', '', 'inductive Rule', '  | node (kind getter check msg : String) (subs : List Rule)', '']
for _, _, lname in OWNERS:
    L.append('def %s : List Rule :=\n  %s' % (lname, emit(tables[lname], 2)))
    L.append('/-- the table whose result is concatenated after this one (`result.concat(result_base)`), "" = none -/')
    L.append('def %sBase : String := %s' % (lname, lstr(FORWARD[bases[lname]])))
    L.append('')
L.append('end Nix.Gen.Valid')
text = '\n'.join(L) + '\n'
if out:
    old = open(out).read() if os.path.exists(out) else None
    if old != text:
        open(out, 'w').write(text)
else:
    sys.stdout.write(text)
