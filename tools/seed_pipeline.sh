#!/bin/bash
# seed_pipeline.sh <P> <dir> <name> "<needs>" [<dir> <name> "<needs>" ...] : verify, keep and run seeded changes (sequentially)
# Output: one line per seed on stdout; meant to be run in the background with stdout redirected.
P=$1; shift
while [ $# -ge 3 ]; do
  D=$1; N=$2; NEEDS=$3; shift 3
  R=$(/verif/tools/verify_seed.sh "$D" | tail -1)
  echo "$R"
  if echo "$R" | grep -q "suite=pass" && echo "$R" | grep -q "demo_pristine=0" && ! echo "$R" | grep -q "demo_patched=0 "; then
    (cd /verif && tools/keep_seed.sh "$P" "$D" "$N" "$NEEDS" > /dev/null && python3 tools/run_seeds.py --record --only "$P-$N" | grep "^SEED")
  else
    echo "NOT KEPT $P-$N"
  fi
done
