import sys, os, random, subprocess, re, collections, concurrent.futures as cf
sys.path.insert(0,'/verif')
from checks import C16
prop = sys.argv[1] if len(sys.argv)>1 else 'C16'
import importlib
mod = importlib.import_module('checks.'+prop)
tier = sys.argv[2] if len(sys.argv)>2 else 'quick'
seed = int(sys.argv[3]) if len(sys.argv)>3 else 1
cs = mod.cases(tier, seed, random.Random(seed))
d="/var/tmp/fscan-%s-%s-%d" % (prop, tier, seed); os.makedirs(d, exist_ok=True)
def run(i):
    c=cs[i]
    if c.meta.get('valgrind'): return None
    f='%s/%d.ops'%(d,i); open(f,'w').write('\n'.join(c.lines)+'\n')
    wd='%s/wd%d'%(d,i); os.makedirs(wd,exist_ok=True)
    env=dict(os.environ, ASAN_OPTIONS='detect_leaks=0', UBSAN_OPTIONS='print_stacktrace=1')
    try:
        p=subprocess.run(['/verif/.work/harness-asan/nixdrv', f, wd], capture_output=True, text=True, errors='replace', timeout=600, env=env)
    except subprocess.TimeoutExpired:
        return (i, c.origin, 'TIMEOUT', '')
    subprocess.run(['rm','-rf',wd])
    m=re.search(r'(\S+: runtime error: [^\n]*|ERROR: AddressSanitizer[^\n]*)', p.stderr)
    if m or p.returncode not in (0,):
        st=re.findall(r'#\d+ 0x\w+ in ([^\n]*)', p.stderr)[:4]
        return (i, c.origin, m.group(1) if m else 'rc=%d %s'%(p.returncode, p.stderr[-300:]), ' | '.join(s[:120] for s in st))
    os.remove(f)
    return None
with cf.ThreadPoolExecutor(int(os.environ.get("FS_THREADS","14"))) as ex:
    res=[r for r in ex.map(run, range(len(cs))) if r]
cnt=collections.Counter(r[2] for r in res)
for k,v in cnt.most_common(): print(v, k)
for r in res[:60]: print(r[0], r[1], r[2][:160], '\n    ', r[3][:400])
