#!/usr/bin/env python3
"""Print the prompt given to an independent mutation sub-agent for one property.
The agent gets only the property text and a scratch worktree; nothing from /verif."""
import json, sys
pid = sys.argv[1]
n = int(sys.argv[2]) if len(sys.argv) > 2 else 2
for l in open('/verif/properties.jsonl'):
    p = json.loads(l)
    if p['id'] == pid:
        break
else:
    sys.exit('no such property')
import glob, os
tried = []
for d in sorted(glob.glob('/verif/seeded/%s-*' % pid)):
    try:
        m = json.load(open(os.path.join(d, 'meta.json')))
        tried.append('- ' + os.path.basename(d).split('-', 1)[1].replace('-', ' ') + ': ' + (m.get('needs_to_manifest') or ''))
    except Exception:
        pass
tried_txt = ('\n\nALREADY TRIED by earlier rounds (do something DIFFERENT: other code sites, other mechanisms):\n' + '\n'.join(tried)) if tried else ''
mech_txt = ''
if '--mech' in sys.argv:
    ms = p['anchors'].get('mechanism') or []
    if ms:
        mech_txt = ('\nMECHANISMS the property rests on (pick sites among these that the earlier rounds have NOT touched, or the glue between two of them):\n'
                    + '\n'.join('- %s  [%s]' % (m['name'], m['where']) for m in ms))
wt = f'/tmp/seed-{pid}'
out = f'/tmp/seed-{pid}-out'
print(f"""You are working on the G-Node/nix C++ library (NIX neuroscience data model over HDF5) in a scratch git worktree at {wt} (detached HEAD of the pinned commit). Work ONLY inside {wt} and {out}. Never touch or read /repo or /verif.

Here is a semantic property the library is supposed to satisfy:

TITLE: {p['title']}
STATEMENT: {p['statement']}
QUANTIFIED OVER: {p['quantifier']['text']}
RELEVANT FILES: {', '.join(p['anchors']['files'])}{mech_txt}{tried_txt}

YOUR TASK: produce {n} independent, realistic source changes ("seeded bugs") to the library, each of which BREAKS this property while the library still compiles and the existing test suite still passes. They should look like plausible regressions a developer could introduce (an off-by-one, a wrong comparison, a reordered statement, a missed case, a stale cache, a wrong default, two sites that each look fine alone...), NOT sabotage that ordinary use would expose at once. Each change must need something specific to manifest: a particular multi-step sequence of operations, an unusual-but-legal input, a boundary value, a particular crash/kill point or interleaving, or two cooperating sites. Make the {n} changes use different mechanisms / different code sites. Keep each patch small (a few lines).

For each change k = 1..{n} deliver a directory {out}/m<k>/ containing:
  - patch.diff : output of `git diff` in the worktree (must apply with `git apply` to the pristine tree; library sources only - do NOT edit anything under test/)
  - demo.cpp   : a small standalone C++ program using the public nix API that exits 0 on the pristine tree and exits non-zero (printing what went wrong) with the patch applied. It must create its own files under a directory given as argv[1] (or the current directory) and not depend on anything else.
  - README.md  : which clause of the property it breaks, what exactly it needs in order to manifest, the commands you ran and their observed results (suite result with patch; demo result with and without patch).

How to build and test (16 cores, please use at most -j8):
  cmake -G Ninja -S {wt} -B {wt}/_build -DCMAKE_BUILD_TYPE=RelWithDebInfo   (once)
  ninja -C {wt}/_build -j8
  (cd {wt}/_build && ctest -j1 --timeout 900)       # run with -j1: suites share .h5 file names
On the pristine tree every ctest target passes except `EntityWithMetadataHDF5`, which always fails - ignore that one. With your patch applied ALL the other targets must still pass; verify that yourself and record it.
Compile a demo with:
  g++ -std=c++11 -O1 -w -I{wt}/include -I{wt}/_build/include -I{wt}/backend -I/usr/include/hdf5/serial demo.cpp -o demo -L{wt}/_build -lnixio -lhdf5_serial -Wl,-rpath,{wt}/_build
Headers: <nix.hpp>, <nix/util/dataAccess.hpp>, <nix/util/util.hpp>, <nix/valid/validate.hpp>. HDF5 prints noisy HDF5-DIAG stack traces on handled errors; ignore them.

Procedure per change: edit the sources, rebuild, run the whole suite, build and run the demo (must fail), save `git diff > patch.diff`, then `git checkout -- .`, rebuild, and confirm the demo passes on the pristine tree. Finish with the worktree clean (`git checkout -- .`). There is no network. Do not spend time on anything else; when both deliverables are complete, reply with a 5-line summary per change.""")
