#!/usr/bin/env python3
"""Print the table of seeded changes and the checks that catch them (from seeded/*/meta.json) as Markdown."""
import glob, json, os
ROOT = os.path.dirname(os.path.dirname(os.path.abspath(__file__)))
rows = []
for d in sorted(glob.glob(os.path.join(ROOT, 'seeded', '*'))):
    m = json.load(open(os.path.join(d, 'meta.json')))
    origin = 'reverse of a fix' if 'reverse of the fix' in m.get('origin', '') else 'independent sub-agent'
    rows.append((os.path.basename(d), m['property'], origin, (m.get('needs_to_manifest') or '').replace('|', '/')[:150], m.get('detected_by') or '**not detected**'))
import sys
out = ['| seeded change | property | origin | needs, to manifest | caught by |', '|---|---|---|---|---|']
out += ['| `%s` | %s | %s | %s | %s |' % r for r in rows]
out += ['', '%d seeded changes; %d caught by the registered quick check of their property, %d obsolete (patch no longer meaningful on the fixed tree), %d not caught.'
        % (len(rows), sum(1 for r in rows if r[4].startswith('bin/check')), sum(1 for r in rows if r[4].startswith('n/a')), sum(1 for r in rows if r[4].startswith('**')))]
text = '\n'.join(out)
if '--into-design' in sys.argv:
    p = os.path.join(ROOT, 'DESIGN.md')
    s = open(p).read()
    a = s.index('<!-- seed-table-begin'); a = s.index('\n', a) + 1
    b = s.index('<!-- seed-table-end -->')
    open(p, 'w').write(s[:a] + text + '\n' + s[b:])
else:
    print(text)
