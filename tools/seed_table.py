#!/usr/bin/env python3
"""Print the table of seeded changes and the checks that catch them (from seeded/*/meta.json) as Markdown."""
import glob, json, os
ROOT = os.path.dirname(os.path.dirname(os.path.abspath(__file__)))
rows = []
for d in sorted(glob.glob(os.path.join(ROOT, 'seeded', '*'))):
    m = json.load(open(os.path.join(d, 'meta.json')))
    origin = 'reverse of a fix' if 'reverse of the fix' in m.get('origin', '') else 'independent sub-agent'
    rows.append((os.path.basename(d), m['property'], origin, (m.get('needs_to_manifest') or '').replace('|', '/')[:150], m.get('detected_by') or '**not detected**'))
print('| seeded change | property | origin | needs, to manifest | caught by |')
print('|---|---|---|---|---|')
for r in rows:
    print('| `%s` | %s | %s | %s | %s |' % r)
print()
print('%d seeded changes, %d caught.' % (len(rows), sum(1 for r in rows if not r[4].startswith('**'))))
