#!/bin/bash
# keep_seed.sh <property> <src dir (mK)> <name> "<needs>" : store a verified seeded change under /verif/seeded/
set -e
P=$1; S=$2; N=$3; NEEDS=$4
D=/verif/seeded/$P-$N
mkdir -p "$D"
cp "$S/patch.diff" "$S/demo.cpp" "$D/"
[ -f "$S/README.md" ] && cp "$S/README.md" "$D/agent_README.md"
VER=$(tail -1 "$S/verify.log" 2>/dev/null || true)
python3 - "$P" "$D" "$NEEDS" <<'PY'
import json, sys, subprocess
p, d, needs = sys.argv[1:4]
meta = {
 "property": p,
 "needs_to_manifest": needs,
 "origin": "independent sub-agent given only the property text and a scratch worktree",
 "confirmed_by": "tools/verify_seed.sh: patch applied to a scratch worktree of /repo HEAD, full suite (ctest -j1) passes, demo exits non-zero with the patch and 0 without",
 "repo_head_at_confirmation": subprocess.check_output(['git','-C','/repo','rev-parse','HEAD'],text=True).strip(),
 "detected_by": None
}
json.dump(meta, open(d + '/meta.json', 'w'), indent=1)
PY
echo kept $D
