#!/bin/bash
# verify_seed.sh <dir with patch.diff + demo.cpp> : confirm a seeded change independently.
#  - applies the patch to a scratch worktree of /repo's current HEAD (outside /repo and /verif)
#  - builds library + tests, runs the whole suite (ctest -j1)
#  - builds and runs the demo with the patch (must fail) and without it (must pass)
# Prints a summary line: SEED <dir> suite=<pass|fail> demo_patched=<rc> demo_pristine=<rc>
set -u
D="$(cd "$1" && pwd)"
WT=/tmp/vseed-wt
LOG="$D/verify.log"
: > "$LOG"
if [ ! -d "$WT" ]; then
  git -C /repo worktree add --detach "$WT" HEAD >> "$LOG" 2>&1
  cmake -G Ninja -S "$WT" -B "$WT/_build" -DCMAKE_BUILD_TYPE=RelWithDebInfo -DCMAKE_CXX_FLAGS=-Wno-error >> "$LOG" 2>&1
fi
git -C "$WT" checkout -q -- . ; git -C "$WT" checkout -q --detach "$(git -C /repo rev-parse HEAD)" >> "$LOG" 2>&1
demo() { # $1 = output binary
  g++ -std=c++11 -O1 -w -I"$WT/include" -I"$WT/_build/include" -I"$WT/backend" -I/usr/include/hdf5/serial "$D/demo.cpp" -o "$1" -L"$WT/_build" -lnixio -lhdf5_serial -Wl,-rpath,"$WT/_build" >> "$LOG" 2>&1 || return 99
  mkdir -p /tmp/vseed-demo; rm -rf /tmp/vseed-demo/*; (cd /tmp/vseed-demo && timeout 300 "$1" /tmp/vseed-demo >> "$LOG" 2>&1); return $?
}
# pristine
ninja -C "$WT/_build" -j12 >> "$LOG" 2>&1 || { echo "SEED $D pristine-build-failed"; exit 1; }
demo /tmp/vseed-demo-bin; PR=$?
# patched
if ! git -C "$WT" apply "$D/patch.diff" >> "$LOG" 2>&1; then echo "SEED $D patch-does-not-apply"; exit 1; fi
if ! ninja -C "$WT/_build" -j12 >> "$LOG" 2>&1; then git -C "$WT" checkout -q -- .; echo "SEED $D patched-build-failed"; exit 1; fi
(cd "$WT/_build" && ctest -j1 --timeout 900 > "$D/verify_ctest.log" 2>&1); 
FAILED=$(grep -E "^\s*[0-9]+ - " "$D/verify_ctest.log" | grep -v EntityWithMetadataHDF5 | wc -l)
SUITE=pass; [ "$FAILED" != "0" ] && SUITE="fail($FAILED)"
demo /tmp/vseed-demo-bin; PA=$?
git -C "$WT" checkout -q -- .
echo "SEED $D suite=$SUITE demo_patched=$PA demo_pristine=$PR"
