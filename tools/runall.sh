#!/bin/bash
# run every quick check on the current tree; one line per check, plus every VIOLATION line
cd "$(dirname "$0")/.."
for p in C01 C02 C03 C04 C05 C06 C07 C08 C09 C10 C11 C12 C13 C14 C15 C16 C17 C18 C19 C20; do
  out=$(bin/check $p --tier ${1:-quick} 2>&1); rc=$?
  echo "rc=$rc $(echo "$out" | tail -1 | cut -c1-150)"
  echo "$out" | grep "^VIOLATION" | head -3
done
