#!/usr/bin/env python3
"""Resolve the routine conflicts of merging a dev-* branch (see design/DEV_GUIDE.md): additive registries keep both sides,
known_findings.json is the union, MANIFEST.json is regenerated afterwards, evidence files take the incoming side."""
import json, os, re, subprocess, sys
ROOT = os.path.dirname(os.path.dirname(os.path.abspath(__file__)))
os.chdir(ROOT)

def sh(*a):
    return subprocess.run(a, stdout=subprocess.PIPE, stderr=subprocess.STDOUT, text=True).stdout

def stage(n, path):
    return subprocess.run(['git', 'show', ':%d:%s' % (n, path)], stdout=subprocess.PIPE, text=True).stdout

conf = [l[3:] for l in sh('git', 'status', '--porcelain').split('\n') if l[:2] in ('UU', 'AA')]
for path in conf:
    if path == 'known_findings.json':
        ours, theirs = json.loads(stage(2, path)), json.loads(stage(3, path))
        seen, out = set(), []
        for e in ours + theirs:
            k = json.dumps(e, sort_keys=True)
            if k not in seen:
                seen.add(k); out.append(e)
        json.dump(out, open(path, 'w'), indent=1)
    elif path == 'MANIFEST.json' or path.startswith('evidence/'):
        open(path, 'w').write(stage(3, path))
    elif path == 'lean/NixModel.lean':
        lines = []
        for l in (stage(2, path) + stage(3, path)).split('\n'):
            if l.strip() and l not in lines:
                lines.append(l)
        open(path, 'w').write('\n'.join(lines) + '\n')
    else:
        # keep both sides of every hunk, ours first
        s = open(path).read()
        s = re.sub(r'<<<<<<< [^\n]*\n(.*?)=======\n(.*?)>>>>>>> [^\n]*\n', lambda m: m.group(1) + m.group(2), s, flags=re.S)
        open(path, 'w').write(s)
    print('resolved', path)
    sh('git', 'add', path)
