#!/bin/bash
# revert_seed.sh <property> <fix-commit> <name> "<needs>" "<corpus glob>": store the reverse of a fix: commit as a seeded change
set -e
P=$1; C=$2; N=$3; NEEDS=$4; DEMO=$5
D=/verif/seeded/$P-revert-$N
mkdir -p "$D"
git -C /repo diff $C $C^ > "$D/patch.diff"
python3 - "$P" "$C" "$D" "$NEEDS" "$DEMO" <<'PY'
import json, sys
p, c, d, needs, demo = sys.argv[1:6]
json.dump({"property": p, "origin": "reverse of the fix: commit %s in /repo (a defect of the pinned tree found by this machinery)" % c,
  "needs_to_manifest": needs, "demonstration": demo + " (replay files written by bin/check %s on the pinned tree)" % p,
  "confirmed_by": "bin/check %s on the tree without the fix reported VIOLATION with these replays; the baseline suite passes on that tree" % p,
  "detected_by": "bin/check %s --tier quick" % p}, open(d + '/meta.json', 'w'), indent=1)
PY
echo kept $D
