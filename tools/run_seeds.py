#!/usr/bin/env python3
"""Run the registered quick check of a seeded change's property against the change (seeded/<name>/patch.diff).

The patch is applied to a scratch git worktree of /repo's HEAD (outside /repo and /verif) and the check is run from a scratch
worktree of /verif's HEAD with VERIF_REPO pointing at it, so that work in /verif and /repo is not disturbed; both are removed
with --cleanup.  Results: /var/tmp/seedrun/results.json and, with --record, `detected_by` in seeded/<name>/meta.json.

usage: tools/run_seeds.py [--only SUBSTR] [--tier quick|thorough] [--record] [--cleanup] [--also P1,P2]
"""
import argparse, glob, json, os, re, shutil, subprocess, sys, time
ROOT = os.path.dirname(os.path.dirname(os.path.abspath(__file__)))
BASE = '/var/tmp/seedrun'
SV, SR = BASE + '/verif', BASE + '/repo'

def sh(cmd, **kw):
    return subprocess.run(cmd, shell=isinstance(cmd, str), stdout=subprocess.PIPE, stderr=subprocess.STDOUT, text=True, **kw)

def prepare():
    os.makedirs(BASE, exist_ok=True)
    if not os.path.isdir(SV):
        print(sh(['git', '-C', ROOT, 'worktree', 'add', '--detach', SV, 'HEAD']).stdout)
    else:
        sh(['git', '-C', SV, 'checkout', '-q', '-f', '--detach', sh(['git', '-C', ROOT, 'rev-parse', 'HEAD']).stdout.strip()])
    if not os.path.isdir(SR):
        print(sh(['git', '-C', '/repo', 'worktree', 'add', '--detach', SR, 'HEAD']).stdout)
    else:
        sh(['git', '-C', SR, 'checkout', '-q', '--', '.'])
        sh(['git', '-C', SR, 'checkout', '-q', '--detach', sh(['git', '-C', '/repo', 'rev-parse', 'HEAD']).stdout.strip()])

def cleanup():
    sh(['git', '-C', ROOT, 'worktree', 'remove', '--force', SV])
    sh(['git', '-C', '/repo', 'worktree', 'remove', '--force', SR])
    shutil.rmtree(BASE, ignore_errors=True)

def main():
    ap = argparse.ArgumentParser()
    ap.add_argument('--only', default='')
    ap.add_argument('--tier', default='quick')
    ap.add_argument('--record', action='store_true')
    ap.add_argument('--cleanup', action='store_true')
    ap.add_argument('--also', default='', help='comma separated extra properties to run for every seed')
    a = ap.parse_args()
    if a.cleanup:
        cleanup(); return
    prepare()
    env = dict(os.environ, VERIF_REPO=SR)
    claimed = {c['property_id'] for c in json.load(open(os.path.join(ROOT, 'MANIFEST.json')))['checks']}
    # baseline build first so that the per-seed rebuild is incremental
    r = sh(['bin/setup'], cwd=SV, env=env)
    print(r.stdout[-400:])
    results = {}
    rp = BASE + '/results.json'
    if os.path.exists(rp):
        results = json.load(open(rp))
    for d in sorted(glob.glob(os.path.join(ROOT, 'seeded', '*'))):
        name = os.path.basename(d)
        if a.only and a.only not in name:
            continue
        meta = json.load(open(os.path.join(d, 'meta.json')))
        props = [meta['property']] + [p for p in a.also.split(',') if p]
        r = sh(['git', '-C', SR, 'apply', os.path.join(d, 'patch.diff')])
        if r.returncode != 0:
            print('SEED %s: patch does not apply: %s' % (name, r.stdout.strip()[:200]))
            results[name] = {'applies': False}
            continue
        out = {}
        for p in props:
            if p not in claimed:
                out[p] = 'not-claimed'
                continue
            t0 = time.time()
            r = sh(['bin/check', p, '--tier', a.tier], cwd=SV, env=env)
            viol = re.findall(r'^VIOLATION.*$', r.stdout, flags=re.M)
            out[p] = {'exit': r.returncode, 'violations': viol[:4], 'wall_s': round(time.time() - t0, 1), 'tail': r.stdout.strip().split('\n')[-1][:300]}
        sh(['git', '-C', SR, 'checkout', '-q', '--', '.'])
        results[name] = {'applies': True, 'checks': out}
        det = [p for p, o in out.items() if isinstance(o, dict) and o['exit'] != 0 and o['violations']]
        print('SEED %-55s %s' % (name, 'DETECTED by ' + ','.join(det) if det else 'missed ' + json.dumps({p: (o if isinstance(o, str) else o['tail'][:80]) for p, o in out.items()})), flush=True)
        json.dump(results, open(rp, 'w'), indent=1)
        if a.record and det:
            meta['detected_by'] = ' ; '.join('bin/check %s --tier %s' % (p, a.tier) for p in det)
            json.dump(meta, open(os.path.join(d, 'meta.json'), 'w'), indent=1)
    # leave the scratch repo clean
    sh(['git', '-C', SR, 'checkout', '-q', '--', '.'])

if __name__ == '__main__':
    main()
