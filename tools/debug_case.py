#!/usr/bin/env python3
"""debug helper: run the generated cases of a check (plain flavour) and print every non-OK verdict with its trace line"""
import importlib, os, random, subprocess, sys
ROOT = os.path.dirname(os.path.dirname(os.path.abspath(__file__)))
sys.path.insert(0, ROOT); os.chdir(ROOT)
from vlib import build as B, runner as R
pid = sys.argv[1]; seed = int(sys.argv[2]) if len(sys.argv) > 2 else 1
mod = importlib.import_module('checks.' + pid)
cases = mod.cases('quick', seed, random.Random(seed * 1000003 + 17))
lines = []
for c in cases:
    lines.append('reset'); lines += c.lines
wd = os.path.join(B.WORK, 'debug-' + pid)
rc, out, err = R.run_harness(os.path.join(B.WORK, 'harness-plain', 'nixdrv'), lines, wd)
trace = [l for l in out if l and not l.startswith('@ ')]
v = R.run_driver(os.path.join(B.LEAN, '.lake', 'build', 'bin', 'nixmodel'), trace, wd)
n = 0
for i, (t, x) in enumerate(zip(trace, v)):
    if not (x.startswith('OK') or x.startswith('-')):
        print(i, t[:300]); print('   ', x[:400]); n += 1
        if n > int(os.environ.get('MAXN', '6')): break
print('rc', rc, 'lines', len(trace))
