#!/usr/bin/env python3
"""After cherry-picking fix: commits of a dev branch into /repo's main: rewrite the commit ids in known_findings.json (and the ids
quoted in the descriptions) to the ids the commits have on main, matching by commit subject."""
import json, subprocess, re
def sh(*a): return subprocess.run(a, stdout=subprocess.PIPE, stderr=subprocess.DEVNULL, text=True).stdout.strip()
main = {}
for l in sh('git', '-C', '/repo', 'log', '--format=%h %s', 'main').split('\n'):
    h, _, subj = l.partition(' ')
    main.setdefault(subj, h)
k = json.load(open('/verif/known_findings.json'))
for e in k:
    c = e.get('commit')
    if not c: continue
    if sh('git', '-C', '/repo', 'merge-base', '--is-ancestor', c, 'main', ';', 'echo', '$?'): pass
    rc = subprocess.run(['git', '-C', '/repo', 'merge-base', '--is-ancestor', c, 'main']).returncode
    if rc == 0: continue
    subj = sh('git', '-C', '/repo', 'show', '-s', '--format=%s', c)
    if subj in main:
        new = main[subj]
        e['commit'] = new
        e['description'] = e['description'].replace(c, new)
        print('%s -> %s  %s' % (c, new, subj[:70]))
    else:
        print('NOT ON MAIN:', c, subj[:70])
json.dump(k, open('/verif/known_findings.json', 'w'), indent=1)
