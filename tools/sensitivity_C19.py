#!/usr/bin/env python3
"""Sensitivity experiments for C19 (design/notes-valid.md): apply one small semantic patch to the library worktree named by
VERIF_REPO, run the library's own validator test (bin/baseline_off -R Validate) and `bin/check C19 --tier quick`, revert the patch.
Usage: VERIF_REPO=<library worktree> tools/sensitivity_C19.py [mutant names…]   (refuses to run on a dirty worktree)"""
import subprocess, sys, os, re
VERIF = os.path.dirname(os.path.dirname(os.path.abspath(__file__)))
REPO = os.environ.get('VERIF_REPO')
if not REPO: sys.exit('set VERIF_REPO to a scratch worktree of the library')
MUTANTS = {
 'M1_ticks_ge': ('src/valid/checks.cpp', "mismatch = !(dim.ticks().size() == data.dataExtent()[idx]);", "mismatch = dim.ticks().size() < data.dataExtent()[idx];"),
 'M2_labels_gt1': ('src/valid/checks.cpp', "mismatch = dim.labels().size() > 0 && !(dim.labels().size() == data.dataExtent()[idx]);", "mismatch = dim.labels().size() > 1 && !(dim.labels().size() == data.dataExtent()[idx]);"),
 'M3_interval_ge0': ('src/valid/validate.cpp', "&SampledDimension::samplingInterval, isGreater(0)", "&SampledDimension::samplingInterval, notSmaller(0)"),
 'M4_tag_features_skipped': ('src/File.cpp', "            auto features = tag.features();\n            for (auto &feature : features) {\n                result.concat(valid::validate(feature));\n            }\n", ""),
 'M5_sorted_under_unit': ('src/valid/validate.cpp', "\"Unit is set but not an atomic SI. Note: So far composite units are not supported!\") }),\n        must(range_dim, &RangeDimension::ticks, isSorted(), \"Ticks are not sorted!\")", "\"Unit is set but not an atomic SI. Note: So far composite units are not supported!\"),\n            must(range_dim, &RangeDimension::ticks, isSorted(), \"Ticks are not sorted!\") })"),
 'M6_units_skip_first': ('src/valid/checks.cpp', "for (size_t i = 0; i < units.size(); ++i) {", "for (size_t i = 1; i < units.size(); ++i) {"),
 'M6b_only_first_ref': ('src/valid/checks.cpp', "        if (!match)\n            break;\n", "        break;\n"),
 'M7_throw_passes': ('include/nix/valid/conditions.hpp', "if(errOccured || !check(val)) {\n                return Result(Message(id, msg, name), none); // failed || error", "if(!errOccured && !check(val)) {\n                return Result(Message(id, msg, name), none); // failed || error"),
 'M8_positions_should': ('src/valid/validate.cpp', "must(multi_tag, &MultiTag::positions, notFalse(), \"positions are not set!\")", "should(multi_tag, &MultiTag::positions, notFalse(), \"positions are not set!\")"),
 'M9_rank_ge': ('src/valid/validate.cpp', "&DataArray::dimensionCount, isEqual<size_t>(data_array.dataExtent().size())", "&DataArray::dimensionCount, notSmaller(data_array.dataExtent().size())"),
 'M10_unit_must': ('src/valid/validate.cpp', "should(data_array, &DataArray::unit, isValidUnit(), \"Unit is not SI or composite of SI units.\")", "must(data_array, &DataArray::unit, isValidUnit(), \"Unit is not SI or composite of SI units.\")"),
 'M12_top_sources_only': ('src/File.cpp', "auto sources = block.findSources();", "auto sources = block.sources();"),
 'M13_base_dropped': ('src/valid/validate.cpp', "        must(named_entity, &base::NamedEntity<T>::type, notEmpty(), \"no type set!\")\n    });\n\n    return result.concat(result_base);", "        must(named_entity, &base::NamedEntity<T>::type, notEmpty(), \"no type set!\")\n    });\n\n    return result;"),
 'M14_feature_data_could': ('src/valid/validate.cpp', "must(feature, &Feature::data, notFalse(), \"data is not set!\"),", "could(feature, &Feature::data, notFalse()),"),
 'M15_mtag_refs_rule_dropped': ('src/valid/validate.cpp', "\"Some of the units in tag are invalid: not an atomic SI. Note: So far composite SI units are not supported!\"),\n            must(multi_tag, &MultiTag::references, tagUnitsMatchRefsUnits(multi_tag.units()), \"Some of the referenced DataArrays' dimensions have units that are not convertible to the units set in tag. Note: So far composite SI units are not supported!\")}),", "\"Some of the units in tag are invalid: not an atomic SI. Note: So far composite SI units are not supported!\")}),"),
 'M16_dfdim_break_to_continue_rows_le': ('src/valid/checks.cpp', "mismatch = !(dim.size() == data.dataExtent()[idx]);", "mismatch = dim.size() > data.dataExtent()[idx];"),
 'M17_prop_warn_inverted': ('src/valid/validate.cpp', "could(property, &Property::valueCount, notFalse(), {", "could(property, &Property::valueCount, isFalse(), {"),
 'M18_origin_rule_swapped': ('src/valid/validate.cpp', "could(data_array, &DataArray::expansionOrigin, notFalse(), {\n            should(data_array, &DataArray::polynomCoefficients, notEmpty(),", "could(data_array, &DataArray::expansionOrigin, notFalse(), {\n            should(data_array, &DataArray::polynomCoefficients, isEmpty(),"),
}

MUTANTS2 = {
 'S1_noticks_dropped': ('src/valid/validate.cpp', "        must(range_dim, &RangeDimension::ticks, notEmpty(), \"ticks are not set!\"),\n", ""),
 'S3_tagunit_any': ('include/nix/valid/checks.hpp', "return std::find_if_not(u.begin(), u.end(), obj) == u.end();", "return u.empty() || std::find_if(u.begin(), u.end(), obj) != u.end();"),
 'S6_top_sections_only': ('src/File.cpp', "auto sections = findSections();", "auto sections = this->sections();"),
 'S7_index_off_by_one': ('src/valid/checks.cpp', "        if ((*it).dimensionType() == DimensionType::Range) {\n            ndsize_t dimIndex = (*it).index() - 1;", "        if ((*it).dimensionType() == DimensionType::Range) {\n            ndsize_t dimIndex = (*it).index();"),
 'S8_empty_labels_flagged': ('src/valid/checks.cpp', "mismatch = dim.labels().size() > 0 && !(dim.labels().size() == data.dataExtent()[idx]);", "mismatch = !(dim.labels().size() == data.dataExtent()[idx]);"),
 'S13_strictly_sorted': ('include/nix/valid/checks.hpp', "return std::is_sorted(container.begin(), container.end());", "return std::adjacent_find(container.begin(), container.end(), [](const typename T::value_type &a, const typename T::value_type &b) { return !(a < b); }) == container.end();"),
 'S14_none_not_skipped': ('src/valid/checks.cpp', "                if (du != \"none\") {", "                if (true) {"),
 'S15_and_to_or': ('src/valid/checks.cpp', "if (!tu.empty() && tu != \"none\") {", "if (!tu.empty() || tu != \"none\") {"),
 'S16_last_dim_skipped': ('src/File.cpp', "            for (auto &dim : dims) {\n                if (dim.dimensionType() == DimensionType::Range) {", "            for (auto &dim : dims) {\n                if (dim.index() == dims.size() && dims.size() > 2) continue;\n                if (dim.dimensionType() == DimensionType::Range) {"),
 'S17_second_block_mtags': ('src/File.cpp', "        auto multi_tags = block.multiTags();", "        auto multi_tags = blcks[0].multiTags();"),
 'S18_interval_nan_ok': ('include/nix/valid/checks.hpp', "            return static_cast<double>(val) > value;", "            return !(static_cast<double>(val) <= value);"),
 'H1_range_unit_ignored': ('src/util/dataAccess.cpp', "unit = rd.unit().value_or(\"none\");", "unit = \"none\";"),
 'H2_helper_drops_last_dim': ('src/valid/helper.cpp', "    return units;", "    if (units.size() > 1) units.pop_back();\n    return units;"),
 'H3_frame_unit_ignored': ('src/util/dataAccess.cpp', "        if (df_dim.columnIndex()) {\n            unit = df_dim.unit();\n        }", ""),
 'S19_prop_unit_should': ('src/valid/validate.cpp', "must(property, &Property::unit, isValidUnit(), \"Unit is not SI or composite of SI units.\")", "should(property, &Property::unit, isValidUnit(), \"Unit is not SI or composite of SI units.\")"),
}

MUTANTS.update(MUTANTS2)
def sh(cmd, **kw):
    return subprocess.run(cmd, shell=True, stdout=subprocess.PIPE, stderr=subprocess.STDOUT, text=True, **kw)
if sh('git -C %s status --porcelain --untracked-files=no' % REPO).stdout.strip(): sys.exit('library worktree is dirty')
names = sys.argv[1:] or list(MUTANTS)
for n in names:
    f, old, new = MUTANTS[n]
    p = os.path.join(REPO, f)
    src = open(p).read()
    if old not in src:
        print(n, 'PATTERN NOT FOUND'); continue
    open(p, 'w').write(src.replace(old, new, 1))
    try:
        t = sh('cd %s && VERIF_REPO=%s bin/baseline_off -R Validate 2>&1 | tail -4' % (VERIF, REPO))
        suite = 'suite-pass' if '100% tests passed' in t.stdout else 'SUITE-FAIL'
        c = sh('cd %s && VERIF_REPO=%s bin/check C19 --tier quick 2>&1' % (VERIF, REPO))
        viol = [l for l in c.stdout.split('\n') if l.startswith('VIOLATION')]
        last = c.stdout.strip().split('\n')[-1]
        rules = []
        for v in viol:
            m = re.search(r'replay=(\S+)', v)
            if m:
                try:
                    head = open(os.path.join(VERIF, m.group(1))).readline().strip()
                    rules.append(head[2:])
                except Exception as e: pass
        print('%s: %s; exit=%d; %d VIOLATION; %s' % (n, suite, c.returncode, len(viol), last))
        for r in rules: print('     ', r)
        sys.stdout.flush()
    finally:
        sh('git -C %s checkout -- .' % REPO)
