#!/usr/bin/env python3
"""Regenerate MANIFEST.json from the check modules (checks/Cxx.py) — keeps the manifest valid and current."""
import importlib, json, os, sys
ROOT = os.path.dirname(os.path.dirname(os.path.abspath(__file__)))
sys.path.insert(0, ROOT)
props = [json.loads(l) for l in open(os.path.join(ROOT, 'properties.jsonl'))]
NA_DEFAULT = 'check under construction in this round (model and theorems not yet committed); the technique applies, see DESIGN.md §3'
checks, na, served = [], [], []
for p in props:
    pid = p['id']
    path = os.path.join(ROOT, 'checks', pid + '.py')
    mod = importlib.import_module('checks.' + pid) if os.path.exists(path) else None
    if mod is None or not getattr(mod, 'CLAIMED', hasattr(mod, 'LEVEL_TEXT')):
        na.append({'property_id': pid, 'reason': getattr(mod, 'NA_REASON', NA_DEFAULT) if mod else NA_DEFAULT})
        continue
    served.append(pid)
    checks.append({
        'property_id': pid,
        'quick_cmd': 'bin/check %s --tier quick' % pid,
        'thorough_cmd': 'bin/check %s --tier thorough' % pid,
        'evidence_file': 'evidence/%s.json' % pid,
        'replay_cmd_template': 'bin/check %s --replay {path}' % pid,
        'engine': 'lean-model',
        'level_claimed': {'category': 'proof', 'text': mod.LEVEL_TEXT, 'design_ref': 'DESIGN.md §3 ' + pid},
        'level_note': mod.LEVEL_NOTE,
        'technique': getattr(mod, 'TECHNIQUE', 'Lean 4 proof over a hand-written model + differential correspondence (trace validation) with the built library'),
    })
man = {
    'version': 1,
    'setup_cmd': 'bin/setup',
    'hooks': {'guard': 'NIX_VERIF',
              'enable': '-DNIX_VERIF is passed to every library and harness build made by the checks (vlib/build.py); no source hook has been needed so far: the harness uses the public API, raw HDF5 and process control only',
              'baseline_off_cmd': 'bin/baseline_off', 'source_commits': [], 'add_only': True},
    'engines': [
        {'name': 'lean-model', 'path': 'lean/', 'serves_properties': served,
         'kind_free_text': 'Lean 4 model + theorems (lake build, #print axioms audit) and compiled model driver `nixmodel`'},
        {'name': 'nixdrv', 'path': 'harness/', 'serves_properties': served,
         'kind_free_text': 'C++ correspondence harness linked against libnixio built from /repo\'s working tree'}],
    'checks': checks,
    'notes': 'See DESIGN.md. Every check = kernel-checked theorems about the Lean model + correspondence run (real library vs compiled model on generated traces; the property relation, the same Lean definition the theorems are about, is evaluated on the implementation\'s observations).',
    'not_applicable': na,
}
json.dump(man, open(os.path.join(ROOT, 'MANIFEST.json'), 'w'), indent=1)
print('manifest: %d checks, %d not claimed' % (len(checks), len(na)))
