"""Build steps shared by every check: library flavours, harness, tables, Lean library + driver."""
import shutil, fcntl, glob, hashlib, json, os, re, subprocess, sys, time

VERIF = os.path.dirname(os.path.dirname(os.path.abspath(__file__)))
REPO = os.environ.get('VERIF_REPO', '/repo')
WORK = os.path.join(VERIF, '.work')
LEAN = os.path.join(VERIF, 'lean')
NCPU = os.cpu_count() or 4

FLAVOURS = {
    'plain': {'cxxflags': '-Wno-error -DNIX_VERIF', 'ldflags': ''},
    'asan': {'cxxflags': '-Wno-error -DNIX_VERIF -fsanitize=address,undefined,float-cast-overflow -fno-sanitize-recover=undefined,float-cast-overflow -fno-omit-frame-pointer',
             'ldflags': '-fsanitize=address,undefined,float-cast-overflow'},
}

class BuildError(Exception):
    def __init__(self, what, log):
        super().__init__(what)
        self.what = what
        self.log = log

def sh(cmd, cwd=None, env=None, timeout=None):
    p = subprocess.run(cmd, cwd=cwd, env=env, shell=isinstance(cmd, str), stdout=subprocess.PIPE,
                       stderr=subprocess.STDOUT, text=True, errors='replace', timeout=timeout)
    return p.returncode, p.stdout

class Lock:
    """serialises the build phase between concurrently started checks"""
    def __enter__(self):
        os.makedirs(WORK, exist_ok=True)
        self.f = open(os.path.join(WORK, 'lock'), 'w')
        fcntl.flock(self.f, fcntl.LOCK_EX)
        return self
    def __exit__(self, *a):
        fcntl.flock(self.f, fcntl.LOCK_UN)
        self.f.close()

def libdir(flavour):
    return os.path.join(WORK, 'build-' + flavour)

def build_lib(flavour='plain'):
    """(incrementally) build libnixio.so from /repo's current working tree"""
    d = libdir(flavour)
    fl = FLAVOURS[flavour]
    t0 = time.time()
    # a build directory configured with other flags than this flavour has now is configured anew
    stamp = os.path.join(d, 'verif-flags.txt')
    want = 'INIT ' + fl['cxxflags'] + '\n' + fl['ldflags'] + '\n'
    if os.path.exists(os.path.join(d, 'build.ninja')) and (not os.path.exists(stamp) or open(stamp).read() != want):
        shutil.rmtree(d, ignore_errors=True)
    if not os.path.exists(os.path.join(d, 'build.ninja')):
        os.makedirs(d, exist_ok=True)
        open(stamp, 'w').write(want)
        cmd = ['cmake', '-G', 'Ninja', '-S', REPO, '-B', d, '-DCMAKE_BUILD_TYPE=RelWithDebInfo',
               '-DBUILD_TESTING=OFF', '-DCMAKE_CXX_FLAGS_INIT=' + fl['cxxflags']]     # the project's CMakeLists.txt builds CMAKE_CXX_FLAGS from …_INIT (a plain CMAKE_CXX_FLAGS is overwritten there)
        if fl['ldflags']:
            cmd.append('-DCMAKE_SHARED_LINKER_FLAGS=' + fl['ldflags'])
        rc, out = sh(cmd)
        if rc != 0:
            raise BuildError('cmake configure failed (%s)' % flavour, out)
    rc, out = sh(['ninja', '-C', d, '-j', str(NCPU), 'nixio'])
    if rc != 0:
        raise BuildError('library build failed (%s)' % flavour, out)
    return time.time() - t0

def build_harness(flavour='plain'):
    """compile harness/*.cpp against the freshly built library (make + -MMD dependency files)"""
    d = os.path.join(WORK, 'harness-' + flavour)
    os.makedirs(d, exist_ok=True)
    fl = FLAVOURS[flavour]
    ld = libdir(flavour)
    srcs = sorted(glob.glob(os.path.join(VERIF, 'harness', '*.cpp')))
    objs = [os.path.join(d, os.path.basename(s)[:-4] + '.o') for s in srcs]
    opt = '-O1'
    inc = '-I%s/include -I%s/include -I%s/backend -I/usr/include/hdf5/serial -I%s/harness' % (REPO, ld, REPO, VERIF)
    mk = ['CXX=g++', 'CXXFLAGS=-std=c++11 %s -g -w %s %s' % (opt, fl['cxxflags'], inc),
          'all: nixdrv', '']
    for s, o in zip(srcs, objs):
        mk.append('%s: %s Makefile\n\t$(CXX) $(CXXFLAGS) -MMD -MP -c %s -o %s' % (o, s, s, o))
    mk.append('nixdrv: %s %s/libnixio.so\n\t$(CXX) %s %s -o nixdrv -L%s -lnixio -lhdf5_serial -lpthread -Wl,-rpath,%s'
              % (' '.join(objs), ld, fl['ldflags'], ' '.join(objs), ld, ld))
    mk.append('-include %s' % ' '.join(o[:-2] + '.d' for o in objs))
    text = '\n'.join(mk) + '\n'
    mp = os.path.join(d, 'Makefile')
    if not os.path.exists(mp) or open(mp).read() != text:
        open(mp, 'w').write(text)
    rc, out = sh(['make', '-C', d, '-j', str(NCPU), '-s'])
    if rc != 0:
        raise BuildError('harness build failed (%s)' % flavour, out)
    return os.path.join(d, 'nixdrv')

def gen_tables():
    """regenerate NixModel/Gen/Tables.lean from the sources; returns (ok, message)"""
    out = os.path.join(LEAN, 'NixModel', 'Gen', 'Tables.lean')
    rc, o = sh([sys.executable, os.path.join(VERIF, 'gen', 'extract_tables.py'), REPO, out])
    if rc != 0:
        return False, o
    # the rule tables of the validator (src/valid/validate.cpp) as Lean data: Props/C19Source.lean proves the model's tables equal them
    out2 = os.path.join(LEAN, 'NixModel', 'Gen', 'ValidRules.lean')
    rc2, o2 = sh([sys.executable, os.path.join(VERIF, 'gen', 'extract_valid_rules.py'), REPO, out2])
    if rc2 != 0:
        return False, o + o2
    # the element-type mapping of the HDF5 backend (backend/hdf5/h5x/H5DataType.cpp): Props/C01Types.lean
    out3 = os.path.join(LEAN, 'NixModel', 'Gen', 'Types.lean')
    rc3, o3 = sh([sys.executable, os.path.join(VERIF, 'gen', 'extract_types.py'), REPO, out3])
    if rc3 != 0:
        return False, o + o2 + o3
    # every exception handler of the library, and whether it re-raises: Props/C09Catches.lean
    out4 = os.path.join(LEAN, 'NixModel', 'Gen', 'Catches.lean')
    rc4, o4 = sh([sys.executable, os.path.join(VERIF, 'gen', 'extract_catches.py'), REPO, out4])
    if rc4 != 0:
        return False, o + o2 + o3 + o4
    # which accessor (id / name) every by-entity overload of the front end forwards to its backend: Props/C04ByEntity.lean
    out5 = os.path.join(LEAN, 'NixModel', 'Gen', 'ByEntity.lean')
    rc5, o5 = sh([sys.executable, os.path.join(VERIF, 'gen', 'extract_byentity.py'), REPO, out5])
    if rc5 != 0:
        return False, o + o2 + o3 + o4 + o5
    # the container groups the backend constructors open, by name: Props/C02Containers.lean
    out6 = os.path.join(LEAN, 'NixModel', 'Gen', 'Containers.lean')
    rc6, o6 = sh([sys.executable, os.path.join(VERIF, 'gen', 'extract_containers.py'), REPO, out6])
    if rc6 != 0:
        return False, o + o2 + o3 + o4 + o5 + o6
    # the guards of the front-end create functions (name / type check, duplicate query, order): Props/C08Guards.lean
    out7 = os.path.join(LEAN, 'NixModel', 'Gen', 'CreateGuards.lean')
    rc7, o7 = sh([sys.executable, os.path.join(VERIF, 'gen', 'extract_createguards.py'), REPO, out7])
    if rc7 != 0:
        return False, o + o2 + o3 + o4 + o5 + o6 + o7
    # which unit predicate every front-end function calls: Props/C13UnitChecks.lean
    out8 = os.path.join(LEAN, 'NixModel', 'Gen', 'UnitChecks.lean')
    rc8, o8 = sh([sys.executable, os.path.join(VERIF, 'gen', 'extract_unitchecks.py'), REPO, out8])
    if rc8 != 0:
        return False, o + o2 + o3 + o4 + o5 + o6 + o7 + o8
    # which attribute / data set every backend member function names (getter, setter, reset, guards): Props/C02Fields.lean
    out9 = os.path.join(LEAN, 'NixModel', 'Gen', 'Fields.lean')
    rc9, o9 = sh([sys.executable, os.path.join(VERIF, 'gen', 'extract_fields.py'), REPO, out9])
    if rc9 != 0:
        return False, o + o2 + o3 + o4 + o5 + o6 + o7 + o8 + o9
    # the enum <-> string conversions of dimension kinds, link types and element types: Props/C13Enums.lean
    out10 = os.path.join(LEAN, 'NixModel', 'Gen', 'Enums.lean')
    rc10, o10 = sh([sys.executable, os.path.join(VERIF, 'gen', 'extract_enums.py'), REPO, out10])
    return rc10 == 0, o + o2 + o3 + o4 + o5 + o6 + o7 + o8 + o9 + o10

def lake(target):
    env = dict(os.environ)
    rc, out = sh(['lake', 'build', target], cwd=LEAN, env=env, timeout=3000)
    return rc, out

def build_driver():
    rc, out = lake('nixmodel')
    if rc != 0:
        raise BuildError('lean driver build failed', out)
    return os.path.join(LEAN, '.lake', 'build', 'bin', 'nixmodel')

def build_proofs():
    """build the whole Lean library (model + Props); returns (ok, failing modules, log)"""
    rc, out = lake('NixModel')
    bad = re.findall(r'^✖ \[\d+/\d+\] Building (\S+)', out, flags=re.M)
    return rc == 0, bad, out

FORBIDDEN = re.compile(r'\b(sorry|admit|native_decide|bv_decide|implemented_by|unsafe)\b|^\s*axiom\s|maxHeartbeats\s+0')

def strip_lean_comments(src):
    # nested block comments and line comments
    out = []
    i = 0; depth = 0; n = len(src)
    while i < n:
        if src.startswith('/-', i):
            depth += 1; i += 2; continue
        if depth > 0 and src.startswith('-/', i):
            depth -= 1; i += 2; continue
        if depth > 0:
            if src[i] == '\n': out.append('\n')
            i += 1; continue
        if src.startswith('--', i):
            while i < n and src[i] != '\n': i += 1
            continue
        out.append(src[i]); i += 1
    return ''.join(out)

def strip_strings(src):
    return re.sub(r'"(?:[^"\\]|\\.)*"', '""', src)

def hygiene():
    """grep the Lean sources (comments and string literals removed) for forbidden constructs"""
    hits = []
    for p in sorted(glob.glob(os.path.join(LEAN, '**', '*.lean'), recursive=True)):
        if '/.lake/' in p:
            continue
        src = strip_strings(strip_lean_comments(open(p, encoding='utf-8').read()))
        for ln, line in enumerate(src.split('\n'), 1):
            if FORBIDDEN.search(line):
                hits.append('%s:%d: %s' % (os.path.relpath(p, VERIF), ln, line.strip()))
    return hits

ALLOWED_AXIOMS = {'propext', 'Classical.choice', 'Quot.sound'}

def audit(theorems, tag, modules):
    """build the property's proof modules, then `#print axioms` for every theorem;
    returns {name: (ok, [axioms] | error text)}"""
    d = os.path.join(WORK, 'audit')
    os.makedirs(d, exist_ok=True)
    f = os.path.join(d, 'Audit_%s.lean' % tag)
    brc, bout = sh(['lake', 'build'] + list(modules), cwd=LEAN, timeout=3000)
    with open(f, 'w') as h:
        for m in modules:
            h.write('import %s\n' % m)
        for t in theorems:
            h.write('#print axioms %s\n' % t)
    rc, out = sh(['lake', 'env', 'lean', f], cwd=LEAN, timeout=1200)
    if brc != 0:
        out = bout[-3000:] + '\n' + out
    res = {}
    # messages: "'Nix.C10.lt_irrefl' depends on axioms: [propext]" / "... does not depend on any axioms"
    for t in theorems:
        m = re.search(r"'%s' depends on axioms: \[([^\]]*)\]" % re.escape(t), out, flags=re.S)
        if m:
            ax = [a.strip() for a in m.group(1).replace('\n', ' ').split(',') if a.strip()]
            res[t] = (all(a in ALLOWED_AXIOMS for a in ax), ax)
        elif re.search(r"'%s' does not depend on any axioms" % re.escape(t), out):
            res[t] = (True, [])
        else:
            res[t] = (False, 'not found / does not check')
    return res, out

def leancheck(modules):
    """re-check the compiled .olean files of the given modules with the toolchain's independent checker (one module per call)"""
    bad, log = [], ''
    for m in modules:
        rc, out = sh(['lake', 'env', 'leanchecker', m], cwd=LEAN, timeout=1800)
        if rc != 0:
            bad.append(m); log += '== %s\n%s\n' % (m, out[-2000:])
    return bad, log

def repo_rev():
    rc, rev = sh(['git', '-C', REPO, 'rev-parse', 'HEAD'])
    rc2, st = sh(['git', '-C', REPO, 'status', '--porcelain', '--untracked-files=no'])
    return rev.strip(), bool(st.strip())
