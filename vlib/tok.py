"""token encoders of the trace protocol (Python side)"""
import struct
def f64(x):
    return 'd%016x' % struct.unpack('<Q', struct.pack('<d', float(x)))[0]
def unf64(t):
    return struct.unpack('<d', struct.pack('<Q', int(t[1:], 16)))[0]
def s(x):
    if x is None:
        return '~'
    return 'x' + x.encode('utf-8').hex()
def lst(xs):
    return '[' + ','.join(xs) + ']'
def opt(x, f):
    return '~' if x is None else f(x)
