"""Generic check flow (DESIGN.md §2.4, §2.5, §7): build, prove/audit, generate, run the real library,
replay on the Lean model, judge, shrink, match known findings, write evidence."""
import glob, hashlib, json, os, random, re, shutil, signal, subprocess, sys, time
from . import build as B

VERIF = B.VERIF

class Case:
    """one generated input: a list of op lines executed in order in one harness session"""
    __slots__ = ('lines', 'origin', 'meta')
    def __init__(self, lines, origin='gen', meta=None):
        self.lines = list(lines)
        self.origin = origin
        self.meta = meta or {}
    def key(self):
        return hashlib.sha1('\n'.join(self.lines).encode()).hexdigest()

class Failure:
    def __init__(self, case, kind, line_no, line, verdict):
        self.case = case          # Case
        self.kind = kind          # 'REL' | 'DIFF' | 'FATAL' | 'MALFORMED' | 'UNKNOWN'
        self.line_no = line_no    # index into case.lines
        self.line = line          # the trace line (op => impl result)
        self.verdict = verdict    # driver verdict text
    def rule(self):
        m = re.search(r'rule=(\S+)', self.verdict or '')
        return m.group(1) if m else ''
    def tag(self):
        p = (self.verdict or '').split()
        return p[1] if len(p) > 1 else ''

HARNESS_ENV = {}       # extra environment of the harness process, from the check module (HARNESS_ENV)

# memcheck on the PLAIN build: addressability errors only (reads / writes outside allocated blocks, bad frees) — also inside
# libraries that are not instrumented, which the sanitizer build cannot see into (libhdf5); stop at the first error
VALGRIND = ['valgrind', '-q', '--error-exitcode=97', '--exit-on-first-error=yes', '--leak-check=no',
            '--num-callers=25']

def run_harness(nixdrv, lines, workdir, sync=False, timeout=900, asan=False, prefix=None):
    """returns (returncode, stdout lines, stderr text)"""
    os.makedirs(workdir, exist_ok=True)
    ops = os.path.join(workdir, 'ops.txt')
    with open(ops, 'w') as f:
        f.write('\n'.join(lines) + '\n')
    env = dict(os.environ)
    env.update(HARNESS_ENV)
    if sync:
        env['NIXDRV_SYNC'] = '1'
    env['ASAN_OPTIONS'] = 'detect_leaks=0:abort_on_error=1'
    env['UBSAN_OPTIONS'] = 'print_stacktrace=1:halt_on_error=1'
    scratch = os.path.join(workdir, 'scratch')
    shutil.rmtree(scratch, ignore_errors=True)
    os.makedirs(scratch)
    try:
        p = subprocess.run((prefix or []) + [nixdrv, ops, scratch], stdout=subprocess.PIPE, stderr=subprocess.PIPE, env=env,
                           timeout=timeout)
        rc, out, err = p.returncode, p.stdout, p.stderr
    except subprocess.TimeoutExpired as e:
        rc, out, err = -999, e.stdout or b'', (e.stderr or b'') + b'\nTIMEOUT'
    return rc, out.decode('utf-8', 'replace').split('\n'), err.decode('utf-8', 'replace')

def run_driver(driver, trace_lines, workdir):
    tr = os.path.join(workdir, 'trace.txt')
    with open(tr, 'w') as f:
        f.write('\n'.join(trace_lines) + '\n')
    p = subprocess.run([driver, tr], stdout=subprocess.PIPE, stderr=subprocess.PIPE, timeout=3000)
    if p.returncode != 0:
        raise B.BuildError('lean driver crashed', p.stderr.decode('utf-8', 'replace'))
    return p.stdout.decode('utf-8', 'replace').split('\n')

def execute(ctx, cases):
    """Run all cases on the implementation and the model.
    Returns (failures, stats).  Each case starts with an implicit harness `reset`.
    Cases with meta['no_driver'] (token-level abuse programs: a model replay is not meaningful) run on the harness only and
    are judged for survival alone."""
    vg = [c for c in cases if c.meta.get('valgrind')]
    if vg and len(vg) < len(cases):
        f1, s1 = execute(ctx, [c for c in cases if not c.meta.get('valgrind')])
        f2, s2 = execute(ctx, vg)
        for k in ('lines', 'fatal', 'cases', 'diff', 'rel'):
            s1[k] += s2[k]
        for k, v in s2['ok_tags'].items():
            s1['ok_tags'][k] = s1['ok_tags'].get(k, 0) + v
        return f1 + f2, s1
    if vg:
        # cases for memcheck: the plain build under valgrind, harness only, judged for survival
        ctx = dict(ctx, nixdrv=ctx.get('nixdrv_plain', ctx['nixdrv']), prefix=VALGRIND, sync=True)
    nd = [c for c in cases if c.meta.get('no_driver')]
    if nd and len(nd) < len(cases):
        f1, s1 = execute(ctx, [c for c in cases if not c.meta.get('no_driver')])
        f2, s2 = execute(ctx, nd)
        for k in ('lines', 'fatal', 'cases', 'diff', 'rel'):
            s1[k] += s2[k]
        for k, v in s2['ok_tags'].items():
            s1['ok_tags'][k] = s1['ok_tags'].get(k, 0) + v
        return f1 + f2, s1
    harness_only = bool(nd) or bool(vg)
    failures = []
    stats = {'lines': 0, 'ok_tags': {}, 'fatal': 0, 'nontrivial_keys': set(), 'cases': 0, 'diff': 0, 'rel': 0}
    rest = list(cases)
    batch_no = 0
    single = False      # after a batch ran out of time: run the case it stopped in alone, with the whole time budget
    batch_lines = ctx.get('batch_lines', 30000)
    while rest:
        batch_no += 1
        # assemble a batch of bounded size: the time limit below is meant for one hanging case, not for the sum of all cases
        # (a loaded machine once turned "3000 cases under ASan took more than 30 minutes" into a FATAL verdict)
        pending = []
        nl = 0
        while rest and (not pending or (not single and nl + len(rest[0].lines) + 1 <= batch_lines)):
            nl += len(rest[0].lines) + 1
            pending.append(rest.pop(0))
        lines = []
        owner = []   # (case index in pending, line index in case) per emitted line
        for ci, c in enumerate(pending):
            lines.append('reset'); owner.append((ci, -1))
            for li, l in enumerate(c.lines):
                lines.append(l); owner.append((ci, li))
        rc, out, err = run_harness(ctx['nixdrv'], lines, ctx['rundir'], sync=ctx.get('sync', False),
                                   timeout=ctx.get('harness_timeout', 1800), prefix=ctx.get('prefix'))
        trace = [l for l in out if l and not l.startswith('@ ')]
        done = len(trace)
        crashed = rc != 0
        if crashed and not ctx.get('sync', False):
            # rerun synchronously to locate the culprit
            rc, out, err = run_harness(ctx['nixdrv'], lines, ctx['rundir'], sync=True,
                                       timeout=ctx.get('harness_timeout', 1800), prefix=ctx.get('prefix'))
            trace = [l for l in out if l and not l.startswith('@ ')]
            done = len(trace)
            crashed = rc != 0
        n_complete = done if done <= len(lines) else len(lines)
        timed_out = crashed and rc == -999
        if timed_out and len(pending) > 1:
            # out of time with several cases in the batch: judge the cases that finished, then run the one it stopped in alone
            cci = (owner[n_complete] if n_complete < len(owner) else owner[-1])[0]
            n_complete = sum(1 for (ci, _) in owner if ci < cci)
            rest = pending[cci:] + rest
            pending = pending[:cci]
            single = True
            crashed = False
        else:
            single = False
        # judge completed lines
        if harness_only:
            # no model replay: every completed line counts as answered (`ok` / `err` is not judged)
            verdicts = ['OK abuse.' + ('err' if ' => err' in t else 'answered') for t in trace[:n_complete]]
        else:
            verdicts = run_driver(ctx['driver'], trace[:n_complete], ctx['rundir']) if n_complete else []
        for k in range(n_complete):
            ci, li = owner[k]
            if li < 0:
                continue
            v = verdicts[k] if k < len(verdicts) else 'MISSING'
            c = pending[ci]
            stats['lines'] += 1
            if v.startswith('OK'):
                tag = v[3:].strip()
                stats['ok_tags'][tag] = stats['ok_tags'].get(tag, 0) + 1
                c.meta.setdefault('tags', []).append(tag)
            elif v.startswith('-'):
                pass
            else:
                kind = v.split()[0]
                if kind not in ('REL', 'DIFF', 'MALFORMED', 'UNKNOWN'):
                    kind = 'MALFORMED'
                failures.append(Failure(c, kind, li, trace[k], v))
                if kind == 'DIFF': stats['diff'] += 1
                if kind == 'REL': stats['rel'] += 1
        if crashed:
            stats['fatal'] += 1
            ci, li = owner[n_complete] if n_complete < len(owner) else owner[-1]
            c = pending[ci]
            sig = 'signal %d' % (-rc) if rc < 0 else 'exit %d' % rc
            tail = '\n'.join(err.strip().split('\n')[-40:])
            failures.append(Failure(c, 'FATAL', li, lines[n_complete] if n_complete < len(lines) else '?',
                                    'FATAL %s\n%s' % (sig, tail)))
            stats['cases'] += ci + 1
            rest = pending[ci + 1:] + rest
        else:
            stats['cases'] += len(pending)
    return failures, stats

def case_fails_same(ctx, lines, want_kind, want_rule, want_tag, meta=None):
    """predicate for shrinking: does this op list still fail the same way?"""
    c = Case(lines, meta={k: v for k, v in (meta or {}).items() if k in ('valgrind', 'no_driver')})
    fs, _ = execute(ctx, [c])
    if any('PROTO-ERROR' in (f.line or '') for f in fs):
        return False          # the reduced trace is not a well-formed program any more
    for f in fs:
        if f.kind == want_kind and (want_kind == 'FATAL' or (f.rule() == want_rule and f.tag().split('.')[0] == want_tag.split('.')[0])):
            return True
    return False

def ddmin(ctx, lines, pred, budget=60):
    """delta debugging over op lines"""
    n = 2
    calls = 0
    cur = list(lines)
    while len(cur) >= 2 and calls < budget:
        chunk = max(1, len(cur) // n)
        reduced = False
        for i in range(0, len(cur), chunk):
            cand = cur[:i] + cur[i + chunk:]
            if not cand:
                continue
            calls += 1
            if pred(cand):
                cur = cand
                n = max(n - 1, 2)
                reduced = True
                break
            if calls >= budget:
                break
        if not reduced:
            if chunk == 1:
                break
            n = min(len(cur), n * 2)
    return cur

def shrink(ctx, f):
    if len(f.case.lines) <= 1:
        return f.case.lines
    mod = ctx.get('mod')
    if mod is not None and hasattr(mod, 'minimal'):
        # family-specific guess at the minimal reproducer (e.g. the axis declaration + the failing probe)
        cand = mod.minimal(f)
        if cand and case_fails_same(ctx, cand, f.kind, f.rule(), f.tag(), f.case.meta):
            return cand
    # cut after the failing line first
    lines = f.case.lines[:f.line_no + 1]
    rule, tag, kind = f.rule(), f.tag(), f.kind
    pred = lambda ls: case_fails_same(ctx, ls, kind, rule, tag, f.case.meta)
    if not pred(lines):
        return f.case.lines
    return ddmin(ctx, lines, pred)

def load_known():
    p = os.path.join(VERIF, 'known_findings.json')
    if not os.path.exists(p):
        return []
    return json.load(open(p))

def write_replay(pid, f, lines, ctx, note):
    d = os.path.join(VERIF, 'replays')
    os.makedirs(d, exist_ok=True)
    h = hashlib.sha1(('\n'.join(lines) + f.kind + f.rule()).encode()).hexdigest()[:12]
    p = os.path.join(d, '%s-%s.trace' % (pid, h))
    rev, dirty = B.repo_rev()
    with open(p, 'w') as o:
        o.write('# property=%s kind=%s rule=%s tag=%s\n' % (pid, f.kind, f.rule(), f.tag()))
        o.write('# %s\n' % note)
        o.write('# seed=%s tier=%s repo=%s%s\n' % (ctx['seed'], ctx['tier'], rev, '+dirty' if dirty else ''))
        o.write('# failing line: %s\n' % f.line.replace('\n', ' '))
        for vl in (f.verdict or '').split('\n')[:30]:
            o.write('# verdict: %s\n' % vl)
        o.write('# replay: bin/check %s --replay %s\n' % (pid, os.path.relpath(p, VERIF)))
        if f.case.meta.get('valgrind'):
            o.write('# memcheck (plain build under valgrind: addressability errors and uses of uninitialised values, also inside libhdf5)\n')
        for l in lines:
            o.write(l + '\n')
    return p

def read_replay(path):
    return [l.rstrip('\n') for l in open(path) if l.strip() and not l.startswith('#')]

def replay_meta(path):
    """a replay / corpus file that says `# memcheck` in its header runs on the plain build under valgrind"""
    return {'valgrind': True} if any(l.startswith('# memcheck') for l in open(path)) else {}

def main(mod, argv):
    import argparse
    ap = argparse.ArgumentParser()
    ap.add_argument('--tier', default=os.environ.get('VERIF_TIER', 'quick'))
    ap.add_argument('--replay')
    ap.add_argument('--seed', type=int, default=int(os.environ.get('VERIF_SEED', '1')))
    ap.add_argument('--keep', action='store_true')
    a = ap.parse_args(argv)
    pid = mod.ID
    t0 = time.time()
    tier = a.tier if a.tier in ('quick', 'thorough') else 'quick'
    ctx = {'seed': a.seed, 'tier': tier, 'pid': pid, 'mod': mod}
    HARNESS_ENV.update(getattr(mod, 'HARNESS_ENV', {}))
    if os.environ.get('VERIF_HARNESS_TIMEOUT'):      # for testing the out-of-time path
        ctx['harness_timeout'] = float(os.environ['VERIF_HARNESS_TIMEOUT'])
    if os.environ.get('VERIF_BATCH_LINES'):
        ctx['batch_lines'] = int(os.environ['VERIF_BATCH_LINES'])
    ctx['rundir'] = os.path.join(B.WORK, 'run-%s-%d' % (pid, os.getpid()))
    out_lines = []
    violations = []      # (replay path, suffix)
    notes = []
    flavour = getattr(mod, 'FLAVOUR', {}).get(tier, 'plain')
    ctx['sync'] = flavour == 'asan'
    proof_problem = None   # (what, detail) when an obligation / hygiene / build does not check

    try:
        with B.Lock():
            tb = time.time()
            B.build_lib(flavour)
            ctx['nixdrv'] = B.build_harness(flavour)
            if getattr(mod, 'NEEDS_PLAIN', False) and flavour != 'plain':
                B.build_lib('plain')
                ctx['nixdrv_plain'] = B.build_harness('plain')
            ok, msg = B.gen_tables()
            if not ok:
                proof_problem = ('table extraction failed', msg)
            ctx['driver'] = B.build_driver()
            # proofs of this property
            theorems = list(mod.THEOREMS)
            aud, audlog = B.audit(theorems, pid, getattr(mod, 'LEAN_MODULES', ['NixModel.Props.' + pid])) if not a.replay else ({}, '')
            hyg = B.hygiene() if not a.replay else []
            # thorough: the compiled proofs of this property are re-checked by leanchecker, independently of `lean`
            lc_bad, lc_log = (B.leancheck(getattr(mod, 'LEAN_MODULES', ['NixModel.Props.' + pid])) if (tier == 'thorough' and not a.replay) else ([], ''))
            ctx['build_s'] = time.time() - tb
    except B.BuildError as e:
        # the tree does not build, or the harness no longer compiles against it
        rp = os.path.join(VERIF, 'replays', '%s-build.txt' % pid)
        os.makedirs(os.path.dirname(rp), exist_ok=True)
        open(rp, 'w').write('# property=%s\n# %s\n%s\n' % (pid, e.what, e.log[-6000:]))
        print('VIOLATION property=%s replay=%s no-failing-input-found' % (pid, os.path.relpath(rp, VERIF)))
        write_evidence(mod, ctx, tier, a.seed, t0, {}, [], 0, 0, [], ['build failed: ' + e.what], 1)
        return 1

    try:
        if a.replay:
            lines = read_replay(a.replay)
            rc_ = Case(lines, 'replay'); rc_.meta.update(replay_meta(a.replay))
            fs, st = execute(ctx, [rc_])
            for f in fs:
                print('%s line %d: %s\n   %s' % (f.kind, f.line_no, f.line, f.verdict))
            if fs:
                print('VIOLATION property=%s replay=%s' % (pid, a.replay))
                return 1
            print('replay passes: %d lines' % st['lines'])
            return 0

        discharged = [t for t in theorems if aud.get(t, (False,))[0]]
        undischarged = [t for t in theorems if t not in discharged]
        if undischarged:
            proof_problem = ('theorems do not check: ' + ', '.join(undischarged),
                             '\n'.join('%s: %s' % (t, aud.get(t)) for t in undischarged) + '\n' + audlog[-4000:])
        if hyg:
            proof_problem = ('forbidden construct in Lean sources', '\n'.join(hyg))
        if lc_bad:
            proof_problem = ('leanchecker rejects compiled modules: ' + ', '.join(lc_bad), lc_log)
        if tier == 'thorough':
            notes.append('leanchecker re-checked: ' + ', '.join(getattr(mod, 'LEAN_MODULES', ['NixModel.Props.' + pid])))

        rng = random.Random(a.seed * 1000003 + 17)
        cases = []
        for p in sorted(glob.glob(os.path.join(VERIF, 'corpus', pid, '*.trace'))):
            cases.append(Case(read_replay(p), 'corpus:' + os.path.basename(p)))
            cases[-1].meta.update(replay_meta(p))
        cases.extend(mod.cases(tier, a.seed, rng))
        failures, stats = execute(ctx, cases)
        if hasattr(mod, 'relevant'):
            # a check that re-runs the inputs of other families judges only its own kind of failure
            failures = [f for f in failures if mod.relevant(f)]
        if hasattr(mod, 'judge'):
            failures = [f for f in failures if mod.judge(f)]     # a check may restrict which verdict kinds it judges (C16: FATAL only)

        known = [k for k in load_known() if k.get('property') == pid and k.get('status') == 'known']
        seen_known = {}
        real = []
        for f in failures:
            sig = mod.signature(f) if hasattr(mod, 'signature') else '%s:%s:%s' % (f.kind, f.tag(), f.rule())
            k = next((k for k in known if k['signature'] == sig), None)
            if k is not None and f.kind in ('REL', 'FATAL'):
                seen_known.setdefault(sig, (k, f))
            else:
                real.append((f, sig))
        for sig, (k, f) in seen_known.items():
            print('KNOWN-FINDING: property=%s %s [%s]' % (pid, k['description'], sig))
        # group real failures by signature; REL / FATAL outrank DIFF
        by_sig = {}
        for f, sig in real:
            by_sig.setdefault(sig, []).append(f)
        rel_sigs = [s for s, fs in by_sig.items() if fs[0].kind in ('REL', 'FATAL')]
        other_sigs = [s for s in by_sig if s not in rel_sigs]
        reported = 0
        for sig in rel_sigs[:8]:
            f = min(by_sig[sig], key=lambda f: len(f.case.lines))
            lines = shrink(ctx, f)
            rp = write_replay(pid, f, lines, ctx, 'the property relation is false on the implementation (signature %s)' % sig)
            print('VIOLATION property=%s replay=%s' % (pid, os.path.relpath(rp, VERIF)))
            reported += 1
        if not rel_sigs:
            for sig in other_sigs[:8]:
                f = min(by_sig[sig], key=lambda f: len(f.case.lines))
                lines = shrink(ctx, f)
                what = {'DIFF': 'correspondence model/implementation no longer checks',
                        'MALFORMED': 'trace line not understood by the driver (harness/driver mismatch)',
                        'UNKNOWN': 'op unknown to the driver'}.get(f.kind, f.kind)
                rp = write_replay(pid, f, lines, ctx, '%s (signature %s); no input with a false property relation was found among %d cases'
                                  % (what, sig, stats['cases']))
                print('VIOLATION property=%s replay=%s no-failing-input-found' % (pid, os.path.relpath(rp, VERIF)))
                reported += 1
        if proof_problem and not rel_sigs:
            rp = os.path.join(VERIF, 'replays', '%s-proof.txt' % pid)
            os.makedirs(os.path.dirname(rp), exist_ok=True)
            open(rp, 'w').write('# property=%s\n# %s\n%s\n' % (pid, proof_problem[0], proof_problem[1]))
            print('VIOLATION property=%s replay=%s no-failing-input-found' % (pid, os.path.relpath(rp, VERIF)))
            reported += 1

        write_evidence(mod, ctx, tier, a.seed, t0, stats, cases, len(theorems), len(discharged), theorems,
                       notes + ([proof_problem[0]] if proof_problem else []), reported,
                       known_seen=[k['signature'] for k, _ in seen_known.values()])
        print('%s %s: %d cases, %d op lines, %d theorems (%d discharged), %d REL, %d DIFF, %d fatal, %d known findings, %.1fs'
              % (pid, tier, stats['cases'], stats['lines'], len(theorems), len(discharged), stats['rel'], stats['diff'],
                 stats['fatal'], len(seen_known), time.time() - t0))
        return 1 if reported else 0
    finally:
        if not a.keep:
            shutil.rmtree(ctx['rundir'], ignore_errors=True)

def write_evidence(mod, ctx, tier, seed, t0, stats, cases, nthm, ndis, theorems, notes, violations, known_seen=()):
    pid = mod.ID
    nontriv = set()
    for c in cases:
        tags = c.meta.get('tags', [])
        if tags and mod.nontrivial(c, tags):
            nontriv.add(c.key())
    samples = []
    step = max(1, len(cases) // 5) if cases else 1
    for c in cases[::step][:6]:
        samples.append({'origin': c.origin, 'ops': c.lines[:12], 'n_ops': len(c.lines), 'model_paths': c.meta.get('tags', [])[:12]})
    ev = {
        'property_id': pid, 'tier': tier, 'seed': seed, 'level': 'proof',
        'coverage': {
            'obligations': nthm, 'discharged': ndis,
            'checker_cmd': 'cd lean && lake build NixModel && lake env lean .work/audit/Audit_%s.lean  (#print axioms on every listed theorem; allowed: propext, Classical.choice, Quot.sound)' % pid,
            'trusted_base': list(getattr(mod, 'TRUSTED', [])) + [
                'Lean 4.33.0 kernel; axioms propext, Classical.choice, Quot.sound only (audited this run)',
                'gen/extract_tables.py (constant tables), harness/nixdrv (C++), vlib/*.py, Lean compiler for the driver executable'],
            'theorems': theorems,
            'evaluations': stats.get('cases', 0),
            'distinct_nontrivial': len(nontriv),
            'rule': getattr(mod, 'RULE', ''),
            'samples': samples,
            'traces_validated_against_impl': stats.get('cases', 0),
            'op_lines': stats.get('lines', 0),
            'disagreements_checked': stats.get('diff', 0) + stats.get('rel', 0),
            'model_path_distribution': dict(sorted(stats.get('ok_tags', {}).items(), key=lambda kv: -kv[1])[:60]),
            'fatal': stats.get('fatal', 0),
            'known_findings_seen': list(known_seen),
            'exhaustive': bool(getattr(mod, 'EXHAUSTIVE', {}).get(tier, False)),
            'notes': notes,
        },
        'assumptions': list(getattr(mod, 'ASSUMPTIONS', [])),
        'wall_s': round(time.time() - t0, 2),
        'violations': violations,
    }
    d = os.path.join(VERIF, 'evidence')
    os.makedirs(d, exist_ok=True)
    with open(os.path.join(d, pid + '.json'), 'w') as f:
        json.dump(ev, f, indent=1)
