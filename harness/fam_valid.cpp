// ops of the `valid` family (C19): the validator.
//   vl_desc      prints what the public getters answer for every entity File::validate() visits (the model's input)
//   vl_validate  prints what File::validate() reports: (id, severity, message class) per message
//   vl_set       a few API setters the store family does not have (polynom coefficients, expansion origin)
//   vl_raw       breach injection with raw HDF5 on the file nix has open (what the API refuses to create):
//                delete a link / an attribute, rewrite a string or double attribute, replace a 1-d dataset
// Entities are addressed by the slots of the store family.
#include "common.hpp"
#include "store.hpp"
#include <hdf5.h>
#include <algorithm>

using namespace drv;
using namespace drv::store;

namespace {

template<typename F> std::string got(F f) {
    try { return f(); }
    catch (const ProtoError &) { throw; }
    catch (const std::exception &) { return "!"; }
    catch (...) { return "!"; }
}
std::string optStr(const boost::optional<std::string> &o) { return o ? hexStr(*o) : std::string("~"); }

// ---- description ---------------------------------------------------------------------------------------------
template<typename E> std::string namedTok(const E &e) {
    return got([&]() { return hexStr(e.id()); }) + " " + got([&]() { return hexStr(e.name()); }) + " " +
           got([&]() { return hexStr(e.type()); }) + " " + got([&]() { return std::to_string((long long) e.createdAt()); });
}

std::string dimRec(const nix::Dimension &dim) {
    std::string idx = got([&]() { return std::to_string((unsigned long long) dim.index()); });
    switch (dim.dimensionType()) {
    case nix::DimensionType::Range: {
        nix::RangeDimension d = dim.asRangeDimension();
        std::string t = got([&]() { std::vector<std::string> l; for (double x : d.ticks()) l.push_back(f64Tok(x)); return listTok(l); });
        return "X R " + idx + " " + t + " " + got([&]() { return optStr(d.unit()); });
    }
    case nix::DimensionType::Sample: {
        nix::SampledDimension d = dim.asSampledDimension();
        return "X S " + idx + " " + got([&]() { return f64Tok(d.samplingInterval()); }) + " " +
               got([&]() { return std::string(d.offset() ? "1" : "0"); }) + " " + got([&]() { return optStr(d.unit()); });
    }
    case nix::DimensionType::Set: {
        nix::SetDimension d = dim.asSetDimension();
        return "X T " + idx + " " + got([&]() { return std::to_string(d.labels().size()); });
    }
    case nix::DimensionType::DataFrame: {
        nix::DataFrameDimension d = dim.asDataFrameDimension();
        // the unit of the column, when a column index is set (what util::getDimensionUnit starts from)
        return "X F " + idx + " " + got([&]() { return std::to_string((unsigned long long) d.size()); }) + " " +
               got([&]() { return d.columnIndex() ? hexStr(d.unit()) : std::string("~"); });
    }
    }
    return "X ?";
}

// the referenced arrays by id AND name (raw edits can blank the ids of several arrays of a block; the pair stays unambiguous):
// the model derives the units of their dimensions itself (valid::getDimensionsUnits)
template<typename T> std::string refsTok(const T &t) {
    return got([&]() {
        std::vector<std::string> l;
        for (auto &ref : t.references()) l.push_back(hexStr(ref.id() + "\x1f" + ref.name()));
        return listTok(l);
    });
}
template<typename T> std::string unitsTok(const T &t) {
    return got([&]() { std::vector<std::string> l; for (auto &u : t.units()) l.push_back(hexStr(u)); return listTok(l); });
}
template<typename T> void featRecs(std::vector<std::string> &out, const T &t) {
    for (auto &f : t.features()) {
        out.push_back("R " + got([&]() { return hexStr(f.id()); }) + " " + got([&]() { return std::to_string((long long) f.createdAt()); }) + " " +
                      got([&]() { return std::string(f.data() ? "1" : "0"); }) + " " +
                      got([&]() { return std::to_string((int) f.linkType()); }));
    }
}
void allSources(std::vector<std::string> &ids, const nix::Source &s) {
    ids.push_back(hexStr(s.id()));
    size_t n = s.sourceCount();
    for (size_t i = 0; i < n; i++) allSources(ids, s.getSource(i));
}
void allSections(std::vector<std::string> &ids, const nix::Section &s) {
    ids.push_back(hexStr(s.id()));
    size_t n = s.sectionCount();
    for (size_t i = 0; i < n; i++) allSections(ids, s.getSection(i));
}

std::string describe(const nix::File &f) {
    std::vector<std::string> out;
    {   // header: every section of the tree, enumerated by index (not through findSections)
        std::vector<std::string> ids;
        size_t n = f.sectionCount();
        for (size_t i = 0; i < n; i++) allSections(ids, f.getSection(i));
        out.push_back("H " + listTok(ids));
    }
    for (auto &b : f.blocks()) {
        std::vector<std::string> sids;
        { size_t n = b.sourceCount(); for (size_t i = 0; i < n; i++) allSources(sids, b.getSource(i)); }
        out.push_back("B " + namedTok(b) + " " + listTok(sids));
        for (auto &a : b.dataArrays()) {
            out.push_back("A " + namedTok(a) + " " +
                got([&]() { return std::string(a.dataType() != nix::DataType::Nothing ? "1" : "0"); }) + " " +
                got([&]() { return std::to_string((unsigned long long) a.dimensionCount()); }) + " " +
                got([&]() { nix::NDSize s = a.dataExtent(); std::vector<std::string> l; for (size_t k = 0; k < s.size(); k++) l.push_back(std::to_string((unsigned long long) s[k])); return listTok(l); }) + " " +
                got([&]() { return optStr(a.unit()); }) + " " +
                got([&]() { return std::to_string(a.polynomCoefficients().size()); }) + " " +
                got([&]() { return std::string(a.expansionOrigin() ? "1" : "0"); }));
            for (auto &d : a.dimensions()) out.push_back(dimRec(d));
        }
        for (auto &m : b.multiTags()) {
            out.push_back("M " + namedTok(m) + " " + got([&]() { return std::string(m.positions() ? "1" : "0"); }) + " " +
                          unitsTok(m) + " " + refsTok(m));
            featRecs(out, m);
        }
        for (auto &t : b.tags()) {
            out.push_back("T " + namedTok(t) + " " + got([&]() { return std::string(t.position().empty() ? "0" : "1"); }) + " " +
                          unitsTok(t) + " " + refsTok(t));
            featRecs(out, t);
        }
        for (auto &s : b.findSources()) out.push_back("O " + namedTok(s));
    }
    for (auto &s : f.findSections()) {
        out.push_back("S " + namedTok(s));
        for (auto &p : s.properties()) {
            out.push_back("P " + got([&]() { return hexStr(p.id()); }) + " " + got([&]() { return hexStr(p.name()); }) + " " +
                          got([&]() { return std::to_string((long long) p.createdAt()); }) + " " +
                          got([&]() { return std::to_string((unsigned long long) p.valueCount()); }) + " " +
                          got([&]() { return optStr(p.unit()); }));
        }
    }
    std::string r = std::to_string(out.size());
    for (auto &x : out) r += " | " + x;
    return r;
}

// ---- message classes -------------------------------------------------------------------------------------------
// exact message texts of src/valid/validate.cpp; a text this table does not know is printed as class `?` (the driver
// then compares id and severity only), so rewording a message is not a difference
const std::map<std::string, std::string> &classes() {
    static const std::map<std::string, std::string> m = {
        {"id is not set!", "id"}, {"date is not set!", "date"}, {"no name set!", "name"}, {"no type set!", "type"},
        {"name is not set!", "name"},
        {"data type is not set!", "dtype"},
        {"data dimensionality does not match number of defined dimensions!", "ndims"},
        {"in some of the Range dimensions the number of ticks differs from the number of data entries along the corresponding data dimension!", "ticksN"},
        {"in some of the Set dimensions the number of labels differs from the number of data entries along the corresponding data dimension!", "labelsN"},
        {"in some of the DataFrame dimensions the number of rows in the DataFrame does not match the number of data entries along the corresponding data dimension!", "rowsN"},
        {"Unit is not SI or composite of SI units.", "unitSI"},
        {"polynomial coefficients for calibration are set, but expansion origin is missing!", "noOrigin"},
        {"expansion origin for calibration is set, but polynomial coefficients are missing!", "noPoly"},
        {"position is not set!", "pos"}, {"positions are not set!", "positions"},
        {"Unit is invalid: not an atomic SI. Note: So far composite units are not supported!", "tagUnit"},
        {"Some of the units in tag are invalid: not an atomic SI. Note: So far composite SI units are not supported!", "tagUnit"},
        {"Some of the referenced DataArrays' dimensions have units that are not convertible to the units set in tag. Note: So far composite SI units are not supported!", "refUnits"},
        {"values are set, but unit is missing!", "propNoUnit"},
        {"index is not set to valid value (> 0)!", "index"}, {"index is not set to valid value (size_t > 0)!", "index"},
        {"ticks are not set!", "noTicks"}, {"dimension type is not correct!", "dimType"},
        {"Unit is set but not an atomic SI. Note: So far composite units are not supported!", "dimUnit"},
        {"Ticks are not sorted!", "unsorted"},
        {"samplingInterval is not set to valid value (> 0)!", "interval"},
        {"offset is set, but no valid unit set!", "offsetUnit"},
        {"data is not set!", "featData"}, {"linkType is not set!", "linkType"}};
    return m;
}
std::string clsOf(const std::string &msg) {
    auto it = classes().find(msg);
    return it == classes().end() ? std::string("?") : it->second;
}

// ---- raw HDF5 on the file nix has open ---------------------------------------------------------------------------
hid_t openFileId() {
    ssize_t n = H5Fget_obj_count((hid_t) H5F_OBJ_ALL, H5F_OBJ_FILE);
    if (n <= 0) throw std::runtime_error("harness: no open HDF5 file");
    std::vector<hid_t> ids((size_t) n);
    H5Fget_obj_ids((hid_t) H5F_OBJ_ALL, H5F_OBJ_FILE, (size_t) n, ids.data());
    const std::string &want = state().path;
    for (hid_t h : ids) {
        char buf[4096]; ssize_t l = H5Fget_name(h, buf, sizeof buf);
        if (l > 0 && want == std::string(buf, (size_t) l)) return h;
    }
    return ids[0];
}
struct Find { std::string id; std::string path; };
herr_t visit(hid_t obj, const char *name, const H5O_info_t *info, void *data) {
    Find *f = static_cast<Find *>(data);
    if (info->type != H5O_TYPE_GROUP && info->type != H5O_TYPE_DATASET) return 0;   // properties are datasets
    if (H5Aexists_by_name(obj, name, "entity_id", H5P_DEFAULT) <= 0) return 0;
    hid_t at = H5Aopen_by_name(obj, name, "entity_id", H5P_DEFAULT, H5P_DEFAULT);
    if (at < 0) return 0;
    hid_t ty = H5Aget_type(at);
    std::string v;
    if (H5Tis_variable_str(ty) > 0) {
        char *c = nullptr;
        hid_t mt = H5Tcopy(H5T_C_S1); H5Tset_size(mt, H5T_VARIABLE); H5Tset_cset(mt, H5Tget_cset(ty));
        if (H5Aread(at, mt, &c) >= 0 && c) { v = c; H5free_memory(c); }
        H5Tclose(mt);
    }
    H5Tclose(ty); H5Aclose(at);
    if (v == f->id) { f->path = std::string("/") + (std::string(name) == "." ? "" : name); return 1; }
    return 0;
}
std::string entIdOf(const Ent &e) {
    switch (e.kind) {
    case 'B': return e.b.id(); case 'S': return e.s.id(); case 'O': return e.o.id(); case 'A': return e.a.id(); case 'D': return e.d.id();
    case 'T': return e.t.id(); case 'M': return e.m.id(); case 'G': return e.g.id(); case 'R': return e.r.id(); case 'P': return e.p.id();
    }
    throw ProtoError("entIdOf");
}
// path of the HDF5 group of the entity in a slot (+ relative part)
std::string pathOf(hid_t file, const std::string &slotName, const std::string &rel) {
    Find f; f.id = entIdOf(slot(slotName));
    H5Ovisit(file, H5_INDEX_NAME, H5_ITER_NATIVE, visit, &f);
    if (f.path.empty()) throw std::runtime_error("harness: entity group not found");
    return rel == "." ? f.path : f.path + "/" + rel;
}
hid_t strType() {
    hid_t ty = H5Tcopy(H5T_C_S1);
    H5Tset_size(ty, H5T_VARIABLE);
    H5Tset_cset(ty, H5T_CSET_UTF8);
    return ty;
}
void need(bool ok, const char *what) { if (!ok) throw std::runtime_error(std::string("harness: raw HDF5 failed: ") + what); }

} // namespace

DRV_OP(vl_desc) {
    return guarded([&]() { return describe(state().file); });
}

// vl_validate => ok <#errors> <#warnings> | E <id> <class> | … | W <id> <class> …
DRV_OP(vl_validate) {
    return guarded([&]() {
        nix::valid::Result r = state().file.validate();
        auto errs = r.getErrors(); auto warns = r.getWarnings();
        std::vector<std::string> l;
        for (auto &m : errs) l.push_back("E " + hexStr(m.id) + " " + clsOf(m.msg));
        for (auto &m : warns) l.push_back("W " + hexStr(m.id) + " " + clsOf(m.msg));
        std::sort(l.begin(), l.end());
        std::string out = std::to_string(errs.size()) + " " + std::to_string(warns.size());
        for (auto &x : l) out += " | " + x;
        return out;
    });
}

// the same answer under another op name: the driver judges only the documentation-level rule on it
DRV_OP(vl_validate_doc) { return op_vl_validate(a); }

// vl_set <array slot> poly [doubles]|~   ;   vl_set <array slot> origin <double>|~   ;   vl_set <data frame slot> rows <n>
DRV_OP(vl_set) {
    if (a.size() != 4) throw ProtoError("vl_set arity");
    return guarded([&]() {
        if (a[2] == "rows") { slot(a[1]).d.rows(tokNat(a[3])); return std::string(); }
        nix::DataArray &da = slot(a[1]).a;
        if (a[2] == "poly") {
            if (a[3] == "~") da.polynomCoefficients(nix::none);
            else { std::vector<double> v; for (auto &x : tokList(a[3])) v.push_back(tokF64(x)); da.polynomCoefficients(v); }
        } else if (a[2] == "origin") {
            if (a[3] == "~") da.expansionOrigin(nix::none); else da.expansionOrigin(tokF64(a[3]));
        } else throw ProtoError("vl_set field " + a[2]);
        return std::string();
    });
}

// vl_raw rmlink  <slot> <relpath>
// vl_raw rmattr  <slot> <relpath|.> <attr>
// vl_raw setstr  <slot> <relpath|.> <attr> <string>
// vl_raw setf64  <slot> <relpath|.> <attr> <double>
// vl_raw setvec  <slot> <relpath> [doubles]        (replaces the dataset by a 1-d dataset of doubles)
// vl_raw setstrs <slot> <relpath> [strings]        (replaces the dataset by a 1-d dataset of strings)
DRV_OP(vl_raw) {
    if (a.size() < 4) throw ProtoError("vl_raw arity");
    return guarded([&]() {
        hid_t file = openFileId();
        const std::string &what = a[1];
        std::string path = pathOf(file, a[2], unhexStr(a[3]));
        if (what == "rmlink") {
            if (H5Lexists(file, path.c_str(), H5P_DEFAULT) > 0) need(H5Ldelete(file, path.c_str(), H5P_DEFAULT) >= 0, "H5Ldelete");
        } else if (what == "rmattr") {
            if (a.size() != 5) throw ProtoError("vl_raw rmattr arity");
            std::string attr = unhexStr(a[4]);
            if (H5Aexists_by_name(file, path.c_str(), attr.c_str(), H5P_DEFAULT) > 0)
                need(H5Adelete_by_name(file, path.c_str(), attr.c_str(), H5P_DEFAULT) >= 0, "H5Adelete_by_name");
        } else if (what == "setstr") {
            if (a.size() != 6) throw ProtoError("vl_raw setstr arity");
            std::string attr = unhexStr(a[4]), val = unhexStr(a[5]);
            if (H5Aexists_by_name(file, path.c_str(), attr.c_str(), H5P_DEFAULT) > 0) H5Adelete_by_name(file, path.c_str(), attr.c_str(), H5P_DEFAULT);
            hid_t ty = strType(); hid_t sp = H5Screate(H5S_SCALAR);
            hid_t at = H5Acreate_by_name(file, path.c_str(), attr.c_str(), ty, sp, H5P_DEFAULT, H5P_DEFAULT, H5P_DEFAULT);
            need(at >= 0, "H5Acreate_by_name");
            const char *c = val.c_str();
            need(H5Awrite(at, ty, &c) >= 0, "H5Awrite");
            H5Aclose(at); H5Sclose(sp); H5Tclose(ty);
        } else if (what == "setf64") {
            if (a.size() != 6) throw ProtoError("vl_raw setf64 arity");
            std::string attr = unhexStr(a[4]); double v = tokF64(a[5]);
            if (H5Aexists_by_name(file, path.c_str(), attr.c_str(), H5P_DEFAULT) > 0) H5Adelete_by_name(file, path.c_str(), attr.c_str(), H5P_DEFAULT);
            hid_t sp = H5Screate(H5S_SCALAR);
            hid_t at = H5Acreate_by_name(file, path.c_str(), attr.c_str(), H5T_IEEE_F64LE, sp, H5P_DEFAULT, H5P_DEFAULT, H5P_DEFAULT);
            need(at >= 0, "H5Acreate_by_name");
            need(H5Awrite(at, H5T_NATIVE_DOUBLE, &v) >= 0, "H5Awrite");
            H5Aclose(at); H5Sclose(sp);
        } else if (what == "setvec" || what == "setstrs") {
            if (a.size() != 5) throw ProtoError("vl_raw setvec arity");
            std::vector<std::string> toks = tokList(a[4]);
            if (H5Lexists(file, path.c_str(), H5P_DEFAULT) > 0) need(H5Ldelete(file, path.c_str(), H5P_DEFAULT) >= 0, "H5Ldelete");
            hsize_t dims[1] = {toks.size()}, maxd[1] = {H5S_UNLIMITED}, chunk[1] = {toks.empty() ? (hsize_t) 1 : (hsize_t) toks.size()};
            hid_t sp = H5Screate_simple(1, dims, maxd);
            hid_t pl = H5Pcreate(H5P_DATASET_CREATE); H5Pset_chunk(pl, 1, chunk);
            if (what == "setvec") {
                std::vector<double> v; for (auto &t : toks) v.push_back(tokF64(t));
                hid_t ds = H5Dcreate2(file, path.c_str(), H5T_IEEE_F64LE, sp, H5P_DEFAULT, pl, H5P_DEFAULT);
                need(ds >= 0, "H5Dcreate2");
                if (!v.empty()) need(H5Dwrite(ds, H5T_NATIVE_DOUBLE, H5S_ALL, H5S_ALL, H5P_DEFAULT, v.data()) >= 0, "H5Dwrite");
                H5Dclose(ds);
            } else {
                std::vector<std::string> v; for (auto &t : toks) v.push_back(unhexStr(t));
                std::vector<const char *> c; for (auto &s : v) c.push_back(s.c_str());
                hid_t ty = strType();
                hid_t ds = H5Dcreate2(file, path.c_str(), ty, sp, H5P_DEFAULT, pl, H5P_DEFAULT);
                need(ds >= 0, "H5Dcreate2");
                if (!c.empty()) need(H5Dwrite(ds, ty, H5S_ALL, H5S_ALL, H5P_DEFAULT, c.data()) >= 0, "H5Dwrite");
                H5Dclose(ds); H5Tclose(ty);
            }
            H5Pclose(pl); H5Sclose(sp);
        } else throw ProtoError("vl_raw kind " + what);
        return std::string();
    });
}
