// shared declarations of the store family (slots holding entity handles)
#ifndef NIXDRV_STORE_HPP
#define NIXDRV_STORE_HPP
#include "common.hpp"
namespace drv { namespace store {
struct Ent {
    char kind = '?';   // B block, S section, O source, A data array, D data frame, T tag, M multi tag, G group, R feature, P property
    nix::Block b; nix::Section s; nix::Source o; nix::DataArray a; nix::DataFrame d; nix::Tag t; nix::MultiTag m; nix::Group g;
    nix::Feature r; nix::Property p;
};
struct St {
    nix::File file;
    std::string path;
    std::map<std::string, Ent> slots;
};
St &state();
Ent &slot(const std::string &s);
bool hasSlot(const std::string &s);
nix::DataType dtOf(const std::string &t);
std::string dimTok(const nix::Dimension &dim);
std::string variantTok(const nix::Variant &v);
}}
#endif
