// shared declarations of the store family (slots holding entity handles)
#ifndef NIXDRV_STORE_HPP
#define NIXDRV_STORE_HPP
#include "common.hpp"
namespace drv { namespace store {
struct Ent {
    char kind = '?';   // B block, S section, O source, A data array, D data frame, T tag, M multi tag, G group, R feature, P property
    nix::Block b; nix::Section s; nix::Source o; nix::DataArray a; nix::DataFrame d; nix::Tag t; nix::MultiTag m; nix::Group g;
    nix::Feature r; nix::Property p;
};
// The slot table.  Behind every slot a TWIN is kept: a second handle of the same entity, fetched independently (by id, through
// fresh lookups from the file) the first time the slot is used.  Calls through the slot alternate between the two handles:
// nothing may be cached in a handle (a second backend object of the same entity must be indistinguishable from the first).
struct SlotMap {
    std::map<std::string, Ent> m, twin;
    std::map<std::string, unsigned> uses;
    std::map<std::string, bool> tried;
    typedef std::map<std::string, Ent>::iterator iterator;
    Ent &operator[](const std::string &k) { twin.erase(k); tried.erase(k); return m[k]; }    // (re)binding a slot forgets its twin
    iterator find(const std::string &k) { return m.find(k); }
    iterator end() { return m.end(); }
    size_t count(const std::string &k) const { return m.count(k); }
    void erase(const std::string &k) { m.erase(k); twin.erase(k); tried.erase(k); uses.erase(k); }
    void clear() { m.clear(); twin.clear(); tried.clear(); uses.clear(); }
};
struct St {
    nix::File file;
    std::string path;
    SlotMap slots;
};
St &state();
Ent &slot(const std::string &s);
bool hasSlot(const std::string &s);
nix::DataType dtOf(const std::string &t);
std::string dimTok(const nix::Dimension &dim);
std::string dumpFile(const nix::File &f);
std::string variantTok(const nix::Variant &v);
}}
#endif
