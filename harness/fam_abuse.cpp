// ops of the `abuse` family (C16): corners of the public API that no other family reaches — size-vector arithmetic, the NDArray
// buffer class, position checks with size vectors of any rank, the per-column getters of a data-frame dimension.  Run on the
// sanitizer build; judged for survival (no model replay).
//
//   ab_nd <op> <[a]> <[b]>            op in + - * / += dot lt le gt ge eq idx(=a[b0]) nelms asg    => ok <result>
//   ab_ndarr <dtype> <[shape]> get|set <[index]> | geti|seti <n>                                  => ok <value as double>
//   ab_posin <[shape]> <[pos]> <[count]|~>      positionAndExtentInData / positionInData          => ok 0|1
//   ab_fdim <ncols> <nrows> <col|~> <default col|~>   label / unit / columnDataType / ticks of a data-frame dimension      => ok …
#include "common.hpp"
#include "hdf5/h5x/H5DataSet.hpp"
#include <nix/NDArray.hpp>
#include <cstdio>

using namespace drv;

namespace {

struct AB {
    nix::File file;
    std::string path;
} ab;

void abReset() {
    if (ab.file) { try { ab.file.close(); } catch (...) {} ab.file = nix::File(); }
    if (!ab.path.empty()) std::remove(ab.path.c_str());
    ab.path.clear();
}
struct Init { Init() { resetHooks().push_back(abReset); } } init;

nix::File &file() {
    if (!ab.file) {
        ab.path = scratch("abuse.nix");
        ab.file = nix::File::open(ab.path, nix::FileMode::Overwrite);
    }
    return ab.file;
}

nix::NDSize nd(const std::string &tok) {
    std::vector<std::string> l = tokList(tok);
    nix::NDSize s(l.size());
    for (size_t i = 0; i < l.size(); i++) s[i] = tokNat(l[i]);
    return s;
}
std::string ndTok(const nix::NDSize &s) {
    std::vector<std::string> l;
    for (size_t i = 0; i < s.size(); i++) l.push_back(std::to_string(s[i]));
    return listTok(l);
}
nix::DataType dtOf(const std::string &t) {
    static const std::map<std::string, nix::DataType> m = {
        {"Bool", nix::DataType::Bool}, {"Int8", nix::DataType::Int8}, {"Int16", nix::DataType::Int16}, {"Int32", nix::DataType::Int32},
        {"Int64", nix::DataType::Int64}, {"UInt8", nix::DataType::UInt8}, {"UInt16", nix::DataType::UInt16}, {"UInt32", nix::DataType::UInt32},
        {"UInt64", nix::DataType::UInt64}, {"Float", nix::DataType::Float}, {"Double", nix::DataType::Double}};
    auto it = m.find(t);
    if (it == m.end()) throw ProtoError("bad dtype " + t);
    return it->second;
}
unsigned counter = 0;

nix::Variant variantOf(const std::string &tok) {
    size_t p = tok.find(':');
    if (p == std::string::npos) throw ProtoError("bad typed value " + tok);
    std::string t = tok.substr(0, p), v = tok.substr(p + 1);
    if (t == "Bool") return nix::Variant(v != "0");
    if (t == "Int32") return nix::Variant((int32_t) tokInt(v));
    if (t == "UInt32") return nix::Variant((uint32_t) tokNat(v));
    if (t == "Int64") return nix::Variant((int64_t) tokInt(v));
    if (t == "UInt64") return nix::Variant((uint64_t) tokNat(v));
    if (t == "Double") return nix::Variant(tokF64(v));
    if (t == "String") return nix::Variant(unhexStr(v));
    if (t == "Nothing") return nix::Variant();
    throw ProtoError("bad value type " + t);
}
std::string variantTok(const nix::Variant &v) {
    std::string t = nix::data_type_to_string(v.type()) + ":";
    switch (v.type()) {
    case nix::DataType::Bool: return t + (v.get<bool>() ? "1" : "0");
    case nix::DataType::Int32: return t + std::to_string(v.get<int32_t>());
    case nix::DataType::UInt32: return t + std::to_string(v.get<uint32_t>());
    case nix::DataType::Int64: return t + std::to_string(v.get<int64_t>());
    case nix::DataType::UInt64: return t + std::to_string(v.get<uint64_t>());
    case nix::DataType::Double: return t + f64Tok(v.get<double>());
    case nix::DataType::String: return t + hexStr(v.get<std::string>());
    default: return t;
    }
}

}  // namespace

DRV_OP(ab_nd) {
    if (a.size() != 4) throw ProtoError("ab_nd arity");
    return guarded([&]() {
        nix::NDSize x = nd(a[2]), y = nd(a[3]);
        const std::string &op = a[1];
        if (op == "+") return ndTok(x + y);
        if (op == "-") return ndTok(x - y);
        if (op == "*") return ndTok(x * y);
        if (op == "/") return ndTok(x / y);
        if (op == "+=") { x += y; return ndTok(x); }
        if (op == "dot") return std::to_string(x.dot(y));
        if (op == "lt") return std::string(x < y ? "1" : "0");
        if (op == "le") return std::string(x <= y ? "1" : "0");
        if (op == "gt") return std::string(x > y ? "1" : "0");
        if (op == "ge") return std::string(x >= y ? "1" : "0");
        if (op == "eq") return std::string(x == y ? "1" : "0");
        if (op == "idx") return std::to_string(x[y.size() ? (size_t) y[0] : 0]);
        if (op == "nelms") return std::to_string(x.nelms());
        // hand-written copy / assignment / swap members: an assigned size vector is the one that was assigned
        if (op == "asg") { nix::NDSize z = y; nix::NDSize w(z); z = x; w.swap(z); nix::NDSize v; v = w; return ndTok(v) + " " + ndTok(z); }
        throw ProtoError("ab_nd op " + op);
    });
}

DRV_OP(ab_ndarr) {
    if (a.size() != 5) throw ProtoError("ab_ndarr arity");
    return guarded([&]() {
        nix::DataType dt = dtOf(a[1]);
        nix::NDArray arr(dt, nd(a[2]));
        const std::string &k = a[3];
        double out = 0;
        // element access with the element type the array was made for
        #define ACC(T) \
            if (k == "get") out = (double) arr.get<T>(nd(a[4])); \
            else if (k == "set") { arr.set<T>(nd(a[4]), (T) 1); out = 1; } \
            else if (k == "geti") out = (double) arr.get<T>((size_t) tokNat(a[4])); \
            else if (k == "seti") { arr.set<T>((size_t) tokNat(a[4]), (T) 1); out = 1; } \
            else throw ProtoError("ab_ndarr kind " + k);
        switch (dt) {
        case nix::DataType::Bool: case nix::DataType::UInt8: ACC(uint8_t) break;
        case nix::DataType::Int8: ACC(int8_t) break;
        case nix::DataType::Int16: ACC(int16_t) break;
        case nix::DataType::UInt16: ACC(uint16_t) break;
        case nix::DataType::Int32: ACC(int32_t) break;
        case nix::DataType::UInt32: ACC(uint32_t) break;
        case nix::DataType::Int64: ACC(int64_t) break;
        case nix::DataType::UInt64: ACC(uint64_t) break;
        case nix::DataType::Float: ACC(float) break;
        default: ACC(double) break;
        }
        #undef ACC
        return f64Tok(out);
    });
}

// ab_ndarrw <dtype> <[shape]> <access type> geti|seti <n> : element access with ANOTHER element type than the array was made for
// (the byte offset is index * sizeof(T), the bound is the storage size in units of T)      => ok <value as double>
DRV_OP(ab_ndarrw) {
    if (a.size() != 6) throw ProtoError("ab_ndarrw arity");
    return guarded([&]() {
        nix::NDArray arr(dtOf(a[1]), nd(a[2]));
        const std::string &k = a[4];
        size_t i = (size_t) tokNat(a[5]);
        double out = 0;
        #define ACCW(T) { if (k == "geti") out = (double) arr.get<T>(i); else if (k == "seti") { arr.set<T>(i, (T) 1); out = 1; } else throw ProtoError("ab_ndarrw kind " + k); }
        switch (dtOf(a[3])) {
        case nix::DataType::Bool: case nix::DataType::UInt8: ACCW(uint8_t) break;
        case nix::DataType::Int8: ACCW(int8_t) break;
        case nix::DataType::Int16: ACCW(int16_t) break;
        case nix::DataType::UInt16: ACCW(uint16_t) break;
        case nix::DataType::Int32: ACCW(int32_t) break;
        case nix::DataType::UInt32: ACCW(uint32_t) break;
        case nix::DataType::Int64: ACCW(int64_t) break;
        case nix::DataType::UInt64: ACCW(uint64_t) break;
        case nix::DataType::Float: ACCW(float) break;
        default: ACCW(double) break;
        }
        #undef ACCW
        return std::string(k == "seti" ? "set" : "got");
    });
}

// ab_tagname <T|M> <which> : the same tag / multi-tag asked BY NAME OR ID for the data of a reference / feature; <which> = ref (the
// referenced array / the feature's array), other (an array of the block that is neither), gone (a reference that was removed again),
// none (no such name), empty ("")      => ok <answer class per entry point …>
DRV_OP(ab_tagname) {
    if (a.size() != 3) throw ProtoError("ab_tagname arity");
    return guarded([&]() {
        std::string path = scratch("tagname.nix");
        nix::File f = nix::File::open(path, nix::FileMode::Overwrite);
        nix::Block b = f.createBlock("b", "t");
        nix::DataArray da = b.createDataArray("a", "t", nix::DataType::Double, nix::NDSize({5}));
        da.appendSampledDimension(1.0);
        nix::DataArray fa = b.createDataArray("fa", "t", nix::DataType::Double, nix::NDSize({5}));
        fa.appendSampledDimension(1.0);
        nix::DataArray other = b.createDataArray("other", "t", nix::DataType::Double, nix::NDSize({5}));
        other.appendSampledDimension(1.0);
        nix::DataArray gone = b.createDataArray("gone", "t", nix::DataType::Double, nix::NDSize({5}));
        gone.appendSampledDimension(1.0);
        const std::string &w = a[2];
        std::vector<std::string> out;
        auto cls = [&](const std::function<void()> &call) {
            std::string r = guarded([&]() { call(); return std::string(); });
            out.push_back(r == "ok" ? "ok" : r.substr(0, 4) == "err " ? r.substr(4) : r);
        };
        auto keys = [&](const nix::DataArray &good) {
            std::vector<std::string> k;
            if (w == "ref") { k.push_back(good.name()); k.push_back(good.id()); }
            else if (w == "other") { k.push_back(other.name()); k.push_back(other.id()); }
            else if (w == "gone") { k.push_back(gone.name()); k.push_back(gone.id()); }
            else if (w == "none") { k.push_back("no-such-array"); k.push_back("00000000-0000-0000-0000-000000000000"); }
            else if (w == "empty") { k.push_back(""); }
            else throw ProtoError("ab_tagname which");
            return k;
        };
        if (a[1] == "T") {
            nix::Tag t = b.createTag("t", "t", {1.0});
            t.addReference(da); t.addReference(gone); t.removeReference(gone);
            t.createFeature(fa, nix::LinkType::Tagged);
            nix::Feature fg = t.createFeature(gone, nix::LinkType::Tagged); t.deleteFeature(fg);
            for (auto &k : keys(da)) cls([&]() { t.taggedData(k); });
            for (auto &k : keys(fa)) cls([&]() { t.featureData(k); });
        } else {
            nix::DataArray pos = b.createDataArray("p", "t", nix::DataType::Double, nix::NDSize({2}));
            std::vector<double> pv = {1.0, 2.0}; pos.setData(pv);
            nix::MultiTag t = b.createMultiTag("m", "t", pos);
            t.addReference(da); t.addReference(gone); t.removeReference(gone);
            t.createFeature(fa, nix::LinkType::Tagged);
            nix::Feature fg = t.createFeature(gone, nix::LinkType::Tagged); t.deleteFeature(fg);
            std::vector<nix::ndsize_t> l = {0, 1};
            for (auto &k : keys(da)) {
                cls([&]() { t.taggedData((size_t) 0, k); });
                cls([&]() { std::vector<nix::ndsize_t> l2 = l; t.taggedData(l2, k); });
            }
            for (auto &k : keys(fa)) cls([&]() { t.featureData((size_t) 0, k); });
        }
        f.close();
        std::string r;
        for (size_t i = 0; i < out.size(); i++) r += (i ? " " : "") + out[i];
        return r;
    });
}

// ab_compare <B|S|O|A|D|T|M|G> : NamedEntity::compare of an entity of that kind with an uninitialised one, and with itself
//   => ok <answer class of compare(uninitialised)> <compare(itself)>
DRV_OP(ab_compare) {
    if (a.size() != 2) throw ProtoError("ab_compare arity");
    return guarded([&]() {
        std::string path = scratch("compare.nix");
        nix::File f = nix::File::open(path, nix::FileMode::Overwrite);
        nix::Block b = f.createBlock("b", "t");
        std::string r, self;
        auto cls = [&](const std::function<int()> &call) {
            std::string x = guarded([&]() { return std::to_string(call()); });
            return x.substr(0, 4) == "err " ? x.substr(4) : x.substr(0, 3) == "ok " ? x.substr(3) : x;
        };
        switch (a[1][0]) {
        case 'B': { nix::Block u; r = cls([&]() { return b.compare(u); }); self = cls([&]() { return b.compare(b); }); break; }
        case 'S': { nix::Section e = f.createSection("s", "t"), u; r = cls([&]() { return e.compare(u); }); self = cls([&]() { return e.compare(e); }); break; }
        case 'O': { nix::Source e = b.createSource("s", "t"), u; r = cls([&]() { return e.compare(u); }); self = cls([&]() { return e.compare(e); }); break; }
        case 'A': { nix::DataArray e = b.createDataArray("a", "t", nix::DataType::Double, nix::NDSize({2})), u; r = cls([&]() { return e.compare(u); }); self = cls([&]() { return e.compare(e); }); break; }
        case 'D': { nix::DataFrame e = b.createDataFrame("d", "t", {{"c", "", nix::DataType::Double}}), u; r = cls([&]() { return e.compare(u); }); self = cls([&]() { return e.compare(e); }); break; }
        case 'T': { nix::Tag e = b.createTag("t", "t", {1.0}), u; r = cls([&]() { return e.compare(u); }); self = cls([&]() { return e.compare(e); }); break; }
        case 'M': { nix::DataArray p = b.createDataArray("p", "t", nix::DataType::Double, nix::NDSize({2})); nix::MultiTag e = b.createMultiTag("m", "t", p), u;
                    r = cls([&]() { return e.compare(u); }); self = cls([&]() { return e.compare(e); }); break; }
        case 'G': { nix::Group e = b.createGroup("g", "t"), u; r = cls([&]() { return e.compare(u); }); self = cls([&]() { return e.compare(e); }); break; }
        default: throw ProtoError("ab_compare kind");
        }
        f.close();
        return r + " " + self;
    });
}

// ab_tagidx <T|M> <reference index> <feature index> : a tag / multi-tag with ONE reference and ONE feature, asked for the data of
// reference / feature number <index> through every entry point that takes an index      => ok <answer class per entry point …>
DRV_OP(ab_tagidx) {
    if (a.size() != 4) throw ProtoError("ab_tagidx arity");
    return guarded([&]() {
        std::string path = scratch("tagidx.nix");
        nix::File f = nix::File::open(path, nix::FileMode::Overwrite);
        nix::Block b = f.createBlock("b", "t");
        nix::DataArray da = b.createDataArray("a", "t", nix::DataType::Double, nix::NDSize({5}));
        da.appendSampledDimension(1.0);
        nix::DataArray fa = b.createDataArray("fa", "t", nix::DataType::Double, nix::NDSize({5}));
        fa.appendSampledDimension(1.0);
        nix::ndsize_t ri = (nix::ndsize_t) tokNat(a[2]), fi = (nix::ndsize_t) tokNat(a[3]);
        std::vector<std::string> out;
        auto cls = [&](const std::function<void()> &call) {
            std::string r = guarded([&]() { call(); return std::string(); });
            out.push_back(r == "ok" ? "ok" : r.substr(0, 4) == "err " ? r.substr(4) : r);
        };
        if (a[1] == "T") {
            nix::Tag t = b.createTag("t", "t", {1.0});
            t.addReference(da); t.createFeature(fa, nix::LinkType::Tagged);
            cls([&]() { nix::util::taggedData(t, ri); });
            cls([&]() { nix::util::taggedData(t, ri, nix::RangeMatch::Inclusive); });
            cls([&]() { t.taggedData((size_t) ri); });
            cls([&]() { nix::util::featureData(t, fi); });
            cls([&]() { t.featureData((size_t) fi); });
        } else {
            nix::DataArray pos = b.createDataArray("p", "t", nix::DataType::Double, nix::NDSize({2}));
            std::vector<double> pv = {1.0, 2.0}; pos.setData(pv);
            nix::MultiTag t = b.createMultiTag("m", "t", pos);
            t.addReference(da); t.createFeature(fa, nix::LinkType::Tagged);
            std::vector<nix::ndsize_t> l = {0, 1};
            cls([&]() { nix::util::taggedData(t, (nix::ndsize_t) 0, ri); });
            cls([&]() { std::vector<nix::ndsize_t> l2 = l; nix::util::taggedData(t, l2, ri); });
            cls([&]() { t.taggedData((size_t) 0, (size_t) ri); });
            cls([&]() { nix::util::featureData(t, (nix::ndsize_t) 0, fi); });
            cls([&]() { nix::util::featureData(t, l, fi); });
            cls([&]() { t.featureData((size_t) 0, (size_t) fi); });
        }
        f.close();
        std::string r;
        for (size_t i = 0; i < out.size(); i++) r += (i ? " " : "") + out[i];
        return r;
    });
}

// ab_chunk <[shape]> <element size in bytes> : DataSet::guessChunking — the chunk shape a data set of that shape is created with
//   (every createDataArray / createDataFrame / createProperty goes through it; a `while (true)` loop)      => ok <[chunk shape]>
DRV_OP(ab_chunk) {
    if (a.size() != 3) throw ProtoError("ab_chunk arity");
    return guarded([&]() {
        size_t e = (size_t) tokNat(a[2]);
        if (e == 0) throw ProtoError("ab_chunk: element size 0");
        return ndTok(nix::hdf5::DataSet::guessChunking(nd(a[1]), e));
    });
}

DRV_OP(ab_posin) {
    if (a.size() != 4) throw ProtoError("ab_posin arity");
    return guarded([&]() {
        nix::File &f = file();
        nix::Block b = f.hasBlock("pb") ? f.getBlock("pb") : f.createBlock("pb", "t");
        nix::DataArray da = b.createDataArray("a" + std::to_string(counter++), "t", nix::DataType::Double, nd(a[1]));
        bool r = a[3] == "~" ? nix::util::positionInData(da, nd(a[2])) : nix::util::positionAndExtentInData(da, nd(a[2]), nd(a[3]));
        return std::string(r ? "1" : "0");
    });
}

DRV_OP(ab_fdim) {
    if (a.size() != 5) throw ProtoError("ab_fdim arity");
    return guarded([&]() {
        nix::File &f = file();
        nix::Block b = f.hasBlock("fb") ? f.getBlock("fb") : f.createBlock("fb", "t");
        static const char *units[] = {"mV", "s", "", "Hz"};
        static const nix::DataType types[] = {nix::DataType::Double, nix::DataType::Int64, nix::DataType::String, nix::DataType::Double};
        std::vector<nix::Column> cols;
        size_t nc = tokNat(a[1]);
        for (size_t i = 0; i < nc; i++) cols.push_back({"c" + std::to_string(i), units[i % 4], types[i % 4]});
        std::string tag = std::to_string(counter++);
        nix::DataFrame df = b.createDataFrame("f" + tag, "t", cols);
        df.rows(tokNat(a[2]));
        nix::DataArray da = b.createDataArray("d" + tag, "t", nix::DataType::Double, nix::NDSize({2}));
        nix::DataFrameDimension d = a[4] == "~" ? da.appendDataFrameDimension(df) : da.appendDataFrameDimension(df, (unsigned) tokNat(a[4]));
        boost::optional<unsigned> col;
        if (a[3] != "~") col = (unsigned) tokNat(a[3]);
        std::string out;
        auto part = [&](const std::function<std::string()> &g) {
            try { out += " " + g(); } catch (const std::exception &e) { out += " !" + classify(e); }
        };
        part([&]() { return hexStr(d.label(col)); });
        part([&]() { return hexStr(d.unit(col)); });
        part([&]() { return nix::data_type_to_string(d.columnDataType(col)); });
        part([&]() { std::vector<double> t; d.ticks(t, col, true); return std::to_string(t.size()); });
        part([&]() { std::vector<std::string> t; d.ticks(t, col, true); return std::to_string(t.size()); });
        return out;
    });
}

// ab_var <Type:v1> <Type:v2> : copy, assign across types, swap, self-assign, read as the wrong type
//   => ok <a after swap> <b after swap> <c = copy of a, then assigned b> <wrong-type reads refused: n of 2>
DRV_OP(ab_var) {
    if (a.size() != 3) throw ProtoError("ab_var arity");
    return guarded([&]() {
        nix::Variant x = variantOf(a[1]), y = variantOf(a[2]);
        nix::Variant c = x;      // copy
        c = y;                   // assign across types (a String member owns its buffer)
        c = c;                   // self-assignment
        nix::Variant d(c);
        x.swap(y);
        int refused = 0;
        try { if (x.type() != nix::DataType::String) x.get<std::string>(); else x.get<int32_t>(); } catch (const std::exception &) { refused++; }
        try { if (y.type() != nix::DataType::Double) y.get<double>(); else y.get<bool>(); } catch (const std::exception &) { refused++; }
        nix::Variant e; e = std::move(d);
        return variantTok(x) + " " + variantTok(y) + " " + variantTok(e) + " " + std::to_string(refused);
    });
}
