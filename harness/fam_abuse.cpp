// ops of the `abuse` family (C16): corners of the public API that no other family reaches — size-vector arithmetic, the NDArray
// buffer class, position checks with size vectors of any rank, the per-column getters of a data-frame dimension.  Run on the
// sanitizer build; judged for survival (no model replay).
//
//   ab_nd <op> <[a]> <[b]>            op in + - * / += dot lt le gt ge eq idx(=a[b0]) nelms asg    => ok <result>
//   ab_ndarr <dtype> <[shape]> get|set <[index]> | geti|seti <n>                                  => ok <value as double>
//   ab_posin <[shape]> <[pos]> <[count]|~>      positionAndExtentInData / positionInData          => ok 0|1
//   ab_fdim <ncols> <nrows> <col|~> <default col|~>   label / unit / columnDataType / ticks of a data-frame dimension      => ok …
#include "common.hpp"
#include <nix/NDArray.hpp>
#include <cstdio>

using namespace drv;

namespace {

struct AB {
    nix::File file;
    std::string path;
} ab;

void abReset() {
    if (ab.file) { try { ab.file.close(); } catch (...) {} ab.file = nix::File(); }
    if (!ab.path.empty()) std::remove(ab.path.c_str());
    ab.path.clear();
}
struct Init { Init() { resetHooks().push_back(abReset); } } init;

nix::File &file() {
    if (!ab.file) {
        ab.path = scratch("abuse.nix");
        ab.file = nix::File::open(ab.path, nix::FileMode::Overwrite);
    }
    return ab.file;
}

nix::NDSize nd(const std::string &tok) {
    std::vector<std::string> l = tokList(tok);
    nix::NDSize s(l.size());
    for (size_t i = 0; i < l.size(); i++) s[i] = tokNat(l[i]);
    return s;
}
std::string ndTok(const nix::NDSize &s) {
    std::vector<std::string> l;
    for (size_t i = 0; i < s.size(); i++) l.push_back(std::to_string(s[i]));
    return listTok(l);
}
nix::DataType dtOf(const std::string &t) {
    static const std::map<std::string, nix::DataType> m = {
        {"Bool", nix::DataType::Bool}, {"Int8", nix::DataType::Int8}, {"Int16", nix::DataType::Int16}, {"Int32", nix::DataType::Int32},
        {"Int64", nix::DataType::Int64}, {"UInt8", nix::DataType::UInt8}, {"UInt16", nix::DataType::UInt16}, {"UInt32", nix::DataType::UInt32},
        {"UInt64", nix::DataType::UInt64}, {"Float", nix::DataType::Float}, {"Double", nix::DataType::Double}};
    auto it = m.find(t);
    if (it == m.end()) throw ProtoError("bad dtype " + t);
    return it->second;
}
unsigned counter = 0;

}  // namespace

DRV_OP(ab_nd) {
    if (a.size() != 4) throw ProtoError("ab_nd arity");
    return guarded([&]() {
        nix::NDSize x = nd(a[2]), y = nd(a[3]);
        const std::string &op = a[1];
        if (op == "+") return ndTok(x + y);
        if (op == "-") return ndTok(x - y);
        if (op == "*") return ndTok(x * y);
        if (op == "/") return ndTok(x / y);
        if (op == "+=") { x += y; return ndTok(x); }
        if (op == "dot") return std::to_string(x.dot(y));
        if (op == "lt") return std::string(x < y ? "1" : "0");
        if (op == "le") return std::string(x <= y ? "1" : "0");
        if (op == "gt") return std::string(x > y ? "1" : "0");
        if (op == "ge") return std::string(x >= y ? "1" : "0");
        if (op == "eq") return std::string(x == y ? "1" : "0");
        if (op == "idx") return std::to_string(x[y.size() ? (size_t) y[0] : 0]);
        if (op == "nelms") return std::to_string(x.nelms());
        // hand-written copy / assignment / swap members: an assigned size vector is the one that was assigned
        if (op == "asg") { nix::NDSize z = y; nix::NDSize w(z); z = x; w.swap(z); nix::NDSize v; v = w; return ndTok(v) + " " + ndTok(z); }
        throw ProtoError("ab_nd op " + op);
    });
}

DRV_OP(ab_ndarr) {
    if (a.size() != 5) throw ProtoError("ab_ndarr arity");
    return guarded([&]() {
        nix::DataType dt = dtOf(a[1]);
        nix::NDArray arr(dt, nd(a[2]));
        const std::string &k = a[3];
        double out = 0;
        // element access with the element type the array was made for
        #define ACC(T) \
            if (k == "get") out = (double) arr.get<T>(nd(a[4])); \
            else if (k == "set") { arr.set<T>(nd(a[4]), (T) 1); out = 1; } \
            else if (k == "geti") out = (double) arr.get<T>((size_t) tokNat(a[4])); \
            else if (k == "seti") { arr.set<T>((size_t) tokNat(a[4]), (T) 1); out = 1; } \
            else throw ProtoError("ab_ndarr kind " + k);
        switch (dt) {
        case nix::DataType::Bool: case nix::DataType::UInt8: ACC(uint8_t) break;
        case nix::DataType::Int8: ACC(int8_t) break;
        case nix::DataType::Int16: ACC(int16_t) break;
        case nix::DataType::UInt16: ACC(uint16_t) break;
        case nix::DataType::Int32: ACC(int32_t) break;
        case nix::DataType::UInt32: ACC(uint32_t) break;
        case nix::DataType::Int64: ACC(int64_t) break;
        case nix::DataType::UInt64: ACC(uint64_t) break;
        case nix::DataType::Float: ACC(float) break;
        default: ACC(double) break;
        }
        #undef ACC
        return f64Tok(out);
    });
}

DRV_OP(ab_posin) {
    if (a.size() != 4) throw ProtoError("ab_posin arity");
    return guarded([&]() {
        nix::File &f = file();
        nix::Block b = f.hasBlock("pb") ? f.getBlock("pb") : f.createBlock("pb", "t");
        nix::DataArray da = b.createDataArray("a" + std::to_string(counter++), "t", nix::DataType::Double, nd(a[1]));
        bool r = a[3] == "~" ? nix::util::positionInData(da, nd(a[2])) : nix::util::positionAndExtentInData(da, nd(a[2]), nd(a[3]));
        return std::string(r ? "1" : "0");
    });
}

DRV_OP(ab_fdim) {
    if (a.size() != 5) throw ProtoError("ab_fdim arity");
    return guarded([&]() {
        nix::File &f = file();
        nix::Block b = f.hasBlock("fb") ? f.getBlock("fb") : f.createBlock("fb", "t");
        static const char *units[] = {"mV", "s", "", "Hz"};
        static const nix::DataType types[] = {nix::DataType::Double, nix::DataType::Int64, nix::DataType::String, nix::DataType::Double};
        std::vector<nix::Column> cols;
        size_t nc = tokNat(a[1]);
        for (size_t i = 0; i < nc; i++) cols.push_back({"c" + std::to_string(i), units[i % 4], types[i % 4]});
        std::string tag = std::to_string(counter++);
        nix::DataFrame df = b.createDataFrame("f" + tag, "t", cols);
        df.rows(tokNat(a[2]));
        nix::DataArray da = b.createDataArray("d" + tag, "t", nix::DataType::Double, nix::NDSize({2}));
        nix::DataFrameDimension d = a[4] == "~" ? da.appendDataFrameDimension(df) : da.appendDataFrameDimension(df, (unsigned) tokNat(a[4]));
        boost::optional<unsigned> col;
        if (a[3] != "~") col = (unsigned) tokNat(a[3]);
        std::string out;
        auto part = [&](const std::function<std::string()> &g) {
            try { out += " " + g(); } catch (const std::exception &e) { out += " !" + classify(e); }
        };
        part([&]() { return hexStr(d.label(col)); });
        part([&]() { return hexStr(d.unit(col)); });
        part([&]() { return nix::data_type_to_string(d.columnDataType(col)); });
        part([&]() { std::vector<double> t; d.ticks(t, col, true); return std::to_string(t.size()); });
        part([&]() { std::vector<std::string> t; d.ticks(t, col, true); return std::to_string(t.size()); });
        return out;
    });
}
