// ops of the `region` family (C05 Tag, C06 MultiTag, C17 dataSlice / DataView, retrieval part of C18)
// Every op is self-contained: it builds a fresh file with the array(s), descriptors and tag it names.
#include "common.hpp"
#include <cstdio>
#include <numeric>

using namespace drv;

namespace {

std::vector<std::string> splitOn(const std::string &s, char sep) {
    std::vector<std::string> out;
    if (s.empty()) return out;
    size_t p = 0;
    while (true) {
        size_t q = s.find(sep, p);
        if (q == std::string::npos) { out.push_back(s.substr(p)); break; }
        out.push_back(s.substr(p, q - p)); p = q + 1;
    }
    return out;
}

std::vector<double> dlist(const std::string &tok) {
    std::vector<double> v;
    for (auto &x : tokList(tok)) v.push_back(tokF64(x));
    return v;
}
std::vector<std::string> slist(const std::string &tok) {
    std::vector<std::string> v;
    for (auto &x : tokList(tok)) v.push_back(unhexStr(x));
    return v;
}
nix::NDSize shapeOf(const std::string &tok) {
    std::vector<std::string> l = tokList(tok);
    nix::NDSize s(l.size());
    for (size_t i = 0; i < l.size(); i++) s[i] = tokNat(l[i]);
    return s;
}
nix::RangeMatch rm(const std::string &t) {
    if (t == "incl") return nix::RangeMatch::Inclusive;
    if (t == "excl") return nix::RangeMatch::Exclusive;
    throw ProtoError("bad RangeMatch " + t);
}
nix::LinkType lt(const std::string &t) {
    if (t == "tagged") return nix::LinkType::Tagged;
    if (t == "untagged") return nix::LinkType::Untagged;
    if (t == "indexed") return nix::LinkType::Indexed;
    throw ProtoError("bad LinkType " + t);
}

struct World {
    nix::File file;
    nix::Block block;
    std::string path;
    int n = 0;
    World() {
        path = scratch("region.nix");
        file = nix::File::open(path, nix::FileMode::Overwrite);
        block = file.createBlock("b", "t");
    }
    ~World() {
        block = nix::Block();
        if (file) file.close();
        std::remove(path.c_str());
    }
    // double array of the given shape filled with its own linear (row-major) index, with descriptors
    // dims token: [S:<si>:<off|~>:<unit|~>,R:<t;t;t>:<unit|~>,T:<nlabels>,F:<rows>:<unit>]
    nix::DataArray array(const std::string &shapeTok, const std::string &dimsTok) {
        nix::NDSize shape = shapeOf(shapeTok);
        nix::DataArray da = block.createDataArray("a" + std::to_string(n++), "t", nix::DataType::Double, shape);
        size_t total = 1;
        for (size_t i = 0; i < shape.size(); i++) total *= shape[i];
        std::vector<double> data(total);
        std::iota(data.begin(), data.end(), 0.0);
        if (total > 0) da.setData(nix::DataType::Double, data.data(), shape, nix::NDSize(shape.size(), 0));
        for (auto &d : tokList(dimsTok)) {
            std::vector<std::string> f = splitOn(d, ':');
            if (f.empty()) throw ProtoError("empty dim");
            if (f[0] == "S") {
                if (f.size() != 4) throw ProtoError("S dim");
                nix::SampledDimension sd = da.appendSampledDimension(tokF64(f[1]));
                if (f[2] != "~") sd.offset(tokF64(f[2]));
                if (f[3] != "~") sd.unit(unhexStr(f[3]));
            } else if (f[0] == "R") {
                if (f.size() != 3) throw ProtoError("R dim");
                std::vector<double> t;
                for (auto &x : splitOn(f[1], ';')) t.push_back(tokF64(x));
                nix::RangeDimension rd = da.appendRangeDimension(t);
                if (f[2] != "~") rd.unit(unhexStr(f[2]));
            } else if (f[0] == "T") {
                if (f.size() != 2) throw ProtoError("T dim");
                std::vector<std::string> l;
                for (unsigned long long i = 0; i < tokNat(f[1]); i++) l.push_back("l" + std::to_string(i));
                da.appendSetDimension(l);
            } else if (f[0] == "F") {
                if (f.size() != 3) throw ProtoError("F dim");
                std::vector<nix::Column> cols = {{"c", unhexStr(f[2]), nix::DataType::Double}};
                nix::DataFrame df = block.createDataFrame("f" + std::to_string(n++), "t", cols);
                df.rows(tokNat(f[1]));
                da.appendDataFrameDimension(df, 0);
            } else throw ProtoError("bad dim kind " + f[0]);
        }
        return da;
    }
    nix::Tag tag(const std::string &posTok, const std::string &extTok, const std::string &unitsTok, const nix::DataArray &ref) {
        nix::Tag t = block.createTag("t" + std::to_string(n++), "t", dlist(posTok));
        if (extTok != "~") t.extent(dlist(extTok));
        std::vector<std::string> u = slist(unitsTok);
        if (!u.empty()) t.units(u);
        t.addReference(ref);
        return t;
    }
    // matrix token: rows separated by ',', entries by ';'   e.g. [d..;d..,d..;d..]
    nix::DataArray matrix(const std::string &tok, bool flat) {
        std::vector<std::string> rows = tokList(tok);
        size_t nrows = rows.size();
        size_t ncols = nrows ? splitOn(rows[0], ';').size() : 0;
        std::vector<double> data;
        for (auto &r : rows) for (auto &x : splitOn(r, ';')) data.push_back(tokF64(x));
        nix::NDSize shape = flat ? nix::NDSize({nrows}) : nix::NDSize({nrows, ncols});
        nix::DataArray da = block.createDataArray("m" + std::to_string(n++), "t", nix::DataType::Double, shape);
        if (!data.empty()) da.setData(nix::DataType::Double, data.data(), shape, nix::NDSize(shape.size(), 0));
        return da;
    }
    nix::MultiTag mtag(const std::string &posTok, bool flat, const std::string &extTok, const std::string &unitsTok, const nix::DataArray &ref) {
        nix::DataArray pos = matrix(posTok, flat);
        nix::MultiTag t = block.createMultiTag("mt" + std::to_string(n++), "t", pos);
        if (extTok != "~") t.extents(matrix(extTok, flat));
        std::vector<std::string> u = slist(unitsTok);
        if (!u.empty()) t.units(u);
        t.addReference(ref);
        return t;
    }
};

std::string ndTok(const nix::NDSize &s) {
    std::vector<std::string> l;
    for (size_t i = 0; i < s.size(); i++) l.push_back(std::to_string(s[i]));
    return listTok(l);
}

// what a view exposes: its extent, and its elements (the arrays hold their own linear index, so the
// elements identify the region): first 24 values and the sum
std::string viewTok(nix::DataView &v) {
    nix::NDSize ext = v.dataExtent();
    size_t total = 1;
    for (size_t i = 0; i < ext.size(); i++) total *= ext[i];
    std::vector<double> data(total);
    if (total > 0) v.getData(nix::DataType::Double, data.data(), ext, nix::NDSize(ext.size(), 0));
    std::vector<std::string> first;
    double sum = 0;
    for (size_t i = 0; i < total; i++) { if (i < 24) first.push_back(std::to_string((long long) data[i])); sum += data[i]; }
    return ndTok(ext) + " " + listTok(first) + " " + std::to_string((long long) sum);
}
std::string viewsTok(std::vector<nix::DataView> &vs) {
    std::string o;
    for (size_t i = 0; i < vs.size(); i++) { if (i) o += " | "; o += viewTok(vs[i]); }
    return std::to_string(vs.size()) + " " + o;
}
std::vector<nix::ndsize_t> idxList(const std::string &tok) {
    std::vector<nix::ndsize_t> v;
    for (auto &x : tokList(tok)) v.push_back(tokNat(x));
    return v;
}
} // namespace

// tag_oc <shape> <dims> <position> <extent|~> <units> <rm> => ok [offset] [count]
DRV_OP(tag_oc) {
    if (a.size() != 7) throw ProtoError("tag_oc arity");
    return guarded([&]() {
        World w;
        nix::DataArray da = w.array(a[1], a[2]);
        nix::Tag t = w.tag(a[3], a[4], a[5], da);
        nix::NDSize off, cnt;
        nix::util::getOffsetAndCount(t, da, off, cnt, rm(a[6]));
        return ndTok(off) + " " + ndTok(cnt);
    });
}
// tag_data <shape> <dims> <position> <extent|~> <units> <rm> => ok [extent] [first values] sum
DRV_OP(tag_data) {
    if (a.size() != 7) throw ProtoError("tag_data arity");
    return guarded([&]() {
        World w;
        nix::DataArray da = w.array(a[1], a[2]);
        nix::Tag t = w.tag(a[3], a[4], a[5], da);
        nix::DataView v = nix::util::taggedData(t, (nix::ndsize_t) 0, rm(a[6]));
        return viewTok(v);
    });
}
// tag_feat <shape> <dims> <position> <extent|~> <units> <rm> <linktype> <fshape> <fdims>
DRV_OP(tag_feat) {
    if (a.size() != 10) throw ProtoError("tag_feat arity");
    return guarded([&]() {
        World w;
        nix::DataArray da = w.array(a[1], a[2]);
        nix::Tag t = w.tag(a[3], a[4], a[5], da);
        nix::DataArray fa = w.array(a[8], a[9]);
        t.createFeature(fa, lt(a[7]));
        nix::DataView v = nix::util::featureData(t, (nix::ndsize_t) 0, rm(a[6]));
        return viewTok(v);
    });
}
// mtag_oc <shape> <dims> <positions> <flat> <extents|~> <units> <index> <rm> => ok [off] [cnt]
DRV_OP(mtag_oc) {
    if (a.size() != 9) throw ProtoError("mtag_oc arity");
    return guarded([&]() {
        World w;
        nix::DataArray da = w.array(a[1], a[2]);
        nix::MultiTag t = w.mtag(a[3], a[4] == "1", a[5], a[6], da);
        nix::NDSize off, cnt;
        nix::util::getOffsetAndCount(t, da, (nix::ndsize_t) tokNat(a[7]), off, cnt, rm(a[8]));
        return ndTok(off) + " " + ndTok(cnt);
    });
}
// mtag_data <shape> <dims> <positions> <flat> <extents|~> <units> <indices> <rm> => ok n view | view ...
DRV_OP(mtag_data) {
    if (a.size() != 9) throw ProtoError("mtag_data arity");
    return guarded([&]() {
        World w;
        nix::DataArray da = w.array(a[1], a[2]);
        nix::MultiTag t = w.mtag(a[3], a[4] == "1", a[5], a[6], da);
        std::vector<nix::ndsize_t> idx = idxList(a[7]);
        std::vector<nix::DataView> vs = nix::util::taggedData(t, idx, (nix::ndsize_t) 0, rm(a[8]));
        return viewsTok(vs);
    });
}
// mtag_data1 … <index> <rm> : the single-index overload
DRV_OP(mtag_data1) {
    if (a.size() != 9) throw ProtoError("mtag_data1 arity");
    return guarded([&]() {
        World w;
        nix::DataArray da = w.array(a[1], a[2]);
        nix::MultiTag t = w.mtag(a[3], a[4] == "1", a[5], a[6], da);
        nix::DataView v = nix::util::taggedData(t, (nix::ndsize_t) tokNat(a[7]), (nix::ndsize_t) 0, rm(a[8]));
        return viewTok(v);
    });
}
// mtag_feat <shape> <dims> <positions> <flat> <extents|~> <units> <indices> <rm> <linktype> <fshape> <fdims>
DRV_OP(mtag_feat) {
    if (a.size() != 12) throw ProtoError("mtag_feat arity");
    return guarded([&]() {
        World w;
        nix::DataArray da = w.array(a[1], a[2]);
        nix::MultiTag t = w.mtag(a[3], a[4] == "1", a[5], a[6], da);
        nix::DataArray fa = w.array(a[10], a[11]);
        t.createFeature(fa, lt(a[9]));
        std::vector<nix::DataView> vs = nix::util::featureData(t, idxList(a[7]), (nix::ndsize_t) 0, rm(a[8]));
        return viewsTok(vs);
    });
}
// slice <shape> <dims> <starts> <ends> <units> <rm> => ok [extent] [first] sum
DRV_OP(slice) {
    if (a.size() != 7) throw ProtoError("slice arity");
    return guarded([&]() {
        World w;
        nix::DataArray da = w.array(a[1], a[2]);
        nix::DataView v = nix::util::dataSlice(da, dlist(a[3]), dlist(a[4]), slist(a[5]), rm(a[6]));
        return viewTok(v);
    });
}
