// ops of the `region` family (C05 Tag, C06 MultiTag, C17 dataSlice / DataView, retrieval part of C18)
// Every op is self-contained: it builds a fresh file with the array(s), descriptors and tag it names.
#include "common.hpp"
#include <cstdio>
#include <numeric>

using namespace drv;

namespace {

std::vector<std::string> splitOn(const std::string &s, char sep) {
    std::vector<std::string> out;
    if (s.empty()) return out;
    size_t p = 0;
    while (true) {
        size_t q = s.find(sep, p);
        if (q == std::string::npos) { out.push_back(s.substr(p)); break; }
        out.push_back(s.substr(p, q - p)); p = q + 1;
    }
    return out;
}

std::vector<double> dlist(const std::string &tok) {
    std::vector<double> v;
    for (auto &x : tokList(tok)) v.push_back(tokF64(x));
    return v;
}
std::vector<std::string> slist(const std::string &tok) {
    std::vector<std::string> v;
    for (auto &x : tokList(tok)) v.push_back(unhexStr(x));
    return v;
}
nix::NDSize shapeOf(const std::string &tok) {
    std::vector<std::string> l = tokList(tok);
    nix::NDSize s(l.size());
    for (size_t i = 0; i < l.size(); i++) s[i] = tokNat(l[i]);
    return s;
}
nix::RangeMatch rm(const std::string &t) {
    if (t == "incl") return nix::RangeMatch::Inclusive;
    if (t == "excl") return nix::RangeMatch::Exclusive;
    throw ProtoError("bad RangeMatch " + t);
}
nix::LinkType lt(const std::string &t) {
    if (t == "tagged") return nix::LinkType::Tagged;
    if (t == "untagged") return nix::LinkType::Untagged;
    if (t == "indexed") return nix::LinkType::Indexed;
    throw ProtoError("bad LinkType " + t);
}

struct World {
    nix::File file;
    nix::Block block;
    std::string path;
    int n = 0;
    World() {
        path = scratch("region.nix");
        file = nix::File::open(path, nix::FileMode::Overwrite);
        block = file.createBlock("b", "t");
    }
    ~World() {
        block = nix::Block();
        if (file) file.close();
        std::remove(path.c_str());
    }
    // double array of the given shape filled with its own linear (row-major) index, with descriptors
    // dims token: [S:<si>:<off|~>:<unit|~>,R:<t;t;t>:<unit|~>,T:<nlabels>,F:<rows>:<unit>]
    nix::DataArray array(const std::string &shapeTok, const std::string &dimsTok) {
        nix::NDSize shape = shapeOf(shapeTok);
        nix::DataArray da = block.createDataArray("a" + std::to_string(n++), "t", nix::DataType::Double, shape);
        size_t total = 1;
        for (size_t i = 0; i < shape.size(); i++) total *= shape[i];
        std::vector<double> data(total);
        std::iota(data.begin(), data.end(), 0.0);
        if (total > 0) da.setData(nix::DataType::Double, data.data(), shape, nix::NDSize(shape.size(), 0));
        describe(da, dimsTok, false);
        return da;
    }
    // A warm-up: the SAME array under OTHER descriptors (intervals doubled, offsets and ticks shifted — same kinds, same shape) is
    // asked first and the answer (or refusal) thrown away; then it gets the descriptors of the request.  Whatever the library
    // remembers about an array between two retrievals must not leak into the second one.
    template<typename F> void warm(nix::DataArray &da, const std::string &dimsTok, F f) {
        da.deleteDimensions();
        describe(da, dimsTok, true);
        try { f(); } catch (...) {}
        da.deleteDimensions();
        describe(da, dimsTok, false);
    }
    void describe(nix::DataArray &da, const std::string &dimsTok, bool perturbed) {
        for (auto &d : tokList(dimsTok)) {
            std::vector<std::string> f = splitOn(d, ':');
            if (f.empty()) throw ProtoError("empty dim");
            if (f[0] == "S") {
                if (f.size() != 4) throw ProtoError("S dim");
                nix::SampledDimension sd = da.appendSampledDimension(perturbed ? tokF64(f[1]) * 2.0 : tokF64(f[1]));
                if (f[2] != "~") sd.offset(perturbed ? tokF64(f[2]) + 1.0 : tokF64(f[2]));
                else if (perturbed) sd.offset(0.5);
                if (f[3] != "~") sd.unit(unhexStr(f[3]));
            } else if (f[0] == "R") {
                if (f.size() != 3) throw ProtoError("R dim");
                std::vector<double> t;
                for (auto &x : splitOn(f[1], ';')) t.push_back(perturbed ? tokF64(x) + 100.0 : tokF64(x));
                nix::RangeDimension rd = da.appendRangeDimension(t);
                if (f[2] != "~") rd.unit(unhexStr(f[2]));
            } else if (f[0] == "T") {
                if (f.size() != 2) throw ProtoError("T dim");
                std::vector<std::string> l;
                for (unsigned long long i = 0; i < tokNat(f[1]); i++) l.push_back("l" + std::to_string(i));
                da.appendSetDimension(l);
            } else if (f[0] == "F") {
                if (f.size() != 3) throw ProtoError("F dim");
                std::vector<nix::Column> cols = {{"c", unhexStr(f[2]), nix::DataType::Double}};
                nix::DataFrame df = block.createDataFrame("f" + std::to_string(n++), "t", cols);
                df.rows(tokNat(f[1]));
                da.appendDataFrameDimension(df, 0);
            } else throw ProtoError("bad dim kind " + f[0]);
        }
    }
    nix::Tag tag(const std::string &posTok, const std::string &extTok, const std::string &unitsTok, const nix::DataArray &ref) {
        nix::Tag t = block.createTag("t" + std::to_string(n++), "t", dlist(posTok));
        if (extTok != "~") t.extent(dlist(extTok));
        std::vector<std::string> u = slist(unitsTok);
        if (!u.empty()) t.units(u);
        t.addReference(ref);
        return t;
    }
    // matrix token: rows separated by ',', entries by ';'   e.g. [d..;d..,d..;d..]
    nix::DataArray matrix(const std::string &tok, bool flat) {
        std::vector<std::string> rows = tokList(tok);
        size_t nrows = rows.size();
        size_t ncols = nrows ? splitOn(rows[0], ';').size() : 0;
        std::vector<double> data;
        for (auto &r : rows) for (auto &x : splitOn(r, ';')) data.push_back(tokF64(x));
        nix::NDSize shape = flat ? nix::NDSize({nrows}) : nix::NDSize({nrows, ncols});
        nix::DataArray da = block.createDataArray("m" + std::to_string(n++), "t", nix::DataType::Double, shape);
        if (!data.empty()) da.setData(nix::DataType::Double, data.data(), shape, nix::NDSize(shape.size(), 0));
        return da;
    }
    nix::MultiTag mtag(const std::string &posTok, bool flat, const std::string &extTok, const std::string &unitsTok, const nix::DataArray &ref) {
        nix::DataArray pos = matrix(posTok, flat);
        nix::MultiTag t = block.createMultiTag("mt" + std::to_string(n++), "t", pos);
        if (extTok != "~") t.extents(matrix(extTok, flat));
        std::vector<std::string> u = slist(unitsTok);
        if (!u.empty()) t.units(u);
        t.addReference(ref);
        return t;
    }
};

std::string ndTok(const nix::NDSize &s) {
    std::vector<std::string> l;
    for (size_t i = 0; i < s.size(); i++) l.push_back(std::to_string(s[i]));
    return listTok(l);
}

// what a view exposes: its extent, and its elements (the arrays hold their own linear index, so the
// elements identify the region): first 24 values and the sum
std::string viewTok(nix::DataView &v) {
    nix::NDSize ext = v.dataExtent();
    size_t total = 1;
    for (size_t i = 0; i < ext.size(); i++) total *= ext[i];
    std::vector<double> data(total);
    if (total > 0) v.getData(nix::DataType::Double, data.data(), ext, nix::NDSize(ext.size(), 0));
    std::vector<std::string> first;
    double sum = 0;
    for (size_t i = 0; i < total; i++) { if (i < 24) first.push_back(std::to_string((long long) data[i])); sum += data[i]; }
    return ndTok(ext) + " " + listTok(first) + " " + std::to_string((long long) sum);
}
std::string viewsTok(std::vector<nix::DataView> &vs) {
    std::string o;
    for (size_t i = 0; i < vs.size(); i++) { if (i) o += " | "; o += viewTok(vs[i]); }
    return std::to_string(vs.size()) + " " + o;
}
std::vector<nix::ndsize_t> idxList(const std::string &tok) {
    std::vector<nix::ndsize_t> v;
    for (auto &x : tokList(tok)) v.push_back(tokNat(x));
    return v;
}
// ---- every entry point of one retrieval -------------------------------------------------------------------------------
// The public API offers the same retrieval through many doors: util:: functions taking an index or the array / feature itself,
// member functions of Tag / MultiTag by index, name or id, the deprecated retrieve* aliases — with an explicit RangeMatch or
// with their default (Exclusive; Inclusive for the deprecated util:: aliases).  A request is answered through the primary door;
// the others are then asked the same and must answer the same, text for text (also the same exception class).  The first
// that does not is reported instead of the primary answer: `ok ROUTES-DIFFER <door> :: <its answer>`.
typedef std::pair<std::string, std::function<std::string()>> Door;
// In the home families of retrieval (C05, C06: NIXDRV_DOOR_MOD=1) every request goes through every door; elsewhere every third one
// (chosen by a hash of the request itself, so that a replay asks the same).
std::string throughEveryDoor(const std::string &primary, const std::vector<Door> &doors, const Args &a) {
    if (getenv("NIXDRV_ONE_DOOR")) return primary;
    const char *mod = getenv("NIXDRV_DOOR_MOD");
    unsigned long m = mod ? strtoul(mod, nullptr, 10) : 3;
    if (m > 1) {
        unsigned long long h = 1469598103934665603ULL;
        for (auto &t : a) for (unsigned char c : t) { h ^= c; h *= 1099511628211ULL; }
        if (h % m != 0) return primary;
    }
    for (auto &d : doors) {
        std::string x = guarded(d.second);
        if (x != primary) return "ok ROUTES-DIFFER " + d.first + " :: " + x;
    }
    return primary;
}
// like `guarded`, for a function that already returns a complete answer
std::string guardedRaw(const std::function<std::string()> &f) {
    bool threw = false; std::string r;
    std::string g = guarded([&]() { r = f(); return std::string(); });
    if (g != "ok") return g;
    (void) threw;
    return r;
}
std::string one(nix::DataView v) { std::vector<nix::DataView> vs; vs.push_back(v); return viewsTok(vs); }
} // namespace

// tag_oc <shape> <dims> <position> <extent|~> <units> <rm> => ok [offset] [count]
DRV_OP(tag_oc) {
    if (a.size() != 7) throw ProtoError("tag_oc arity");
    return guarded([&]() {
        World w;
        nix::DataArray da = w.array(a[1], a[2]);
        nix::Tag t = w.tag(a[3], a[4], a[5], da);
        nix::NDSize off, cnt;
        nix::util::getOffsetAndCount(t, da, off, cnt, rm(a[6]));
        return ndTok(off) + " " + ndTok(cnt);
    });
}
// tag_data <shape> <dims> <position> <extent|~> <units> <rm> => ok [extent] [first values] sum
DRV_OP(tag_data) {
    if (a.size() != 7) throw ProtoError("tag_data arity");
    return guardedRaw([&]() {
        World w;
        nix::DataArray da = w.array(a[1], a[2]);
        nix::Tag t = w.tag(a[3], a[4], a[5], da);
        nix::RangeMatch m = rm(a[6]);
        w.warm(da, a[2], [&]() { (void) nix::util::taggedData(t, (nix::ndsize_t) 0, m); });
        std::string prim = guarded([&]() { nix::DataView v = nix::util::taggedData(t, (nix::ndsize_t) 0, m); return viewTok(v); });
        std::vector<Door> doors = {
            {"util::taggedData(tag,array,match)", [&]() { nix::DataView v = nix::util::taggedData(t, da, m); return viewTok(v); }},
            {"util::retrieveData(tag,0,match)", [&]() { nix::DataView v = nix::util::retrieveData(t, (nix::ndsize_t) 0, m); return viewTok(v); }},
            {"util::retrieveData(tag,array,match)", [&]() { nix::DataView v = nix::util::retrieveData(t, da, m); return viewTok(v); }}};
        if (m == nix::RangeMatch::Exclusive) {
            doors.push_back({"util::taggedData(tag,0)", [&]() { nix::DataView v = nix::util::taggedData(t, (nix::ndsize_t) 0); return viewTok(v); }});
            doors.push_back({"util::taggedData(tag,array)", [&]() { nix::DataView v = nix::util::taggedData(t, da); return viewTok(v); }});
            doors.push_back({"Tag::taggedData(0)", [&]() { nix::DataView v = t.taggedData((size_t) 0); return viewTok(v); }});
            doors.push_back({"Tag::taggedData(name)", [&]() { nix::DataView v = t.taggedData(da.name()); return viewTok(v); }});
            doors.push_back({"Tag::taggedData(id)", [&]() { nix::DataView v = t.taggedData(da.id()); return viewTok(v); }});
            doors.push_back({"Tag::retrieveData(0)", [&]() { nix::DataView v = t.retrieveData((size_t) 0); return viewTok(v); }});
        } else {
            doors.push_back({"util::retrieveData(tag,0)", [&]() { nix::DataView v = nix::util::retrieveData(t, (nix::ndsize_t) 0); return viewTok(v); }});
            doors.push_back({"util::retrieveData(tag,array)", [&]() { nix::DataView v = nix::util::retrieveData(t, da); return viewTok(v); }});
        }
        return throughEveryDoor(prim, doors, a);
    });
}
// tag_feat <shape> <dims> <position> <extent|~> <units> <rm> <linktype> <fshape> <fdims>
DRV_OP(tag_feat) {
    if (a.size() != 10) throw ProtoError("tag_feat arity");
    return guardedRaw([&]() {
        World w;
        nix::DataArray da = w.array(a[1], a[2]);
        nix::Tag t = w.tag(a[3], a[4], a[5], da);
        nix::DataArray fa = w.array(a[8], a[9]);
        nix::Feature f = t.createFeature(fa, lt(a[7]));
        nix::RangeMatch m = rm(a[6]);
        std::string prim = guarded([&]() { nix::DataView v = nix::util::featureData(t, (nix::ndsize_t) 0, m); return viewTok(v); });
        std::vector<Door> doors = {
            {"util::featureData(tag,feature,match)", [&]() { nix::DataView v = nix::util::featureData(t, f, m); return viewTok(v); }},
            {"util::retrieveFeatureData(tag,0,match)", [&]() { nix::DataView v = nix::util::retrieveFeatureData(t, (nix::ndsize_t) 0, m); return viewTok(v); }},
            {"util::retrieveFeatureData(tag,feature,match)", [&]() { nix::DataView v = nix::util::retrieveFeatureData(t, f, m); return viewTok(v); }}};
        if (m == nix::RangeMatch::Exclusive) {
            doors.push_back({"util::featureData(tag,0)", [&]() { nix::DataView v = nix::util::featureData(t, (nix::ndsize_t) 0); return viewTok(v); }});
            doors.push_back({"util::featureData(tag,feature)", [&]() { nix::DataView v = nix::util::featureData(t, f); return viewTok(v); }});
            doors.push_back({"Tag::featureData(0)", [&]() { nix::DataView v = t.featureData((size_t) 0); return viewTok(v); }});
            doors.push_back({"Tag::featureData(array name)", [&]() { nix::DataView v = t.featureData(fa.name()); return viewTok(v); }});
            doors.push_back({"Tag::featureData(feature id)", [&]() { nix::DataView v = t.featureData(f.id()); return viewTok(v); }});
            doors.push_back({"Tag::retrieveFeatureData(0)", [&]() { nix::DataView v = t.retrieveFeatureData((size_t) 0); return viewTok(v); }});
        } else {
            doors.push_back({"util::retrieveFeatureData(tag,0)", [&]() { nix::DataView v = nix::util::retrieveFeatureData(t, (nix::ndsize_t) 0); return viewTok(v); }});
            doors.push_back({"util::retrieveFeatureData(tag,feature)", [&]() { nix::DataView v = nix::util::retrieveFeatureData(t, f); return viewTok(v); }});
        }
        return throughEveryDoor(prim, doors, a);
    });
}
// mtag_oc <shape> <dims> <positions> <flat> <extents|~> <units> <index> <rm> => ok [off] [cnt]
DRV_OP(mtag_oc) {
    if (a.size() != 9) throw ProtoError("mtag_oc arity");
    return guarded([&]() {
        World w;
        nix::DataArray da = w.array(a[1], a[2]);
        nix::MultiTag t = w.mtag(a[3], a[4] == "1", a[5], a[6], da);
        nix::NDSize off, cnt;
        nix::util::getOffsetAndCount(t, da, (nix::ndsize_t) tokNat(a[7]), off, cnt, rm(a[8]));
        return ndTok(off) + " " + ndTok(cnt);
    });
}
// mtag_data <shape> <dims> <positions> <flat> <extents|~> <units> <indices> <rm> => ok n view | view ...
DRV_OP(mtag_data) {
    if (a.size() != 9) throw ProtoError("mtag_data arity");
    return guardedRaw([&]() {
        World w;
        nix::DataArray da = w.array(a[1], a[2]);
        nix::MultiTag t = w.mtag(a[3], a[4] == "1", a[5], a[6], da);
        const std::vector<nix::ndsize_t> idx0 = idxList(a[7]);
        nix::RangeMatch m = rm(a[8]);
        w.warm(da, a[2], [&]() { std::vector<nix::ndsize_t> idx = idx0; (void) nix::util::taggedData(t, idx, (nix::ndsize_t) 0, m); });
        std::string prim = guarded([&]() { std::vector<nix::ndsize_t> idx = idx0; std::vector<nix::DataView> vs = nix::util::taggedData(t, idx, (nix::ndsize_t) 0, m); return viewsTok(vs); });
        std::vector<Door> doors = {
            {"util::taggedData(mtag,list,array,match)", [&]() { std::vector<nix::ndsize_t> idx = idx0; std::vector<nix::DataView> vs = nix::util::taggedData(t, idx, da, m); return viewsTok(vs); }},
            {"util::retrieveData(mtag,list,0,match)", [&]() { std::vector<nix::ndsize_t> idx = idx0; std::vector<nix::DataView> vs = nix::util::retrieveData(t, idx, (nix::ndsize_t) 0, m); return viewsTok(vs); }},
            {"util::retrieveData(mtag,list,array,match)", [&]() { std::vector<nix::ndsize_t> idx = idx0; std::vector<nix::DataView> vs = nix::util::retrieveData(t, idx, da, m); return viewsTok(vs); }}};
        if (m == nix::RangeMatch::Exclusive) {
            doors.push_back({"util::taggedData(mtag,list,0)", [&]() { std::vector<nix::ndsize_t> idx = idx0; std::vector<nix::DataView> vs = nix::util::taggedData(t, idx, (nix::ndsize_t) 0); return viewsTok(vs); }});
            doors.push_back({"MultiTag::taggedData(list,0)", [&]() { std::vector<nix::ndsize_t> idx = idx0; std::vector<nix::DataView> vs = t.taggedData(idx, (nix::ndsize_t) 0); return viewsTok(vs); }});
            doors.push_back({"MultiTag::taggedData(list,name)", [&]() { std::vector<nix::ndsize_t> idx = idx0; std::vector<nix::DataView> vs = t.taggedData(idx, da.name()); return viewsTok(vs); }});
        }
        if (idx0.size() == 1) {
            doors.push_back({"util::taggedData(mtag,i,0,match)", [&]() { return one(nix::util::taggedData(t, idx0[0], (nix::ndsize_t) 0, m)); }});
            doors.push_back({"util::taggedData(mtag,i,array,match)", [&]() { return one(nix::util::taggedData(t, idx0[0], da, m)); }});
        }
        return throughEveryDoor(prim, doors, a);
    });
}
// mtag_data1 … <index> <rm> : the single-index overload
DRV_OP(mtag_data1) {
    if (a.size() != 9) throw ProtoError("mtag_data1 arity");
    return guardedRaw([&]() {
        World w;
        nix::DataArray da = w.array(a[1], a[2]);
        nix::MultiTag t = w.mtag(a[3], a[4] == "1", a[5], a[6], da);
        nix::ndsize_t i = (nix::ndsize_t) tokNat(a[7]);
        nix::RangeMatch m = rm(a[8]);
        w.warm(da, a[2], [&]() { (void) nix::util::taggedData(t, i, (nix::ndsize_t) 0, m); });
        std::string prim = guarded([&]() { nix::DataView v = nix::util::taggedData(t, i, (nix::ndsize_t) 0, m); return viewTok(v); });
        std::vector<Door> doors = {
            {"util::taggedData(mtag,i,array,match)", [&]() { nix::DataView v = nix::util::taggedData(t, i, da, m); return viewTok(v); }},
            {"util::retrieveData(mtag,i,0,match)", [&]() { nix::DataView v = nix::util::retrieveData(t, i, (nix::ndsize_t) 0, m); return viewTok(v); }},
            {"util::retrieveData(mtag,i,array,match)", [&]() { nix::DataView v = nix::util::retrieveData(t, i, da, m); return viewTok(v); }}};
        if (m == nix::RangeMatch::Exclusive) {
            doors.push_back({"util::taggedData(mtag,i,0)", [&]() { nix::DataView v = nix::util::taggedData(t, i, (nix::ndsize_t) 0); return viewTok(v); }});
            doors.push_back({"util::taggedData(mtag,i,array)", [&]() { nix::DataView v = nix::util::taggedData(t, i, da); return viewTok(v); }});
            doors.push_back({"MultiTag::taggedData(i,0)", [&]() { nix::DataView v = t.taggedData((size_t) i, (size_t) 0); return viewTok(v); }});
            doors.push_back({"MultiTag::taggedData(i,name)", [&]() { nix::DataView v = t.taggedData((size_t) i, da.name()); return viewTok(v); }});
            doors.push_back({"MultiTag::retrieveData(i,0)", [&]() { nix::DataView v = t.retrieveData((size_t) i, (size_t) 0); return viewTok(v); }});
        } else {
            doors.push_back({"util::retrieveData(mtag,i,0)", [&]() { nix::DataView v = nix::util::retrieveData(t, i, (nix::ndsize_t) 0); return viewTok(v); }});
            doors.push_back({"util::retrieveData(mtag,i,array)", [&]() { nix::DataView v = nix::util::retrieveData(t, i, da); return viewTok(v); }});
        }
        return throughEveryDoor(prim, doors, a);
    });
}
// mtag_feat <shape> <dims> <positions> <flat> <extents|~> <units> <indices> <rm> <linktype> <fshape> <fdims>
DRV_OP(mtag_feat) {
    if (a.size() != 12) throw ProtoError("mtag_feat arity");
    return guardedRaw([&]() {
        World w;
        nix::DataArray da = w.array(a[1], a[2]);
        nix::MultiTag t = w.mtag(a[3], a[4] == "1", a[5], a[6], da);
        nix::DataArray fa = w.array(a[10], a[11]);
        nix::Feature f = t.createFeature(fa, lt(a[9]));
        const std::vector<nix::ndsize_t> idx0 = idxList(a[7]);
        nix::RangeMatch m = rm(a[8]);
        std::string prim = guarded([&]() { std::vector<nix::DataView> vs = nix::util::featureData(t, idx0, (nix::ndsize_t) 0, m); return viewsTok(vs); });
        std::vector<Door> doors = {
            {"util::featureData(mtag,list,feature,match)", [&]() { std::vector<nix::DataView> vs = nix::util::featureData(t, idx0, f, m); return viewsTok(vs); }},
            {"util::retrieveFeatureData(mtag,list,0,match)", [&]() { std::vector<nix::DataView> vs = nix::util::retrieveFeatureData(t, idx0, (nix::ndsize_t) 0, m); return viewsTok(vs); }},
            {"util::retrieveFeatureData(mtag,list,feature,match)", [&]() { std::vector<nix::DataView> vs = nix::util::retrieveFeatureData(t, idx0, f, m); return viewsTok(vs); }}};
        if (idx0.size() == 1) {
            nix::ndsize_t i = idx0[0];
            doors.push_back({"util::featureData(mtag,i,0,match)", [&, i]() { return one(nix::util::featureData(t, i, (nix::ndsize_t) 0, m)); }});
            doors.push_back({"util::featureData(mtag,i,feature,match)", [&, i]() { return one(nix::util::featureData(t, i, f, m)); }});
            doors.push_back({"util::retrieveFeatureData(mtag,i,0,match)", [&, i]() { return one(nix::util::retrieveFeatureData(t, i, (nix::ndsize_t) 0, m)); }});
            doors.push_back({"util::retrieveFeatureData(mtag,i,feature,match)", [&, i]() { return one(nix::util::retrieveFeatureData(t, i, f, m)); }});
            if (m == nix::RangeMatch::Exclusive) {
                doors.push_back({"util::featureData(mtag,i,0)", [&, i]() { return one(nix::util::featureData(t, i, (nix::ndsize_t) 0)); }});
                doors.push_back({"MultiTag::featureData(i,0)", [&, i]() { return one(t.featureData((size_t) i, (size_t) 0)); }});
                doors.push_back({"MultiTag::featureData(i,array name)", [&, i]() { return one(t.featureData((size_t) i, fa.name())); }});
                doors.push_back({"MultiTag::featureData(i,feature id)", [&, i]() { return one(t.featureData((size_t) i, f.id())); }});
            } else {
                doors.push_back({"util::retrieveFeatureData(mtag,i,0)", [&, i]() { return one(nix::util::retrieveFeatureData(t, i, (nix::ndsize_t) 0)); }});
            }
        }
        return throughEveryDoor(prim, doors, a);
    });
}
// slice <shape> <dims> <starts> <ends> <units> <rm> => ok [extent] [first] sum
DRV_OP(slice) {
    if (a.size() != 7) throw ProtoError("slice arity");
    return guarded([&]() {
        World w;
        nix::DataArray da = w.array(a[1], a[2]);
        nix::DataView v = nix::util::dataSlice(da, dlist(a[3]), dlist(a[4]), slist(a[5]), rm(a[6]));
        return viewTok(v);
    });
}
