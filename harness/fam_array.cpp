// ops of the `array` family (C01 data round trip; DataView part of C17)
// Element values travel as tokens: integers decimal, bool 0/1, float as f<8 hex>, double as d<16 hex>, strings x<hex>.
#include "common.hpp"
#include <nix/hydra/multiArray.hpp>
#include <cstdio>
#include <cstring>

using namespace drv;

namespace {
struct St {
    nix::File file;
    nix::Block block;
    nix::DataArray h[2];      // two long-lived handles of the one array (separate backend objects)
    unsigned muts = 0; int lastMut = 0;
    std::unique_ptr<nix::DataView> view;
    std::string path;
    nix::Compression fileCompr = nix::Compression::Auto;
} st;

void resetAll() {
    st.view.reset();
    st.h[0] = nix::DataArray(); st.h[1] = nix::DataArray(); st.muts = 0; st.lastMut = 0;
    st.block = nix::Block();
    if (st.file) { st.file.close(); st.file = nix::File(); }
    if (!st.path.empty()) std::remove(st.path.c_str());
    st.path.clear();
}
struct Init { Init() { resetHooks().push_back(resetAll); } } init;

// Two handles of one array must be indistinguishable (nothing may be cached in a handle): changes go mostly through h[0],
// every third through h[1]; reads go through the handle that did not make the last change.
nix::DataArray &wrH() { st.lastMut = (st.muts++ % 3 == 2) ? 1 : 0; return st.h[st.lastMut]; }
nix::DataArray &rdH() { return st.h[1 - st.lastMut]; }

nix::DataType dtOf(const std::string &t) {
    if (t == "Bool") return nix::DataType::Bool;
    if (t == "Int8") return nix::DataType::Int8;
    if (t == "Int16") return nix::DataType::Int16;
    if (t == "Int32") return nix::DataType::Int32;
    if (t == "Int64") return nix::DataType::Int64;
    if (t == "UInt8") return nix::DataType::UInt8;
    if (t == "UInt16") return nix::DataType::UInt16;
    if (t == "UInt32") return nix::DataType::UInt32;
    if (t == "UInt64") return nix::DataType::UInt64;
    if (t == "Float") return nix::DataType::Float;
    if (t == "Double") return nix::DataType::Double;
    if (t == "String") return nix::DataType::String;
    if (t == "Char") return nix::DataType::Char;
    if (t == "Opaque") return nix::DataType::Opaque;
    throw ProtoError("bad dtype " + t);
}
nix::Compression comprOf(const std::string &t) {
    if (t == "none") return nix::Compression::None;
    if (t == "deflate") return nix::Compression::DeflateNormal;
    if (t == "auto") return nix::Compression::Auto;
    throw ProtoError("bad compression " + t);
}
nix::NDSize nd(const std::string &tok) {
    std::vector<std::string> l = tokList(tok);
    nix::NDSize s(l.size());
    for (size_t i = 0; i < l.size(); i++) s[i] = tokNat(l[i]);
    return s;
}
std::string ndTok(const nix::NDSize &s) {
    std::vector<std::string> l;
    for (size_t i = 0; i < s.size(); i++) l.push_back(std::to_string(s[i]));
    return listTok(l);
}
size_t nelms(const nix::NDSize &s) { size_t n = 1; for (size_t i = 0; i < s.size(); i++) n *= s[i]; return n; }

std::string f32Tok(float f) { uint32_t u; std::memcpy(&u, &f, 4); char b[16]; snprintf(b, sizeof b, "f%08x", u); return b; }
float tokF32(const std::string &t) {
    if (t.size() != 9 || t[0] != 'f') throw ProtoError("bad float token " + t);
    uint32_t u = (uint32_t) strtoul(t.c_str() + 1, nullptr, 16); float f; std::memcpy(&f, &u, 4); return f;
}

// typed buffers
template<typename T> struct Conv;
#define INTCONV(T) template<> struct Conv<T> { \
    static T from(const std::string &t) { return (T) tokInt(t); } \
    static std::string to(T v) { return std::to_string((long long) v); } };
INTCONV(int8_t) INTCONV(int16_t) INTCONV(int32_t) INTCONV(int64_t) INTCONV(uint8_t) INTCONV(uint16_t) INTCONV(uint32_t)
template<> struct Conv<uint64_t> {
    static uint64_t from(const std::string &t) { return tokNat(t); }
    static std::string to(uint64_t v) { return std::to_string((unsigned long long) v); } };
template<> struct Conv<bool> {
    static bool from(const std::string &t) { return t != "0"; }
    static std::string to(bool v) { return v ? "1" : "0"; } };
template<> struct Conv<float> { static float from(const std::string &t) { return tokF32(t); } static std::string to(float v) { return f32Tok(v); } };
template<> struct Conv<double> { static double from(const std::string &t) { return tokF64(t); } static std::string to(double v) { return f64Tok(v); } };
template<> struct Conv<std::string> { static std::string from(const std::string &t) { return unhexStr(t); } static std::string to(const std::string &v) { return hexStr(v); } };

// run f.template operator()<T>() for the element type
template<typename F> std::string withType(nix::DataType dt, F f) {
    switch (dt) {
    case nix::DataType::Bool: return f.template run<bool>();
    case nix::DataType::Int8: return f.template run<int8_t>();
    case nix::DataType::Int16: return f.template run<int16_t>();
    case nix::DataType::Int32: return f.template run<int32_t>();
    case nix::DataType::Int64: return f.template run<int64_t>();
    case nix::DataType::UInt8: return f.template run<uint8_t>();
    case nix::DataType::UInt16: return f.template run<uint16_t>();
    case nix::DataType::UInt32: return f.template run<uint32_t>();
    case nix::DataType::UInt64: return f.template run<uint64_t>();
    case nix::DataType::Float: return f.template run<float>();
    case nix::DataType::Double: return f.template run<double>();
    case nix::DataType::String: return f.template run<std::string>();
    default: throw ProtoError("unsupported element type in harness");
    }
}

// bool is stored by nix as one byte; std::vector<bool> is packed, so use a byte buffer
template<typename T> struct Buf { typedef std::vector<T> type; };
template<> struct Buf<bool> { typedef std::vector<uint8_t> type; };

template<typename V> void fillSentinel(std::vector<V> &buf) { if (!buf.empty()) std::memset(buf.data(), 0x5A, buf.size() * sizeof(V)); }
template<> void fillSentinel<std::string>(std::vector<std::string> &buf) { for (auto &x : buf) x = "\x5a\x5a"; }

// Whole-array transfers alternate between the raw-pointer API and the container API with a boost::multi_array (the container of the
// library's own examples): the shape then comes from data_traits<multi_array>::shape, not from the caller.
unsigned wholeTransfers = 0;
bool isWhole(const nix::DataSet &ds, const nix::NDSize &count, const nix::NDSize &offset) {
    nix::NDSize ext = ds.dataExtent();
    if (ext.size() < 1 || ext.size() > 3 || count.size() != ext.size() || offset.size() != ext.size()) return false;
    for (size_t i = 0; i < ext.size(); i++) if (count[i] != ext[i] || offset[i] != 0 || ext[i] == 0) return false;
    return true;
}
template<typename T, size_t N> void writeMA(nix::DataSet *t, const nix::NDSize &shape, const std::vector<std::string> &vals) {
    std::vector<size_t> ext(N);
    for (size_t i = 0; i < N; i++) ext[i] = (size_t) shape[i];
    boost::multi_array<T, N> ma(ext);
    for (size_t i = 0; i < ma.num_elements(); i++) ma.data()[i] = Conv<T>::from(vals[i]);
    // setData(container) also sets the extent, which a view refuses by design: a view gets the form with an offset
    if (dynamic_cast<nix::DataView *>(t)) t->setData(ma, nix::NDSize(N, 0)); else t->setData(ma);
}
template<typename T, size_t N> std::vector<std::string> readMA(const nix::DataSet *s) {
    boost::multi_array<T, N> ma;
    // every other read goes into a buffer that has been used before: as many elements, but the extents in reverse order — the
    // library has to give it the shape of the data
    nix::NDSize want = s->dataExtent();
    if (N >= 2 && want.size() == N && (wholeTransfers % 4) >= 2) {
        std::vector<size_t> rev(N);
        for (size_t i = 0; i < N; i++) rev[i] = (size_t) want[N - 1 - i];
        ma.resize(rev);
    }
    s->getData(ma);
    for (size_t i = 0; i < N && want.size() == N; i++)
        if (ma.shape()[i] != want[i]) return std::vector<std::string>{"!shape"};
    std::vector<std::string> out;
    for (size_t i = 0; i < ma.num_elements(); i++) out.push_back(Conv<T>::to((T) ma.data()[i]));
    return out;
}
// rank 1 also through std::vector<T> (not for bool: std::vector<bool> is packed and has no data traits)
template<typename T> struct Vec {
    static void write(nix::DataSet *t, const std::vector<std::string> &vals) {
        std::vector<T> v;
        for (auto &x : vals) v.push_back(Conv<T>::from(x));
        if (dynamic_cast<nix::DataView *>(t)) t->setData(v, nix::NDSize(1, 0)); else t->setData(v);
    }
    static std::vector<std::string> read(const nix::DataSet *s) {
        std::vector<T> v;
        s->getData(v);
        std::vector<std::string> out;
        for (auto &x : v) out.push_back(Conv<T>::to(x));
        return out;
    }
    static const bool usable = true;
};
template<> struct Vec<bool> {
    static void write(nix::DataSet *, const std::vector<std::string> &) {}
    static std::vector<std::string> read(const nix::DataSet *) { return {}; }
    static const bool usable = false;
};
template<typename T> struct MA {
    static void write(nix::DataSet *t, const nix::NDSize &shape, const std::vector<std::string> &vals) {
        if (shape.size() == 1 && Vec<T>::usable && (wholeTransfers % 4 == 1)) { Vec<T>::write(t, vals); return; }
        if (shape.size() == 1) writeMA<T, 1>(t, shape, vals); else if (shape.size() == 2) writeMA<T, 2>(t, shape, vals); else writeMA<T, 3>(t, shape, vals);
    }
    static std::vector<std::string> read(const nix::DataSet *s, size_t rank) {
        if (rank == 1 && Vec<T>::usable && (wholeTransfers % 4 == 1)) return Vec<T>::read(s);
        return rank == 1 ? readMA<T, 1>(s) : rank == 2 ? readMA<T, 2>(s) : readMA<T, 3>(s);
    }
    static const bool usable = true;
};
template<> struct MA<std::string> {
    static void write(nix::DataSet *, const nix::NDSize &, const std::vector<std::string> &) {}
    static std::vector<std::string> read(const nix::DataSet *, size_t) { return {}; }
    static const bool usable = false;
};

struct Writer {
    nix::DataSet *target; nix::DataType dt; nix::NDSize count, offset; const std::vector<std::string> *vals; bool direct;
    template<typename T> std::string run() {
        // the buffer handed to the library must hold what the request transfers
        // no count: a view transfers its whole window; an array, given an offset, the one element there
        size_t need = count.size() ? nelms(count) : (!dynamic_cast<nix::DataView *>(target) && offset.size()) ? 1 : nelms(target->dataExtent());
        // (a request for more than 2^32 elements cannot be backed by any buffer here: it goes to the library as it is, which must refuse it)
        if (vals->size() < need && need <= (1ull << 32)) throw ProtoError("write buffer shorter than the request");
        if (!direct && MA<T>::usable && vals->size() == need && isWhole(*target, count, offset) && (wholeTransfers++ % 2 == 0)) {
            MA<T>::write(target, count, *vals);
            return "";
        }
        typename Buf<T>::type buf(vals->size());
        for (size_t i = 0; i < vals->size(); i++) buf[i] = Conv<T>::from((*vals)[i]);
        if (direct) dynamic_cast<nix::DataArray &>(*target).setDataDirect(dt, buf.data(), count, offset);
        else target->setData(dt, buf.data(), count, offset);
        return "";
    }
};
struct Reader {
    const nix::DataSet *source; nix::DataType dt; nix::NDSize count, offset; size_t n; bool direct;
    template<typename T> std::string run() {
        size_t need = count.size() ? nelms(count) : (!dynamic_cast<const nix::DataView *>(source) && offset.size()) ? 1 : nelms(source->dataExtent());
        if (n < need && need <= (1ull << 32)) throw ProtoError("read buffer shorter than the request");
        if (!direct && MA<T>::usable && n == need && isWhole(*source, count, offset) && (wholeTransfers++ % 2 == 0)) {
            return listTok(MA<T>::read(source, count.size()));
        }
        typename Buf<T>::type buf(n);
        // the buffer a client hands in is not zeroed: fill it with a sentinel so that a read which leaves elements
        // untouched (instead of delivering zeros for never-written data) is visible
        fillSentinel(buf);
        if (direct) dynamic_cast<const nix::DataArray &>(*source).getDataDirect(dt, buf.data(), count, offset);
        else source->getData(dt, buf.data(), count, offset);
        std::vector<std::string> out;
        for (size_t i = 0; i < n; i++) out.push_back(Conv<T>::to((T) buf[i]));
        return listTok(out);
    }
};
// the whole-array write that also sets the extent: setData(container), the shape comes from the container
struct WholeWriter {
    nix::DataArray *da; nix::NDSize shape; const std::vector<std::string> *vals;
    template<typename T> std::string run() {
        if (vals->size() != nelms(shape)) throw ProtoError("da_whole: the values do not fill the shape");
        if (shape.size() < 1 || shape.size() > 3) throw ProtoError("da_whole rank");
        wholeTransfers++;
        MA<T>::write(da, shape, *vals);
        return "";
    }
};
template<> std::string WholeWriter::run<std::string>() {
    if (shape.size() != 1 || vals->size() != nelms(shape)) throw ProtoError("da_whole String: rank 1 only");
    std::vector<std::string> v;
    for (auto &x : *vals) v.push_back(Conv<std::string>::from(x));
    da->setData(v);
    return "";
}
struct Appender {
    nix::DataArray *da; nix::DataType dt; nix::NDSize count; size_t axis; const std::vector<std::string> *vals;
    template<typename T> std::string run() {
        if (vals->size() < nelms(count)) throw ProtoError("append buffer shorter than the request");
        typename Buf<T>::type buf(vals->size());
        for (size_t i = 0; i < vals->size(); i++) buf[i] = Conv<T>::from((*vals)[i]);
        da->appendData(dt, buf.data(), count, axis);
        return "";
    }
};
}

// da_new <dtype> <shape> <array compression> <file compression>
DRV_OP(da_new) {
    if (a.size() != 5) throw ProtoError("da_new arity");
    return guarded([&]() {
        resetAll();
        st.path = scratch("array.nix");
        st.fileCompr = comprOf(a[4]);
        st.file = nix::File::open(st.path, nix::FileMode::Overwrite, "hdf5", st.fileCompr);
        st.block = st.file.createBlock("b", "t");
        st.h[0] = st.block.createDataArray("a", "t", dtOf(a[1]), nd(a[2]), comprOf(a[3]));
        st.h[1] = st.block.getDataArray("a");
        return std::string();
    });
}
// da_wr <dtype> <count> <offset> [values]
DRV_OP(da_wr) {
    if (a.size() != 5) throw ProtoError("da_wr arity");
    return guarded([&]() {
        std::vector<std::string> v = tokList(a[4]);
        Writer w{&wrH(), dtOf(a[1]), nd(a[2]), nd(a[3]), &v, false};
        return withType(w.dt, w);
    });
}
// da_whole <buffer dtype> <shape> [values] : DataArray::setData(container of that shape) — whole write, sets the extent as well
DRV_OP(da_whole) {
    if (a.size() != 4) throw ProtoError("da_whole arity");
    return guarded([&]() {
        std::vector<std::string> v = tokList(a[3]);
        WholeWriter w{&wrH(), nd(a[2]), &v};
        return withType(dtOf(a[1]), w);
    });
}
// da_rd <dtype> <count> <offset> <n elements expected in the buffer>
DRV_OP(da_rd) {
    if (a.size() != 5) throw ProtoError("da_rd arity");
    return guarded([&]() {
        Reader r{&rdH(), dtOf(a[1]), nd(a[2]), nd(a[3]), (size_t) tokNat(a[4]), false};
        return withType(r.dt, r);
    });
}
// da_rdd / da_wrd: the same through getDataDirect / setDataDirect (no calibration)
DRV_OP(da_rdd) {
    if (a.size() != 5) throw ProtoError("da_rdd arity");
    return guarded([&]() {
        Reader r{&rdH(), dtOf(a[1]), nd(a[2]), nd(a[3]), (size_t) tokNat(a[4]), false};
        r.direct = true;
        return withType(r.dt, r);
    });
}
DRV_OP(da_wrd) {
    if (a.size() != 5) throw ProtoError("da_wrd arity");
    return guarded([&]() {
        std::vector<std::string> v = tokList(a[4]);
        Writer w{&wrH(), dtOf(a[1]), nd(a[2]), nd(a[3]), &v, false};
        w.direct = true;
        return withType(w.dt, w);
    });
}
// da_ext <shape>
DRV_OP(da_ext) {
    if (a.size() != 2) throw ProtoError("da_ext arity");
    return guarded([&]() { wrH().dataExtent(nd(a[1])); return std::string(); });
}
// da_shape => ok [shape] dtype
DRV_OP(da_shape) {
    return guarded([&]() { return ndTok(rdH().dataExtent()) + " " + nix::data_type_to_string(rdH().dataType()); });
}
// da_app <dtype> <count> <axis> [values]
DRV_OP(da_app) {
    if (a.size() != 5) throw ProtoError("da_app arity");
    return guarded([&]() {
        std::vector<std::string> v = tokList(a[4]);
        Appender w{&wrH(), dtOf(a[1]), nd(a[2]), (size_t) tokNat(a[3]), &v};
        return withType(w.dt, w);
    });
}
// da_poly [coefficients] | ~      da_origin <double> | ~
DRV_OP(da_poly) {
    if (a.size() != 2) throw ProtoError("da_poly arity");
    return guarded([&]() {
        nix::DataArray &da = wrH();
        if (a[1] == "~") { da.polynomCoefficients(nix::none); return std::string(); }
        std::vector<double> c;
        for (auto &x : tokList(a[1])) c.push_back(tokF64(x));
        da.polynomCoefficients(c);
        return std::string();
    });
}
DRV_OP(da_origin) {
    if (a.size() != 2) throw ProtoError("da_origin arity");
    return guarded([&]() {
        nix::DataArray &da = wrH();
        if (a[1] == "~") da.expansionOrigin(nix::none); else da.expansionOrigin(tokF64(a[1]));
        return std::string();
    });
}
// da_reopen <ro|rw>
DRV_OP(da_reopen) {
    if (a.size() != 2) throw ProtoError("da_reopen arity");
    return guarded([&]() {
        st.view.reset();
        st.h[0] = nix::DataArray(); st.h[1] = nix::DataArray(); st.block = nix::Block();
        st.file.close();
        st.file = nix::File::open(st.path, a[1] == "ro" ? nix::FileMode::ReadOnly : nix::FileMode::ReadWrite, "hdf5", st.fileCompr);
        st.block = st.file.getBlock("b");
        st.h[0] = st.block.getDataArray("a"); st.h[1] = st.block.getDataArray("a");
        return std::string();
    });
}
// dv_new <count> <offset>
DRV_OP(dv_new) {
    if (a.size() != 3) throw ProtoError("dv_new arity");
    return guarded([&]() {
        st.view.reset();      // a failed construction leaves no view
        st.view.reset(new nix::DataView(rdH(), nd(a[1]), nd(a[2])));
        return ndTok(st.view->dataExtent());
    });
}
// The typed transfers of ONE value and of a std::vector the library sizes itself (the templates of include/nix/DataSet.hpp over Hydra):
//   da_one|dv_one rd3 <dtype> <count> <offset>   getData(T &value, count, offset)            => ok [value]
//   da_one|dv_one rd2 <dtype> ~ <offset>         getData(T &value, offset)                   => ok [value]
//   da_one|dv_one wr2 <dtype> <value> <offset>   setData(const T &value, offset)             => ok
//   da_one|dv_one vec <dtype> <count> <offset>   getData(std::vector<T> &value, count, offset) => ok [values of the vector as the library sized it]
// The single value lives in a heap cell of exactly one element: a transfer of more than one element is an overrun the sanitizers see.
namespace {
struct One {
    nix::DataSet *ds; std::string how; std::string arg; nix::NDSize offset;
    template<typename T> std::string run() {
        if (how == "vec") { return vec<T>(); }
        std::unique_ptr<T[]> cell(new T[1]);
        cell[0] = T();
        if (how == "rd3") ds->getData(cell[0], nd(arg), offset);
        else if (how == "rd2") ds->getData(cell[0], offset);
        else if (how == "wr2") { cell[0] = Conv<T>::from(arg); const T &cv = cell[0]; ds->setData(cv, offset); return ""; }
        else throw ProtoError("da_one how");
        return listTok({Conv<T>::to(cell[0])});
    }
    template<typename T> std::string vec() {
        std::vector<T> v;
        ds->getData(v, nd(arg), offset);
        std::vector<std::string> out;
        for (auto &x : v) out.push_back(Conv<T>::to(x));
        return listTok(out);
    }
};
template<> std::string One::vec<bool>() { throw ProtoError("no std::vector<bool> transfers"); }
}
DRV_OP(da_one) {
    if (a.size() != 5) throw ProtoError("da_one arity");
    return guarded([&]() {
        One o{a[1] == "wr2" ? (nix::DataSet *) &wrH() : (nix::DataSet *) &rdH(), a[1], a[3], nd(a[4])};
        return withType(dtOf(a[2]), o);
    });
}
DRV_OP(dv_one) {
    if (a.size() != 5) throw ProtoError("dv_one arity");
    return guarded([&]() {
        if (!st.view) return std::string("no-view");
        One o{st.view.get(), a[1], a[3], nd(a[4])};
        return withType(dtOf(a[2]), o);
    });
}
// dv_rd <dtype> <count> <offset> <n> ; dv_wr <dtype> <count> <offset> [values]
DRV_OP(dv_rd) {
    if (a.size() != 5) throw ProtoError("dv_rd arity");
    return guarded([&]() {
        if (!st.view) return std::string("no-view");
        Reader r{st.view.get(), dtOf(a[1]), nd(a[2]), nd(a[3]), (size_t) tokNat(a[4]), false};
        return withType(r.dt, r);
    });
}
DRV_OP(dv_wr) {
    if (a.size() != 5) throw ProtoError("dv_wr arity");
    return guarded([&]() {
        if (!st.view) return std::string("no-view");
        std::vector<std::string> v = tokList(a[4]);
        Writer w{st.view.get(), dtOf(a[1]), nd(a[2]), nd(a[3]), &v, false};
        return withType(w.dt, w);
    });
}
