// ops of the `props` family (C14 metadata property values): one file, one section, properties addressed by name.
// Typed values travel as `<Type>:<token>` (Bool 0/1, integers decimal, Double d<16 hex>, String x<hex>, Nothing:0 = Variant()).
// <via> selects the handle an op goes through: `h` = the handle kept since creation / the last lookup, `n` = a fresh
// getProperty(name) lookup.
#include "common.hpp"
#include <algorithm>
#include <cstdio>

using namespace drv;

namespace {
struct St {
    nix::File file;
    nix::Section sec;
    std::map<std::string, nix::Property> handles;
    std::string path;
} st;

void dropHandles() {
    st.handles.clear();
    st.sec = nix::Section();
}
void resetAll() {
    dropHandles();
    if (st.file) { st.file.close(); st.file = nix::File(); }
    if (!st.path.empty()) std::remove(st.path.c_str());
    st.path.clear();
}
struct Init { Init() { resetHooks().push_back(resetAll); } } init;

nix::DataType dtOf(const std::string &t) {
    if (t == "Bool") return nix::DataType::Bool;
    if (t == "Int8") return nix::DataType::Int8;
    if (t == "Int16") return nix::DataType::Int16;
    if (t == "Int32") return nix::DataType::Int32;
    if (t == "Int64") return nix::DataType::Int64;
    if (t == "UInt8") return nix::DataType::UInt8;
    if (t == "UInt16") return nix::DataType::UInt16;
    if (t == "UInt32") return nix::DataType::UInt32;
    if (t == "UInt64") return nix::DataType::UInt64;
    if (t == "Float") return nix::DataType::Float;
    if (t == "Double") return nix::DataType::Double;
    if (t == "String") return nix::DataType::String;
    if (t == "Char") return nix::DataType::Char;
    if (t == "Opaque") return nix::DataType::Opaque;
    if (t == "Nothing") return nix::DataType::Nothing;
    throw ProtoError("bad dtype " + t);
}
nix::Variant variantOf(const std::string &tok) {
    size_t p = tok.find(':');
    if (p == std::string::npos) throw ProtoError("bad typed value " + tok);
    std::string t = tok.substr(0, p), v = tok.substr(p + 1);
    if (t == "Bool") return nix::Variant(v != "0");
    if (t == "Int32") return nix::Variant((int32_t) tokInt(v));
    if (t == "UInt32") return nix::Variant((uint32_t) tokNat(v));
    if (t == "Int64") return nix::Variant((int64_t) tokInt(v));
    if (t == "UInt64") return nix::Variant((uint64_t) tokNat(v));
    if (t == "Double") return nix::Variant(tokF64(v));
    if (t == "String") return nix::Variant(unhexStr(v));
    if (t == "Nothing") return nix::Variant();
    throw ProtoError("bad value type " + t);
}
std::string variantTok(const nix::Variant &v) {
    std::string t = nix::data_type_to_string(v.type()) + ":";
    switch (v.type()) {
    case nix::DataType::Bool: return t + (v.get<bool>() ? "1" : "0");
    case nix::DataType::Int32: return t + std::to_string(v.get<int32_t>());
    case nix::DataType::UInt32: return t + std::to_string(v.get<uint32_t>());
    case nix::DataType::Int64: return t + std::to_string((long long) v.get<int64_t>());
    case nix::DataType::UInt64: return t + std::to_string((unsigned long long) v.get<uint64_t>());
    case nix::DataType::Double: return t + f64Tok(v.get<double>());
    case nix::DataType::String: return t + hexStr(v.get<std::string>());
    default: return t + "?";
    }
}
std::vector<nix::Variant> variants(const std::string &tok) {
    std::vector<nix::Variant> vs;
    for (auto &x : tokList(tok)) vs.push_back(variantOf(x));
    return vs;
}
// the handle an op goes through
nix::Property prop(const std::string &nameTok, const std::string &via) {
    std::string name = unhexStr(nameTok);
    if (via == "h") {
        auto it = st.handles.find(name);
        if (it != st.handles.end()) return it->second;
    } else if (via != "n") throw ProtoError("bad via " + via);
    nix::Property p = st.sec.getProperty(name);
    if (p) st.handles[name] = p;
    return p;
}
std::string optS(const boost::optional<std::string> &o) { return o ? hexStr(*o) : std::string("~"); }
}

// pv_open : a fresh file with one section
DRV_OP(pv_open) {
    return guarded([&]() {
        resetAll();
        st.path = scratch("props.nix");
        st.file = nix::File::open(st.path, nix::FileMode::Overwrite);
        st.sec = st.file.createSection("s", "t");
        return std::string();
    });
}
// pv_mkd <name> <dtype> : createProperty(name, DataType)
DRV_OP(pv_mkd) {
    if (a.size() != 3) throw ProtoError("pv_mkd arity");
    return guarded([&]() {
        std::string name = unhexStr(a[1]);
        nix::Property p = st.sec.createProperty(name, dtOf(a[2]));
        st.handles[name] = p;
        return std::string();
    });
}
// pv_mkv <name> [Type:value,…] : createProperty(name, vector<Variant>)
DRV_OP(pv_mkv) {
    if (a.size() != 3) throw ProtoError("pv_mkv arity");
    return guarded([&]() {
        std::string name = unhexStr(a[1]);
        nix::Property p = st.sec.createProperty(name, variants(a[2]));
        st.handles[name] = p;
        return std::string();
    });
}
// pv_mk1 <name> Type:value : createProperty(name, Variant)
DRV_OP(pv_mk1) {
    if (a.size() != 3) throw ProtoError("pv_mk1 arity");
    return guarded([&]() {
        std::string name = unhexStr(a[1]);
        nix::Property p = st.sec.createProperty(name, variantOf(a[2]));
        st.handles[name] = p;
        return std::string();
    });
}
// pv_set <name> <via> [Type:value,…] : Property::values(vector)
DRV_OP(pv_set) {
    if (a.size() != 4) throw ProtoError("pv_set arity");
    return guarded([&]() {
        nix::Property p = prop(a[1], a[2]);
        p.values(variants(a[3]));
        return std::string();
    });
}
// pv_clr <name> <via> <del|none> : deleteValues() / values(none)
DRV_OP(pv_clr) {
    if (a.size() != 4) throw ProtoError("pv_clr arity");
    return guarded([&]() {
        nix::Property p = prop(a[1], a[2]);
        if (a[3] == "del") p.deleteValues(); else if (a[3] == "none") p.values(nix::none); else throw ProtoError("pv_clr how");
        return std::string();
    });
}
// pv_unit <name> <via> <string|~> ; pv_unc <name> <via> <double|~> ; pv_def <name> <via> <string|~>
DRV_OP(pv_unit) {
    if (a.size() != 4) throw ProtoError("pv_unit arity");
    return guarded([&]() {
        nix::Property p = prop(a[1], a[2]);
        if (a[3] == "~") p.unit(nix::none); else p.unit(unhexStr(a[3]));
        return std::string();
    });
}
DRV_OP(pv_unc) {
    if (a.size() != 4) throw ProtoError("pv_unc arity");
    return guarded([&]() {
        nix::Property p = prop(a[1], a[2]);
        if (a[3] == "~") p.uncertainty(nix::none); else p.uncertainty(tokF64(a[3]));
        return std::string();
    });
}
DRV_OP(pv_def) {
    if (a.size() != 4) throw ProtoError("pv_def arity");
    return guarded([&]() {
        nix::Property p = prop(a[1], a[2]);
        if (a[3] == "~") p.definition(nix::none); else p.definition(unhexStr(a[3]));
        return std::string();
    });
}
// pv_get <name> <via> => ok <dtype> <valueCount> [Type:value,…] <unit|~> <uncertainty|~> <definition|~>
DRV_OP(pv_get) {
    if (a.size() != 3) throw ProtoError("pv_get arity");
    return guarded([&]() {
        nix::Property p = prop(a[1], a[2]);
        std::string dt = nix::data_type_to_string(p.dataType());
        std::string n = std::to_string(p.valueCount());
        std::vector<std::string> l;
        for (auto &v : p.values()) l.push_back(variantTok(v));
        auto unc = p.uncertainty();
        return dt + " " + n + " " + listTok(l) + " " + optS(p.unit()) + " " + (unc ? f64Tok(*unc) : std::string("~")) + " " + optS(p.definition());
    });
}
// pv_del <name> => ok 0|1 : Section::deleteProperty(name)
DRV_OP(pv_del) {
    if (a.size() != 2) throw ProtoError("pv_del arity");
    return guarded([&]() {
        std::string name = unhexStr(a[1]);
        bool r = st.sec.deleteProperty(name);
        if (r) st.handles.erase(name);
        return std::string(r ? "1" : "0");
    });
}
// pv_names => ok <propertyCount> [names, sorted]
DRV_OP(pv_names) {
    return guarded([&]() {
        std::vector<std::string> l;
        for (auto &p : st.sec.properties()) l.push_back(hexStr(p.name()));
        std::sort(l.begin(), l.end());
        return std::to_string(st.sec.propertyCount()) + " " + listTok(l);
    });
}
// pv_reopen <ro|rw>
DRV_OP(pv_reopen) {
    if (a.size() != 2) throw ProtoError("pv_reopen arity");
    return guarded([&]() {
        dropHandles();
        st.file.close();
        st.file = nix::File::open(st.path, a[1] == "ro" ? nix::FileMode::ReadOnly : nix::FileMode::ReadWrite);
        st.sec = st.file.getSection("s");
        return std::string();
    });
}
