// ops of the `props` family (C14 metadata property values): one file, one section, properties addressed by name.
// Typed values travel as `<Type>:<token>` (Bool 0/1, integers decimal, Double d<16 hex>, String x<hex>, Nothing:0 = Variant()).
// <via> selects the handle an op goes through: `h` = the handle kept since creation / the last lookup, `n` = a fresh
// getProperty(name) lookup.
#include "common.hpp"
#include <algorithm>
#include <cstdio>

using namespace drv;

namespace {
struct St {
    nix::File file;
    nix::Section sec;
    std::map<std::string, nix::Property> handles;      // the first kept handle of a property ("h")
    std::map<std::string, nix::Property> handles2;     // a second one, from a later lookup ("k"; every fresh lookup "n" becomes it)
    std::string path;
} st;

void dropHandles() {
    st.handles.clear(); st.handles2.clear();
    st.sec = nix::Section();
}
void resetAll() {
    dropHandles();
    if (st.file) { st.file.close(); st.file = nix::File(); }
    if (!st.path.empty()) std::remove(st.path.c_str());
    st.path.clear();
}
struct Init { Init() { resetHooks().push_back(resetAll); } } init;

nix::DataType dtOf(const std::string &t) {
    if (t == "Bool") return nix::DataType::Bool;
    if (t == "Int8") return nix::DataType::Int8;
    if (t == "Int16") return nix::DataType::Int16;
    if (t == "Int32") return nix::DataType::Int32;
    if (t == "Int64") return nix::DataType::Int64;
    if (t == "UInt8") return nix::DataType::UInt8;
    if (t == "UInt16") return nix::DataType::UInt16;
    if (t == "UInt32") return nix::DataType::UInt32;
    if (t == "UInt64") return nix::DataType::UInt64;
    if (t == "Float") return nix::DataType::Float;
    if (t == "Double") return nix::DataType::Double;
    if (t == "String") return nix::DataType::String;
    if (t == "Char") return nix::DataType::Char;
    if (t == "Opaque") return nix::DataType::Opaque;
    if (t == "Nothing") return nix::DataType::Nothing;
    throw ProtoError("bad dtype " + t);
}
nix::Variant variantOf(const std::string &tok) {
    size_t p = tok.find(':');
    if (p == std::string::npos) throw ProtoError("bad typed value " + tok);
    std::string t = tok.substr(0, p), v = tok.substr(p + 1);
    if (t == "Bool") return nix::Variant(v != "0");
    if (t == "Int32") return nix::Variant((int32_t) tokInt(v));
    if (t == "UInt32") return nix::Variant((uint32_t) tokNat(v));
    if (t == "Int64") return nix::Variant((int64_t) tokInt(v));
    if (t == "UInt64") return nix::Variant((uint64_t) tokNat(v));
    if (t == "Double") return nix::Variant(tokF64(v));
    if (t == "String") return nix::Variant(unhexStr(v));
    if (t == "Nothing") return nix::Variant();
    throw ProtoError("bad value type " + t);
}
std::string variantTok(const nix::Variant &v) {
    std::string t = nix::data_type_to_string(v.type()) + ":";
    switch (v.type()) {
    case nix::DataType::Bool: return t + (v.get<bool>() ? "1" : "0");
    case nix::DataType::Int32: return t + std::to_string(v.get<int32_t>());
    case nix::DataType::UInt32: return t + std::to_string(v.get<uint32_t>());
    case nix::DataType::Int64: return t + std::to_string((long long) v.get<int64_t>());
    case nix::DataType::UInt64: return t + std::to_string((unsigned long long) v.get<uint64_t>());
    case nix::DataType::Double: return t + f64Tok(v.get<double>());
    case nix::DataType::String: return t + hexStr(v.get<std::string>());
    default: return t + "?";
    }
}
std::vector<nix::Variant> variants(const std::string &tok) {
    std::vector<nix::Variant> vs;
    for (auto &x : tokList(tok)) vs.push_back(variantOf(x));
    return vs;
}
// the handle an op goes through
nix::Property prop(const std::string &nameTok, const std::string &via) {
    std::string name = unhexStr(nameTok);
    // two handles of one property stay alive side by side: nothing about a property may be remembered in a handle
    if (via == "h") {
        auto it = st.handles.find(name);
        if (it != st.handles.end()) return it->second;
    } else if (via == "k") {
        auto it = st.handles2.find(name);
        if (it != st.handles2.end()) return it->second;
    } else if (via != "n") throw ProtoError("bad via " + via);
    nix::Property p = st.sec.getProperty(name);
    if (p) {
        if (st.handles.find(name) == st.handles.end()) st.handles[name] = p; else st.handles2[name] = p;
    }
    return p;
}
std::string optS(const boost::optional<std::string> &o) { return o ? hexStr(*o) : std::string("~"); }
}

// pv_open : a fresh file with one section
DRV_OP(pv_open) {
    return guarded([&]() {
        resetAll();
        st.path = scratch("props.nix");
        st.file = nix::File::open(st.path, nix::FileMode::Overwrite);
        st.sec = st.file.createSection("s", "t");
        return std::string();
    });
}
// pv_mkd <name> <dtype> : createProperty(name, DataType)
DRV_OP(pv_mkd) {
    if (a.size() != 3) throw ProtoError("pv_mkd arity");
    return guarded([&]() {
        std::string name = unhexStr(a[1]);
        nix::Property p = st.sec.createProperty(name, dtOf(a[2]));
        st.handles[name] = p;
        return std::string();
    });
}
// pv_mkv <name> [Type:value,…] : createProperty(name, vector<Variant>)
DRV_OP(pv_mkv) {
    if (a.size() != 3) throw ProtoError("pv_mkv arity");
    return guarded([&]() {
        std::string name = unhexStr(a[1]);
        nix::Property p = st.sec.createProperty(name, variants(a[2]));
        st.handles[name] = p;
        return std::string();
    });
}
// pv_mk1 <name> Type:value : createProperty(name, Variant)
DRV_OP(pv_mk1) {
    if (a.size() != 3) throw ProtoError("pv_mk1 arity");
    return guarded([&]() {
        std::string name = unhexStr(a[1]);
        nix::Property p = st.sec.createProperty(name, variantOf(a[2]));
        st.handles[name] = p;
        return std::string();
    });
}
// pv_set <name> <via> [Type:value,…] : Property::values(vector)
DRV_OP(pv_set) {
    if (a.size() != 4) throw ProtoError("pv_set arity");
    return guarded([&]() {
        nix::Property p = prop(a[1], a[2]);
        p.values(variants(a[3]));
        return std::string();
    });
}
// pv_clr <name> <via> <del|none> : deleteValues() / values(none)
DRV_OP(pv_clr) {
    if (a.size() != 4) throw ProtoError("pv_clr arity");
    return guarded([&]() {
        nix::Property p = prop(a[1], a[2]);
        if (a[3] == "del") p.deleteValues(); else if (a[3] == "none") p.values(nix::none); else throw ProtoError("pv_clr how");
        return std::string();
    });
}
// pv_unit <name> <via> <string|~> ; pv_unc <name> <via> <double|~> ; pv_def <name> <via> <string|~>
DRV_OP(pv_unit) {
    if (a.size() != 4) throw ProtoError("pv_unit arity");
    return guarded([&]() {
        nix::Property p = prop(a[1], a[2]);
        if (a[3] == "~") p.unit(nix::none); else p.unit(unhexStr(a[3]));
        return std::string();
    });
}
DRV_OP(pv_unc) {
    if (a.size() != 4) throw ProtoError("pv_unc arity");
    return guarded([&]() {
        nix::Property p = prop(a[1], a[2]);
        if (a[3] == "~") p.uncertainty(nix::none); else p.uncertainty(tokF64(a[3]));
        return std::string();
    });
}
DRV_OP(pv_def) {
    if (a.size() != 4) throw ProtoError("pv_def arity");
    return guarded([&]() {
        nix::Property p = prop(a[1], a[2]);
        if (a[3] == "~") p.definition(nix::none); else p.definition(unhexStr(a[3]));
        return std::string();
    });
}
// pv_get <name> <via> => ok <dtype> <valueCount> [Type:value,…] <unit|~> <uncertainty|~> <definition|~>
DRV_OP(pv_get) {
    if (a.size() != 3) throw ProtoError("pv_get arity");
    return guarded([&]() {
        nix::Property p = prop(a[1], a[2]);
        std::string dt = nix::data_type_to_string(p.dataType());
        std::string n = std::to_string(p.valueCount());
        std::vector<std::string> l;
        for (auto &v : p.values()) l.push_back(variantTok(v));
        auto unc = p.uncertainty();
        return dt + " " + n + " " + listTok(l) + " " + optS(p.unit()) + " " + (unc ? f64Tok(*unc) : std::string("~")) + " " + optS(p.definition());
    });
}
// pv_del <name> => ok 0|1 : Section::deleteProperty(name)
DRV_OP(pv_del) {
    if (a.size() != 2) throw ProtoError("pv_del arity");
    return guarded([&]() {
        std::string name = unhexStr(a[1]);
        bool r = st.sec.deleteProperty(name);
        if (r) { st.handles.erase(name); st.handles2.erase(name); }
        return std::string(r ? "1" : "0");
    });
}
// pv_names => ok <propertyCount> [names, sorted]
DRV_OP(pv_names) {
    return guarded([&]() {
        std::vector<std::string> l;
        for (auto &p : st.sec.properties()) l.push_back(hexStr(p.name()));
        std::sort(l.begin(), l.end());
        return std::to_string(st.sec.propertyCount()) + " " + listTok(l);
    });
}
// pv_reopen <ro|rw>
DRV_OP(pv_reopen) {
    if (a.size() != 2) throw ProtoError("pv_reopen arity");
    return guarded([&]() {
        dropHandles();
        st.file.close();
        st.file = nix::File::open(st.path, a[1] == "ro" ? nix::FileMode::ReadOnly : nix::FileMode::ReadWrite);
        st.sec = st.file.getSection("s");
        return std::string();
    });
}

// ---- files of an older format (< 1.1.1): one compound record per value ------------------------------------------------------
// The library still reads them (read-only).  No API call writes such a file: it is prepared with the HDF5 C API — a file made by
// the library gets the version 1.1.0 and a property data set of compound records (value, uncertainty, reference, filename,
// encoder, checksum), the layout PropertyHDF5.cpp reads in its "old style" branch.
#include <hdf5.h>
namespace {
template<typename T> struct OldRec { T value; double uncertainty; const char *reference; const char *filename; const char *encoder; const char *checksum; };
hid_t vlenStr() { hid_t t = H5Tcopy(H5T_C_S1); H5Tset_size(t, H5T_VARIABLE); H5Tset_cset(t, H5T_CSET_UTF8); return t; }
void strAttr(hid_t loc, const char *name, const std::string &value) {
    hid_t t = vlenStr(); hid_t sp = H5Screate(H5S_SCALAR);
    hid_t at = H5Acreate2(loc, name, t, sp, H5P_DEFAULT, H5P_DEFAULT);
    const char *p = value.c_str();
    if (at < 0 || H5Awrite(at, t, &p) < 0) throw ProtoError("pv_old: attribute");
    H5Aclose(at); H5Sclose(sp); H5Tclose(t);
}
template<typename T> void writeOld(hid_t group, const std::string &name, hid_t valueType, const std::vector<T> &vals, double unc) {
    typedef OldRec<T> R;
    hid_t st = vlenStr();
    hid_t ct = H5Tcreate(H5T_COMPOUND, sizeof(R));
    H5Tinsert(ct, "value", HOFFSET(R, value), valueType); H5Tinsert(ct, "uncertainty", HOFFSET(R, uncertainty), H5T_NATIVE_DOUBLE);
    H5Tinsert(ct, "reference", HOFFSET(R, reference), st); H5Tinsert(ct, "filename", HOFFSET(R, filename), st);
    H5Tinsert(ct, "encoder", HOFFSET(R, encoder), st); H5Tinsert(ct, "checksum", HOFFSET(R, checksum), st);
    std::vector<R> recs(vals.size());
    for (size_t i = 0; i < vals.size(); i++) { std::memset(&recs[i], 0, sizeof(R)); recs[i].value = vals[i]; recs[i].uncertainty = unc;
        recs[i].reference = ""; recs[i].filename = ""; recs[i].encoder = ""; recs[i].checksum = ""; }
    hsize_t dims[1] = {vals.size()}, maxdims[1] = {H5S_UNLIMITED}, chunk[1] = {vals.size() > 0 ? vals.size() : 1};
    hid_t sp = H5Screate_simple(1, dims, maxdims); hid_t dcpl = H5Pcreate(H5P_DATASET_CREATE); H5Pset_chunk(dcpl, 1, chunk);
    hid_t ds = H5Dcreate2(group, name.c_str(), ct, sp, H5P_DEFAULT, dcpl, H5P_DEFAULT);
    if (ds < 0 || (!vals.empty() && H5Dwrite(ds, ct, H5S_ALL, H5S_ALL, H5P_DEFAULT, recs.data()) < 0)) throw ProtoError("pv_old: data set");
    strAttr(ds, "name", name); strAttr(ds, "entity_id", "0b5f3c1e-7a2d-4c3b-9e11-0000000000a1");
    strAttr(ds, "created_at", "20200101T000000"); strAttr(ds, "updated_at", "20200101T000000");
    H5Dclose(ds); H5Pclose(dcpl); H5Sclose(sp); H5Tclose(ct); H5Tclose(st);
}
}
// pv_relabel <major> <minor> <patch> [Type:value,…] => ok <file version> <dtype> <valueCount> [Type:value,…]
// a property written by the library (the current layout), the file then LABELLED with another format version that uses the same
// layout (1.1.1 is the first), read through the public API from a ReadOnly session
DRV_OP(pv_relabel) {
    if (a.size() != 5) throw ProtoError("pv_relabel arity");
    return guarded([&]() {
        resetAll();
        std::string path = scratch("relabel.nix");
        std::vector<nix::Variant> vs = variants(a[4]);
        { nix::File f = nix::File::open(path, nix::FileMode::Overwrite); nix::Section s = f.createSection("s", "t");
          if (vs.size() == 1) s.createProperty("p", vs[0]); else s.createProperty("p", vs);
          f.close(); }
        {
            hid_t fid = H5Fopen(path.c_str(), H5F_ACC_RDWR, H5P_DEFAULT);
            if (fid < 0) throw ProtoError("pv_relabel: open");
            int version[3] = {(int) tokInt(a[1]), (int) tokInt(a[2]), (int) tokInt(a[3])};
            hid_t at = H5Aopen(fid, "version", H5P_DEFAULT);
            if (at < 0 || H5Awrite(at, H5T_NATIVE_INT, version) < 0) throw ProtoError("pv_relabel: version");
            H5Aclose(at); H5Fclose(fid);
        }
        nix::File f = nix::File::open(path, nix::FileMode::ReadOnly);
        std::vector<std::string> ver; for (int v : f.version()) ver.push_back(std::to_string(v));
        nix::Property p = f.getSection("s").getProperty("p");
        std::vector<std::string> l;
        for (auto &v : p.values()) l.push_back(variantTok(v));
        std::string r = listTok(ver) + " " + nix::data_type_to_string(p.dataType()) + " " + std::to_string(p.valueCount()) + " " + listTok(l);
        f.close();
        return r;
    });
}
// pv_old <Type> [Type:value,…] <uncertainty> => ok <file version> <dtype> <valueCount> [Type:value,…] <uncertainty|~>
// a property of an old-format file holding these values, read through the public API from a ReadOnly session
DRV_OP(pv_old) {
    if (a.size() != 4) throw ProtoError("pv_old arity");
    return guarded([&]() {
        resetAll();
        std::string path = scratch("old.nix");
        { nix::File f = nix::File::open(path, nix::FileMode::Overwrite); nix::Section s = f.createSection("s", "t");
          s.createProperty("dummy", nix::Variant(int32_t(1))); f.close(); }
        std::vector<nix::Variant> vs = variants(a[2]);
        double unc = tokF64(a[3]);
        {
            hid_t fid = H5Fopen(path.c_str(), H5F_ACC_RDWR, H5P_DEFAULT);
            if (fid < 0) throw ProtoError("pv_old: open");
            int version[3] = {1, 1, 0};
            hid_t at = H5Aopen(fid, "version", H5P_DEFAULT);
            if (at < 0 || H5Awrite(at, H5T_NATIVE_INT, version) < 0) throw ProtoError("pv_old: version");
            H5Aclose(at);
            hid_t g = H5Gopen2(fid, "/metadata/s/properties", H5P_DEFAULT);
            if (g < 0) throw ProtoError("pv_old: group");
            H5Ldelete(g, "dummy", H5P_DEFAULT);
            const std::string &t = a[1];
            if (t == "Int32") { std::vector<int32_t> v; for (auto &x : vs) v.push_back(x.get<int32_t>()); writeOld<int32_t>(g, "p", H5T_NATIVE_INT32, v, unc); }
            else if (t == "UInt32") { std::vector<uint32_t> v; for (auto &x : vs) v.push_back(x.get<uint32_t>()); writeOld<uint32_t>(g, "p", H5T_NATIVE_UINT32, v, unc); }
            else if (t == "Int64") { std::vector<int64_t> v; for (auto &x : vs) v.push_back(x.get<int64_t>()); writeOld<int64_t>(g, "p", H5T_NATIVE_INT64, v, unc); }
            else if (t == "UInt64") { std::vector<uint64_t> v; for (auto &x : vs) v.push_back(x.get<uint64_t>()); writeOld<uint64_t>(g, "p", H5T_NATIVE_UINT64, v, unc); }
            else if (t == "Double") { std::vector<double> v; for (auto &x : vs) v.push_back(x.get<double>()); writeOld<double>(g, "p", H5T_NATIVE_DOUBLE, v, unc); }
            else if (t == "String") { std::vector<std::string> keep; for (auto &x : vs) keep.push_back(x.get<std::string>());
                std::vector<const char *> v; for (auto &x : keep) v.push_back(x.c_str());
                hid_t stt = vlenStr(); writeOld<const char *>(g, "p", stt, v, unc); H5Tclose(stt); }
            else if (t == "Bool") { hid_t bt = H5Tenum_create(H5T_NATIVE_INT8); int8_t zero = 0, one = 1;
                H5Tenum_insert(bt, "FALSE", &zero); H5Tenum_insert(bt, "TRUE", &one);
                std::vector<int8_t> v; for (auto &x : vs) v.push_back(x.get<bool>() ? 1 : 0); writeOld<int8_t>(g, "p", bt, v, unc); H5Tclose(bt); }
            else throw ProtoError("pv_old type " + t);
            H5Gclose(g); H5Fclose(fid);
        }
        nix::File f = nix::File::open(path, nix::FileMode::ReadOnly);
        std::vector<std::string> ver; for (int v : f.version()) ver.push_back(std::to_string(v));
        nix::Property p = f.getSection("s").getProperty("p");
        std::vector<std::string> l;
        for (auto &v : p.values()) l.push_back(variantTok(v));
        auto u = p.uncertainty();
        std::string r = listTok(ver) + " " + nix::data_type_to_string(p.dataType()) + " " + std::to_string(p.valueCount()) + " " + listTok(l) + " " + (u ? f64Tok(*u) : std::string("~"));
        f.close();
        return r;
    });
}
