// ops of the `crash` family (C11): after close / flush the file is complete and released.
//
//   cr_fork                 start a worker process (a copy of this one); ops sent with `cr_in` run there
//   cr_in <op line …>       run one op of any family in the worker, answer = the worker's answer
//   cr_end kill|exit|abort  end the worker without any destructor or exit handler: SIGKILL from outside, _exit(0), abort()
//   cr_reopen ro|rw|ow      (in this process) open the store family's file, dump it, close it
//
// and, without a worker, for "close releases the file whatever handles are alive":
//   cr_hold <slot> copy <n> | dim <i> | view | file        keep further handles alive (copies, a dimension, a data view, a File copy)
//   cr_close                File::close() with every slot and held handle still alive
//   cr_h5count              open HDF5 ids of this process: files groups datasets datatypes attributes
//   cr_use <op line …>      an op through a handle obtained before the close: answer = the op's answer
//   cr_held <index> <what>  a call through a held dimension / view / file copy
#include "common.hpp"
#include "store.hpp"
#include <hdf5.h>
#include <csignal>
#include <cstdio>
#include <iostream>
#include <sys/types.h>
#include <sys/wait.h>
#include <unistd.h>

using namespace drv;
using namespace drv::store;

namespace {

struct Worker {
    pid_t pid = -1;
    int to = -1, from = -1;    // pipes
};
Worker &worker() { static Worker w; return w; }

bool writeAll(int fd, const std::string &s) {
    size_t off = 0;
    while (off < s.size()) { ssize_t w = write(fd, s.data() + off, s.size() - off); if (w <= 0) return false; off += (size_t) w; }
    return true;
}
// messages are a decimal length, a newline, the bytes
bool sendMsg(int fd, const std::string &s) { return writeAll(fd, std::to_string(s.size()) + "\n" + s); }
bool recvMsg(int fd, std::string &out) {
    std::string len; char c;
    while (true) { ssize_t r = read(fd, &c, 1); if (r <= 0) return false; if (c == '\n') break; len.push_back(c); }
    size_t n = (size_t) std::stoull(len);
    out.assign(n, '\0');
    size_t off = 0;
    while (off < n) { ssize_t r = read(fd, &out[off], n - off); if (r <= 0) return false; off += (size_t) r; }
    return true;
}

void reap(bool killIt) {
    Worker &w = worker();
    if (w.pid > 0) { if (killIt) kill(w.pid, SIGKILL); int st; waitpid(w.pid, &st, 0); }
    if (w.to >= 0) close(w.to);
    if (w.from >= 0) close(w.from);
    w = Worker();
}

std::string dispatch(const std::string &line) {
    Args a;
    { std::istringstream is(line); std::string t; while (is >> t) a.push_back(t); }
    if (a.empty()) return "PROTO-ERROR empty line";
    auto it = registry().find(a[0]);
    if (it == registry().end()) return "UNKNOWN-OP";
    try { return it->second(a); }
    catch (const ProtoError &e) { return "PROTO-ERROR " + e.msg; }
}

[[noreturn]] void workerLoop(int in, int out) {
    std::string line;
    while (recvMsg(in, line)) {
        if (line == "\x01" "exit") _exit(0);
        if (line == "\x01" "abort") { signal(SIGABRT, SIG_DFL); abort(); }
        std::string res = dispatch(line);
        if (!sendMsg(out, res)) _exit(3);
    }
    _exit(4);     // the parent went away
}

// further handles kept alive across a close
struct Held {
    std::vector<Ent> copies;
    std::vector<nix::Dimension> dims;
    std::vector<nix::DataView> views;
    std::vector<nix::File> files;
    // further sessions on the same path in this process, each with entity handles of its own
    std::vector<nix::File> sessions;
    std::vector<nix::Block> sessionBlocks;
};
Held &held() { static Held h; return h; }

std::string path() {
    St &st = state();
    if (st.path.empty()) st.path = scratch("store.nix");
    return st.path;
}

struct Init { Init() { resetHooks().push_back([]() {
    reap(true);
    { St &st = state(); if (!st.path.empty()) std::remove((st.path + ".real").c_str()); }
    Held &h = held();
    h.copies.clear(); h.dims.clear(); h.views.clear();
    for (auto &f : h.files) { try { f.close(); } catch (...) {} }
    h.files.clear();
    h.sessionBlocks.clear();
    for (auto &f : h.sessions) { try { f.close(); } catch (...) {} }
    h.sessions.clear();
}); } } init;

nix::FileMode modeOf(const std::string &m) {
    if (m == "ro") return nix::FileMode::ReadOnly;
    if (m == "rw") return nix::FileMode::ReadWrite;
    if (m == "ow") return nix::FileMode::Overwrite;
    throw ProtoError("bad mode " + m);
}

} // namespace

DRV_OP(cr_fork) {
    if (worker().pid > 0) throw ProtoError("cr_fork: a worker is running");
    path();                                   // so that `reset` in this process removes the file the worker makes
    int p2c[2], c2p[2];
    if (pipe(p2c) != 0 || pipe(c2p) != 0) throw ProtoError("pipe");
    std::cout.flush(); fflush(stdout); fflush(stderr);
    pid_t pid = fork();
    if (pid < 0) throw ProtoError("fork");
    if (pid == 0) {
        close(p2c[1]); close(c2p[0]);
        workerLoop(p2c[0], c2p[1]);
    }
    close(p2c[0]); close(c2p[1]);
    Worker &w = worker();
    w.pid = pid; w.to = p2c[1]; w.from = c2p[0];
    return "ok";
}

DRV_OP(cr_in) {
    if (a.size() < 2) throw ProtoError("cr_in arity");
    Worker &w = worker();
    if (w.pid <= 0) throw ProtoError("cr_in: no worker");
    std::string line;
    for (size_t i = 1; i < a.size(); i++) { if (i > 1) line += " "; line += a[i]; }
    std::string res;
    if (!sendMsg(w.to, line) || !recvMsg(w.from, res)) {
        // the worker died on its own (crash, sanitizer abort): that is fatal for the run, and this op is the culprit
        int st = 0; waitpid(w.pid, &st, 0);
        std::cerr << "nixdrv: worker died during `" << line << "` status " << st << std::endl;
        w.pid = -1;
        std::cout.flush();
        signal(SIGABRT, SIG_DFL);
        abort();
    }
    return res;
}

DRV_OP(cr_end) {
    if (a.size() != 2) throw ProtoError("cr_end arity");
    Worker &w = worker();
    if (w.pid <= 0) throw ProtoError("cr_end: no worker");
    if (a[1] == "kill") kill(w.pid, SIGKILL);
    else if (a[1] == "exit") sendMsg(w.to, "\x01" "exit");
    else if (a[1] == "abort") sendMsg(w.to, "\x01" "abort");
    else throw ProtoError("cr_end how");
    int st = 0;
    waitpid(w.pid, &st, 0);
    w.pid = -1;
    reap(false);
    std::string how = WIFSIGNALED(st) ? "signal" + std::to_string(WTERMSIG(st)) : "exit" + std::to_string(WEXITSTATUS(st));
    return "ok " + how;
}

// cr_reopen <mode> => ok <dump tokens…> | err Class
DRV_OP(cr_reopen) {
    if (a.size() != 2) throw ProtoError("cr_reopen arity");
    return guarded([&]() {
        St &st = state();
        // slots are left alone: handles of an earlier, closed session may be alive in them on purpose
        if (st.file) { st.file.close(); st.file = nix::File(); }
        st.file = nix::File::open(path(), modeOf(a[1]));
        std::string d = registry()["dump"](Args{"dump"});
        bool open_ = st.file.isOpen();
        st.file.close();
        st.file = nix::File();
        if (d.compare(0, 3, "ok ") != 0) throw std::runtime_error("dump failed: " + d);
        return std::string(open_ ? "1 " : "0 ") + d.substr(3);
    });
}

DRV_OP(cr_hold) {
    if (a.size() < 3) throw ProtoError("cr_hold arity");
    return guarded([&]() {
        Held &h = held();
        const std::string &w = a[2];
        if (w == "file") { h.files.push_back(state().file); return std::to_string(h.files.size() - 1); }
        if (w == "file2") {
            // the same path opened a second time while the first session is open; the new session's handles stay alive
            nix::File f2 = nix::File::open(path(), state().file.fileMode() == nix::FileMode::ReadOnly ? nix::FileMode::ReadOnly : nix::FileMode::ReadWrite);
            for (auto &b : f2.blocks()) { h.sessionBlocks.push_back(b); for (auto &da : b.dataArrays()) { Ent e; e.kind = 'A'; e.a = da; h.copies.push_back(e); } }
            h.sessions.push_back(f2);
            return std::to_string(h.sessions.size() - 1);
        }
        Ent &e = slot(a[1]);
        if (w == "copy") { size_t n = tokNat(a[3]); for (size_t i = 0; i < n; i++) h.copies.push_back(e); return std::to_string(h.copies.size()); }
        if (w == "dim") { h.dims.push_back(e.a.getDimension(tokNat(a[3]))); return std::to_string(h.dims.size() - 1); }
        if (w == "view") {
            nix::NDSize ext = e.a.dataExtent();
            nix::NDSize off(ext.size(), 0);
            h.views.push_back(nix::DataView(e.a, ext, off));
            return std::to_string(h.views.size() - 1);
        }
        throw ProtoError("cr_hold " + w);
    });
}

// cr_linkpath : from now on the path handed to the library is a SYMBOLIC LINK to the file (store.nix -> store.nix.real, which need
// not exist yet): every open, flush, close, kill and reopen of the case goes through the link
DRV_OP(cr_linkpath) {
    std::string p = path(), real = p + ".real";
    std::remove(p.c_str()); std::remove(real.c_str());
    if (symlink(real.c_str(), p.c_str()) != 0) throw ProtoError("cr_linkpath: symlink");
    return "ok";
}

DRV_OP(cr_close) {
    return guarded([&]() { St &st = state(); st.file.close(); return std::string(st.file.isOpen() ? "1" : "0"); });
}

// cr_h5count => ok <files> <groups> <datasets> <datatypes> <attributes>   (every open id of the process)
DRV_OP(cr_h5count) {
    auto n = [](unsigned t) { return std::to_string((long long) H5Fget_obj_count((hid_t) H5F_OBJ_ALL, t)); };
    return "ok " + n(H5F_OBJ_FILE) + " " + n(H5F_OBJ_GROUP) + " " + n(H5F_OBJ_DATASET) + " " + n(H5F_OBJ_DATATYPE) + " " + n(H5F_OBJ_ATTR);
}

DRV_OP(cr_use) {
    if (a.size() < 2) throw ProtoError("cr_use arity");
    Args inner(a.begin() + 1, a.end());
    auto it = registry().find(inner[0]);
    if (it == registry().end() || inner[0].compare(0, 3, "cr_") == 0) throw ProtoError("cr_use: op " + inner[0]);
    return it->second(inner);
}

// cr_held dim <i> interval|index|type  |  view <i> read|extent  |  file <i> isopen|blocks|id|flush|mk  |  copy <i> id
DRV_OP(cr_held) {
    if (a.size() != 4) throw ProtoError("cr_held arity");
    return guarded([&]() {
        Held &h = held();
        size_t i = tokNat(a[2]);
        const std::string &w = a[3];
        if (a[1] == "dim") {
            nix::Dimension &d = h.dims.at(i);
            if (w == "index") return std::to_string(d.index());
            if (w == "type") return std::to_string((int) d.dimensionType());
            if (w == "read") return dimTok(d);
            throw ProtoError("cr_held dim " + w);
        }
        if (a[1] == "view") {
            nix::DataView &v = h.views.at(i);
            if (w == "extent") { nix::NDSize e = v.dataExtent(); return std::to_string(e.size()); }
            if (w == "read") { std::vector<double> buf(v.dataExtent().nelms()); v.getData(nix::DataType::Double, buf.data(), v.dataExtent(), nix::NDSize(v.dataExtent().size(), 0)); return std::to_string(buf.size()); }
            if (w == "write") { std::vector<double> buf(v.dataExtent().nelms(), 1.0); v.setData(nix::DataType::Double, buf.data(), v.dataExtent(), nix::NDSize(v.dataExtent().size(), 0)); return std::string(); }
            throw ProtoError("cr_held view " + w);
        }
        if (a[1] == "file") {
            nix::File &f = h.files.at(i);
            if (w == "isopen") return std::string(f.isOpen() ? "1" : "0");
            if (w == "blocks") return std::to_string(f.blockCount());
            if (w == "id") return f.id();
            if (w == "flush") return std::string(f.flush() ? "1" : "0");
            if (w == "mk") { f.createBlock("through-a-closed-file", "t"); return std::string(); }
            if (w == "close") { f.close(); return std::string(); }
            throw ProtoError("cr_held file " + w);
        }
        if (a[1] == "file2") {
            nix::File &f = h.sessions.at(i);
            if (w == "close") { f.close(); return std::string(f.isOpen() ? "1" : "0"); }
            if (w == "isopen") return std::string(f.isOpen() ? "1" : "0");
            throw ProtoError("cr_held file2 " + w);
        }
        if (a[1] == "copy") {
            Ent &e = h.copies.at(i);
            switch (e.kind) {
            case 'B': return e.b.id(); case 'S': return e.s.id(); case 'O': return e.o.id(); case 'A': return e.a.id(); case 'D': return e.d.id();
            case 'T': return e.t.id(); case 'M': return e.m.id(); case 'G': return e.g.id(); case 'R': return e.r.id(); case 'P': return e.p.id();
            }
        }
        throw ProtoError("cr_held " + a[1]);
    });
}
