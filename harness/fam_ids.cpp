// ops of the `ids` family (C12): ids are well-formed, never change, never collide — also between processes started in the same second.
//
//   id_new <n>                 n ids straight from util::createId()
//   id_race exec|fork <K> <N>  K processes behind a barrier inside one wall-clock second; each seeds its generator there, creates a file
//                              of its own with N entities of mixed kinds, then — one after the other, under a file lock — a block and two
//                              arrays in one shared file.  exec: freshly started processes (this binary re-executed); fork: copies of
//                              this process (which has used the generator before if `id_new` ran earlier in the case).
//      => ok <K> <N> <ids reported> <distinct among them> <all seeded in the same second 0|1> <ids in the shared file> <distinct among them>
//   id_child <index> <N> <barrier ns> <dir>     what an exec'ed child runs (not for generators)
#include "common.hpp"
#include "store.hpp"
#include <hdf5.h>
#include <cstdio>
#include <ctime>
#include <fcntl.h>
#include <fstream>
#include <iostream>
#include <map>
#include <locale>
#include <set>
#include <sstream>
#include <sys/file.h>
#include <sys/stat.h>
#include <sys/resource.h>
#include <sys/wait.h>
#include <unistd.h>
#include <thread>
#include <mutex>
#include <atomic>

using namespace drv;

namespace {

void sleepUntil(long long ns) {
    struct timespec ts; ts.tv_sec = (time_t) (ns / 1000000000LL); ts.tv_nsec = (long) (ns % 1000000000LL);
    while (clock_nanosleep(CLOCK_REALTIME, TIMER_ABSTIME, &ts, nullptr) != 0) {}
}
long long nowNs() { struct timespec ts; clock_gettime(CLOCK_REALTIME, &ts); return (long long) ts.tv_sec * 1000000000LL + ts.tv_nsec; }

// the work of one racing process; writes "<second before> <second after>" and then one id per line
int childWork(size_t index, size_t n, long long barrier, const std::string &dir) {
    std::vector<std::string> ids;
    long long s0 = 0, s1 = 0;
    try {
        sleepUntil(barrier);
        s0 = (long long) time(nullptr);
        {
            // NIXDRV_ID_STARVE: the process cannot open a single file while it draws its first id (descriptors exhausted): whatever the
            // generator falls back on must still differ from process to process
            struct rlimit keep; bool starve = getenv("NIXDRV_ID_STARVE") != nullptr && getrlimit(RLIMIT_NOFILE, &keep) == 0;
            if (starve) { struct rlimit none = keep; none.rlim_cur = 0; setrlimit(RLIMIT_NOFILE, &none); }
            std::string first;
            try { first = nix::util::createId(); } catch (...) { if (starve) setrlimit(RLIMIT_NOFILE, &keep); throw; }
            if (starve) setrlimit(RLIMIT_NOFILE, &keep);
            ids.push_back(first);                          // the generator is seeded here at the latest
        }
        s1 = (long long) time(nullptr);
        std::string own = dir + "/race-" + std::to_string(index) + ".nix";
        {
            nix::File f = nix::File::open(own, nix::FileMode::Overwrite);
            ids.push_back(f.id());
            nix::Block b = f.createBlock("b", "t"); ids.push_back(b.id());
            nix::Section s = f.createSection("s", "t"); ids.push_back(s.id());
            nix::DataArray first = b.createDataArray("first", "t", nix::DataType::Double, nix::NDSize({2})); ids.push_back(first.id());
            nix::Tag tag = b.createTag("tag", "t", {1.0}); ids.push_back(tag.id());
            for (size_t i = 0; i < n; i++) {
                std::string nm = "e" + std::to_string(i);
                switch (i % 8) {
                case 0: ids.push_back(b.createDataArray(nm, "t", nix::DataType::Double, nix::NDSize({2})).id()); break;
                case 1: ids.push_back(s.createSection(nm, "t").id()); break;
                case 2: ids.push_back(s.createProperty(nm, nix::DataType::Double).id()); break;
                case 3: ids.push_back(b.createTag(nm, "t", {1.0}).id()); break;
                case 4: ids.push_back(b.createSource(nm, "t").id()); break;
                case 5: ids.push_back(b.createGroup(nm, "t").id()); break;
                case 6: ids.push_back(b.createMultiTag(nm, "t", first).id()); break;
                case 7: ids.push_back(tag.createFeature(first, nix::LinkType::Tagged).id()); break;
                }
            }
            f.close();
        }
        std::remove(own.c_str());
        // the shared file, in turn
        std::string lock = dir + "/race.lock", shared = dir + "/race-shared.nix";
        int lfd = open(lock.c_str(), O_CREAT | O_RDWR, 0644);
        if (lfd < 0) return 5;
        flock(lfd, LOCK_EX);
        {
            nix::File f = nix::File::open(shared, nix::FileMode::ReadWrite);
            nix::Block b = f.createBlock("p" + std::to_string(index), "t"); ids.push_back(b.id());
            ids.push_back(b.createDataArray("x", "t", nix::DataType::Double, nix::NDSize({2})).id());
            ids.push_back(b.createDataArray("y", "t", nix::DataType::Double, nix::NDSize({2})).id());
            f.close();
        }
        flock(lfd, LOCK_UN);
        close(lfd);
    } catch (const std::exception &e) {
        std::cerr << "nixdrv id child " << index << ": " << e.what() << std::endl;
        return 6;
    }
    std::ofstream o((dir + "/race-" + std::to_string(index) + ".ids").c_str());
    o << s0 << " " << s1 << "\n";
    for (auto &i : ids) o << i << "\n";
    o.close();
    return 0;
}

} // namespace

DRV_OP(id_new) {
    if (a.size() != 2) throw ProtoError("id_new arity");
    return guarded([&]() {
        std::vector<std::string> l;
        size_t n = tokNat(a[1]);
        for (size_t i = 0; i < n; i++) l.push_back(nix::util::createId());
        return listTok(l);
    });
}

// id_new_loc <n> => ok [ids]   the same with a global C++ locale installed that groups digits (as many national locales do): the text
// of an id does not depend on it
DRV_OP(id_new_loc) {
    if (a.size() != 2) throw ProtoError("id_new_loc arity");
    struct Grouping : std::numpunct<char> { char do_thousands_sep() const override { return ','; } std::string do_grouping() const override { return "\3"; } };
    std::locale before = std::locale::global(std::locale(std::locale::classic(), new Grouping));
    std::string r = guarded([&]() {
        std::vector<std::string> l;
        size_t n = tokNat(a[1]);
        for (size_t i = 0; i < n; i++) l.push_back(nix::util::createId());
        return listTok(l);
    });
    std::locale::global(before);
    return r;
}

// id_all => ok [<kind>:<parent id>:<name>:<created_at>=<id>,…]   every entity of the store family's open file with a key that tells
// entities apart without using the id itself (kind, id of the parent, name, creation time)
DRV_OP(id_all) {
    std::string d = registry()["dump"](Args{"dump"});
    if (d.compare(0, 3, "ok ") != 0) return d;
    // records: "E kind hex(path) id name type created fields…" separated by " | "
    std::vector<std::string> out;
    std::map<std::string, std::string> idAt;     // path -> id
    size_t pos = d.find(" | ");
    while (pos != std::string::npos) {
        size_t next = d.find(" | ", pos + 3);
        std::string rec = d.substr(pos + 3, next == std::string::npos ? std::string::npos : next - pos - 3);
        std::vector<std::string> t;
        { std::istringstream is(rec); std::string x; while (is >> x) t.push_back(x); }
        if (t.size() >= 7 && t[0] == "E" && t[3].size() == 36) {
            std::string path = unhexStr(t[2]);
            idAt[path] = t[3];
            size_t sl = path.rfind('/');
            std::string parent = sl == std::string::npos ? std::string("F") : idAt[path.substr(0, sl)];
            if (t[1] == "F") out.push_back("F:::=" + t[3]);
            else out.push_back(t[1] + ":" + parent + ":" + t[4] + ":" + t[6] + "=" + t[3]);
            // the features of a tag / multi-tag are not records of their own: feats=[<feature id>:<link type>:<array id>,…]; a feature
            // is told apart by its holder, its array, its link type and its rank among the features that share all three
            if (t[1] == "T" || t[1] == "M") {
                for (size_t k = 7; k < t.size(); k++) {
                    if (t[k].compare(0, 7, "feats=[") != 0) continue;
                    std::string body = t[k].substr(7, t[k].size() - 8);
                    // (only features that are the ONLY one of their holder with that array and link type: the others cannot be told apart
                    // without their ids; a feature whose array is gone is not listed either)
                    std::map<std::string, int> seen;
                    std::vector<std::pair<std::string, std::string>> entries;
                    size_t p0 = 0;
                    while (p0 < body.size()) {
                        size_t p1 = body.find(',', p0); if (p1 == std::string::npos) p1 = body.size();
                        std::string e = body.substr(p0, p1 - p0);
                        size_t c1 = e.find(':'), c2 = e.find(':', c1 + 1);
                        if (c1 != std::string::npos && c2 != std::string::npos && c1 == 36 && e.size() - c2 - 1 == 36) {
                            std::string what = e.substr(c1 + 1);       // link:array
                            seen[what]++;
                            entries.push_back({what, e.substr(0, 36)});
                        }
                        p0 = p1 + 1;
                    }
                    for (auto &en : entries) if (seen[en.first] == 1) out.push_back("R:" + t[3] + ":" + en.first + ":=" + en.second);
                }
            }
        }
        pos = next;
    }
    return "ok " + listTok(out);
}

// id_forceid => ok <new file id>      File::forceId on the store family's open file (the one call that may change an id)
DRV_OP(id_forceid) {
    return guarded([&]() { nix::File &f = drv::store::state().file; f.forceId(); return f.id(); });
}

DRV_OP(id_child) {
    if (a.size() != 5) throw ProtoError("id_child arity");
    int rc = childWork(tokNat(a[1]), tokNat(a[2]), (long long) tokInt(a[3]), a[4]);
    return rc == 0 ? "ok" : "err Harness" + std::to_string(rc);
}

// id_pool <K> <N> <barrier ns> <dir> : what the exec'ed coordinator of `id_race pool` runs — it forks K workers BEFORE it has created
// a single id itself (a pre-fork worker pool), the workers race as usual
DRV_OP(id_pool) {
    if (a.size() != 5) throw ProtoError("id_pool arity");
    size_t K = tokNat(a[1]), N = tokNat(a[2]);
    long long barrier = (long long) tokInt(a[3]);
    std::vector<pid_t> pids;
    for (size_t i = 0; i < K; i++) {
        pid_t pid = fork();
        if (pid < 0) return "err Harness8";
        if (pid == 0) _exit(childWork(i, N, barrier, a[4]));
        pids.push_back(pid);
    }
    bool allOk = true;
    for (pid_t p : pids) { int st = 0; waitpid(p, &st, 0); if (!WIFEXITED(st) || WEXITSTATUS(st) != 0) allOk = false; }
    return allOk ? "ok" : "err Harness9";
}

// the chain of `id_race tree`: process number `index` creates one id, forks process number index+1 (unless it is the last), and
// then races like every other; so generation g is a fork of a fork … of a process that has used the generator at every level
static int treeWork(size_t index, size_t K, size_t N, long long barrier, const std::string &dir) {
    (void) nix::util::createId();
    pid_t kid = -1;
    if (index + 1 < K) {
        kid = fork();
        if (kid < 0) return 8;
        if (kid == 0) _exit(treeWork(index + 1, K, N, barrier, dir));
    }
    int rc = childWork(index, N, barrier, dir);
    if (kid > 0) { int st = 0; waitpid(kid, &st, 0); if (!WIFEXITED(st) || WEXITSTATUS(st) != 0) rc = rc ? rc : 9; }
    return rc;
}

// id_threads <K> <N> => ok <total> <distinct>   K threads of ONE process draw N ids each at the same time (started together, spinning on
// a flag); run in a forked child so that a crash of a racing generator is an answer (`err crashed`) and not the end of the harness
DRV_OP(id_threads) {
    if (a.size() != 3) throw ProtoError("id_threads arity");
    size_t K = tokNat(a[1]), N = tokNat(a[2]);
    int fd[2];
    if (pipe(fd) != 0) throw ProtoError("pipe");
    std::cout.flush(); fflush(stdout); fflush(stderr);
    pid_t pid = fork();
    if (pid < 0) throw ProtoError("fork");
    if (pid == 0) {
        close(fd[0]);
        std::vector<std::vector<std::string>> got(K);
        std::atomic<bool> go(false);
        std::vector<std::thread> th;
        for (size_t k = 0; k < K; k++) th.emplace_back([&, k]() {
            while (!go.load()) {}
            got[k].reserve(N);
            for (size_t i = 0; i < N; i++) got[k].push_back(nix::util::createId());
        });
        go.store(true);
        for (auto &t : th) t.join();
        std::set<std::string> all; size_t total = 0;
        for (auto &g : got) for (auto &x : g) { all.insert(x); total++; }
        std::string r = std::to_string(total) + " " + std::to_string(all.size()) + "\n";
        ssize_t w = write(fd[1], r.data(), r.size()); (void) w;
        _exit(0);
    }
    close(fd[1]);
    std::string buf; char c;
    while (read(fd[0], &c, 1) == 1 && c != '\n') buf.push_back(c);
    close(fd[0]);
    int st = 0; waitpid(pid, &st, 0);
    if (!WIFEXITED(st) || WEXITSTATUS(st) != 0 || buf.empty()) return "err crashed";
    return "ok " + buf;
}

DRV_OP(id_race) {
    if (a.size() != 4) throw ProtoError("id_race arity");
    // execs = exec with NIXDRV_ID_STARVE set for the children
    const bool starved = a[1] == "execs";
    const bool useExec = a[1] == "exec" || starved, pool = a[1] == "pool", tree = a[1] == "tree";
    if (!useExec && !pool && !tree && a[1] != "fork") throw ProtoError("id_race mode");
    size_t K = tokNat(a[2]), N = tokNat(a[3]);
    std::string dir = scratch("race");
    mkdir(dir.c_str(), 0755);
    std::string shared = dir + "/race-shared.nix";
    std::remove(shared.c_str());
    { nix::File f = nix::File::open(shared, nix::FileMode::Overwrite); f.close(); }
    // the barrier: 0.25 s into a second that is at least 0.6 s away (time to start K processes)
    long long now = nowNs();
    long long sec = now / 1000000000LL + 1;
    if (sec * 1000000000LL + 250000000LL - now < 600000000LL) sec += 1;
    long long barrier = sec * 1000000000LL + 250000000LL;
    std::cout.flush(); fflush(stdout); fflush(stderr);
    std::vector<pid_t> pids;
    if (pool || tree) {
        // one child: the coordinator of the pool (a freshly started process) or the first generation of the tree (a fork)
        std::string ops = dir + "/child-pool.ops";
        if (pool) { std::ofstream o(ops.c_str()); o << "id_pool " << K << " " << N << " " << barrier << " " << dir << "\n"; }
        pid_t pid = fork();
        if (pid < 0) throw ProtoError("fork");
        if (pid == 0) {
            if (pool) {
                int dn = open("/dev/null", O_WRONLY);
                if (dn >= 0) dup2(dn, 1);
                execl("/proc/self/exe", "nixdrv", ops.c_str(), dir.c_str(), (char *) nullptr);
                _exit(7);
            }
            _exit(treeWork(0, K, N, barrier, dir));
        }
        pids.push_back(pid);
    }
    for (size_t i = 0; i < K && !pool && !tree; i++) {
        std::string ops = dir + "/child-" + std::to_string(i) + ".ops";
        if (useExec) { std::ofstream o(ops.c_str()); o << "id_child " << i << " " << N << " " << barrier << " " << dir << "\n"; }
        pid_t pid = fork();
        if (pid < 0) throw ProtoError("fork");
        if (pid == 0) {
            if (useExec) {
                int dn = open("/dev/null", O_WRONLY);
                if (dn >= 0) dup2(dn, 1);
                if (starved) setenv("NIXDRV_ID_STARVE", "1", 1);
                execl("/proc/self/exe", "nixdrv", ops.c_str(), dir.c_str(), (char *) nullptr);
                _exit(7);
            }
            _exit(childWork(i, N, barrier, dir));
        }
        pids.push_back(pid);
    }
    bool allOk = true;
    for (pid_t p : pids) { int st = 0; waitpid(p, &st, 0); if (!WIFEXITED(st) || WEXITSTATUS(st) != 0) allOk = false; }
    if (!allOk) return "err ChildFailed";
    std::vector<std::string> all;
    bool sameSecond = true;
    for (size_t i = 0; i < K; i++) {
        std::string p = dir + "/race-" + std::to_string(i) + ".ids";
        std::ifstream in(p.c_str());
        long long s0 = 0, s1 = 0;
        if (!(in >> s0 >> s1)) return "err ChildOutput";
        if (s0 != sec || s1 != sec) sameSecond = false;
        std::string id;
        while (in >> id) all.push_back(id);
        in.close();
        std::remove(p.c_str());
        std::remove((dir + "/child-" + std::to_string(i) + ".ops").c_str());
    }
    std::remove((dir + "/child-pool.ops").c_str());
    std::set<std::string> uniq(all.begin(), all.end());
    // the shared file as a reader sees it
    std::vector<std::string> sh;
    std::string r = guarded([&]() {
        nix::File f = nix::File::open(shared, nix::FileMode::ReadOnly);
        sh.push_back(f.id());
        for (auto &b : f.blocks()) { sh.push_back(b.id()); for (auto &d : b.dataArrays()) sh.push_back(d.id()); }
        f.close();
        return std::string();
    });
    std::remove(shared.c_str());
    std::remove((dir + "/race.lock").c_str());
    rmdir(dir.c_str());
    if (r.compare(0, 2, "ok") != 0) return r;
    std::set<std::string> shu(sh.begin(), sh.end());
    return "ok " + std::to_string(K) + " " + std::to_string(N) + " " + std::to_string(all.size()) + " " + std::to_string(uniq.size()) + " " +
           (sameSecond ? "1" : "0") + " " + std::to_string(sh.size()) + " " + std::to_string(shu.size());
}
