// ops of the `index` family (C07): position -> index conversion through real dimension objects
#include "common.hpp"
#include <cstdio>

using namespace drv;

namespace {
struct St {
    nix::File file;
    nix::Block block;
    nix::Dimension dim;        // KEPT for the whole case: every conversion goes through this one handle
    nix::DataArray arr;        // the array it belongs to
    bool alias = false;
    int n = 0;
    std::string path;
} st;

void ensureFile() {
    if (st.file) return;
    st.path = scratch("index.nix");
    st.file = nix::File::open(st.path, nix::FileMode::Overwrite);
    st.block = st.file.createBlock("b", "t");
    st.n = 0;
}
void resetAll() {
    st.dim = nix::Dimension(); st.arr = nix::DataArray(); st.alias = false;
    st.block = nix::Block();
    if (st.file) { st.file.close(); st.file = nix::File(); std::remove(st.path.c_str()); }
}
struct Init { Init() { resetHooks().push_back(resetAll); } } init;

nix::DataArray freshArray() {
    ensureFile();
    return st.block.createDataArray("a" + std::to_string(st.n++), "t", nix::DataType::Double, nix::NDSize({4}));
}

nix::PositionMatch pm(const std::string &t) {
    if (t == "EQ") return nix::PositionMatch::Equal;
    if (t == "L") return nix::PositionMatch::Less;
    if (t == "G") return nix::PositionMatch::Greater;
    if (t == "GE") return nix::PositionMatch::GreaterOrEqual;
    if (t == "LE") return nix::PositionMatch::LessOrEqual;
    throw ProtoError("bad PositionMatch " + t);
}
nix::RangeMatch rm(const std::string &t) {
    if (t == "incl") return nix::RangeMatch::Inclusive;
    if (t == "excl") return nix::RangeMatch::Exclusive;
    throw ProtoError("bad RangeMatch " + t);
}
std::string optIdx(const boost::optional<nix::ndsize_t> &o) { return o ? std::to_string(*o) : std::string("~"); }
std::string optPair(const boost::optional<std::pair<nix::ndsize_t, nix::ndsize_t>> &o) {
    return o ? std::to_string(o->first) + ":" + std::to_string(o->second) : std::string("~");
}
}

// axis_sampled <si> <offset|~> <unit|~>
DRV_OP(axis_sampled) {
    if (a.size() != 4) throw ProtoError("axis_sampled arity");
    return guarded([&]() {
        nix::DataArray da = freshArray();
        nix::SampledDimension d = da.appendSampledDimension(tokF64(a[1]));
        if (a[2] != "~") d.offset(tokF64(a[2]));
        if (a[3] != "~") d.unit(unhexStr(a[3]));
        st.dim = da.getDimension(1);
        return std::string();
    });
}
// axis_range [ticks] <unit|~>
DRV_OP(axis_range) {
    if (a.size() != 3) throw ProtoError("axis_range arity");
    return guarded([&]() {
        nix::DataArray da = freshArray();
        std::vector<double> t;
        for (auto &x : tokList(a[1])) t.push_back(tokF64(x));
        nix::RangeDimension d = da.appendRangeDimension(t);
        if (a[2] != "~") d.unit(unhexStr(a[2]));
        st.dim = da.getDimension(1); st.arr = da; st.alias = false;
        (void) st.dim.asRangeDimension().ticks();        // asked once: a handle that remembers has something to remember
        return std::string();
    });
}
// axis_alias [ticks] : an array whose data are the ticks, described by an alias range dimension
DRV_OP(axis_alias) {
    if (a.size() != 2) throw ProtoError("axis_alias arity");
    return guarded([&]() {
        ensureFile();
        std::vector<double> t;
        for (auto &x : tokList(a[1])) t.push_back(tokF64(x));
        nix::DataArray da = st.block.createDataArray("a" + std::to_string(st.n++), "t", nix::DataType::Double, nix::NDSize({t.size()}));
        da.setData(t);
        da.appendAliasRangeDimension();
        st.dim = da.getDimension(1); st.arr = da; st.alias = true;
        (void) st.dim.asRangeDimension().ticks();
        return std::string();
    });
}
// axis_reticks [ticks] : the ticks of the current range axis are replaced by ANOTHER route than the kept handle — a second handle of
// the dimension, or (alias) the data of the array; the kept handle is not told
DRV_OP(axis_reticks) {
    if (a.size() != 2) throw ProtoError("axis_reticks arity");
    return guarded([&]() {
        std::vector<double> t;
        for (auto &x : tokList(a[1])) t.push_back(tokF64(x));
        if (st.alias) st.arr.setData(t);
        else st.arr.getDimension(1).asRangeDimension().ticks(t);
        return std::string();
    });
}
// axis_set <nlabels>
DRV_OP(axis_set) {
    if (a.size() != 2) throw ProtoError("axis_set arity");
    return guarded([&]() {
        nix::DataArray da = freshArray();
        std::vector<std::string> l;
        for (unsigned long long i = 0; i < tokNat(a[1]); i++) l.push_back("l" + std::to_string(i));
        da.appendSetDimension(l);
        st.dim = da.getDimension(1);
        return std::string();
    });
}
// axis_df <nrows>
DRV_OP(axis_df) {
    if (a.size() != 2) throw ProtoError("axis_df arity");
    return guarded([&]() {
        nix::DataArray da = freshArray();
        std::vector<nix::Column> cols = {{"c", "", nix::DataType::Double}};
        nix::DataFrame df = st.block.createDataFrame("f" + std::to_string(st.n++), "t", cols);
        df.rows(tokNat(a[1]));
        da.appendDataFrameDimension(df, 0);
        st.dim = da.getDimension(1);
        return std::string();
    });
}

// idx <p> <match> => ok <i|~>         (typed dimension object: Dimension::indexOf of the concrete class)
DRV_OP(idx) {
    if (a.size() != 3) throw ProtoError("idx arity");
    return guarded([&]() {
        double p = tokF64(a[1]);
        nix::PositionMatch m = pm(a[2]);
        switch (st.dim.dimensionType()) {
        case nix::DimensionType::Sample: return optIdx(st.dim.asSampledDimension().indexOf(p, m));
        case nix::DimensionType::Range: return optIdx(st.dim.asRangeDimension().indexOf(p, m));
        case nix::DimensionType::Set: return optIdx(st.dim.asSetDimension().indexOf(p, m));
        case nix::DimensionType::DataFrame: return optIdx(st.dim.asDataFrameDimension().indexOf(p, m));
        }
        throw ProtoError("no axis");
    });
}
// idxu <p> <unit> <match> => ok <i|~>   (util::positionToIndex on the generic Dimension, with unit scaling)
DRV_OP(idxu) {
    if (a.size() != 4) throw ProtoError("idxu arity");
    return guarded([&]() {
        double p = tokF64(a[1]);
        std::string u = unhexStr(a[2]);
        nix::PositionMatch m = pm(a[3]);
        switch (st.dim.dimensionType()) {
        case nix::DimensionType::Sample: return optIdx(nix::util::positionToIndex(p, u, m, st.dim.asSampledDimension()));
        case nix::DimensionType::Range: return optIdx(nix::util::positionToIndex(p, u, m, st.dim.asRangeDimension()));
        case nix::DimensionType::Set: return optIdx(nix::util::positionToIndex(p, m, st.dim.asSetDimension()));
        case nix::DimensionType::DataFrame: return optIdx(nix::util::positionToIndex(p, m, st.dim.asDataFrameDimension()));
        }
        throw ProtoError("no axis");
    });
}
// pair <s> <e> <rangematch> => ok <i:j|~>
DRV_OP(pair) {
    if (a.size() != 4) throw ProtoError("pair arity");
    return guarded([&]() {
        double s = tokF64(a[1]), e = tokF64(a[2]);
        nix::RangeMatch m = rm(a[3]);
        switch (st.dim.dimensionType()) {
        case nix::DimensionType::Sample: return optPair(st.dim.asSampledDimension().indexOf(s, e, m));
        case nix::DimensionType::Range: return optPair(st.dim.asRangeDimension().indexOf(s, e, {}, m));
        case nix::DimensionType::Set: return optPair(st.dim.asSetDimension().indexOf(s, e, m));
        case nix::DimensionType::DataFrame: return optPair(st.dim.asDataFrameDimension().indexOf(s, e, m));
        }
        throw ProtoError("no axis");
    });
}
// pairv [s..] [e..] <rangematch> => ok [i:j,~,...]     (vector overloads)
DRV_OP(pairv) {
    if (a.size() != 4) throw ProtoError("pairv arity");
    return guarded([&]() {
        std::vector<double> s, e;
        for (auto &x : tokList(a[1])) s.push_back(tokF64(x));
        for (auto &x : tokList(a[2])) e.push_back(tokF64(x));
        nix::RangeMatch m = rm(a[3]);
        std::vector<boost::optional<std::pair<nix::ndsize_t, nix::ndsize_t>>> r;
        switch (st.dim.dimensionType()) {
        case nix::DimensionType::Sample: r = st.dim.asSampledDimension().indexOf(s, e, m); break;
        case nix::DimensionType::Range: r = st.dim.asRangeDimension().indexOf(s, e, m); break;
        case nix::DimensionType::Set: r = st.dim.asSetDimension().indexOf(s, e, m); break;
        case nix::DimensionType::DataFrame: r = st.dim.asDataFrameDimension().indexOf(s, e, m); break;
        }
        std::vector<std::string> out;
        for (auto &o : r) out.push_back(optPair(o));
        return listTok(out);
    });
}
// pairu [s..] [e..] [units] <rangematch> => ok [...]   (util::positionToIndex, generic Dimension)
DRV_OP(pairu) {
    if (a.size() != 5) throw ProtoError("pairu arity");
    return guarded([&]() {
        std::vector<double> s, e;
        std::vector<std::string> u;
        for (auto &x : tokList(a[1])) s.push_back(tokF64(x));
        for (auto &x : tokList(a[2])) e.push_back(tokF64(x));
        for (auto &x : tokList(a[3])) u.push_back(unhexStr(x));
        std::vector<boost::optional<std::pair<nix::ndsize_t, nix::ndsize_t>>> r;
        nix::RangeMatch m = rm(a[4]);
        switch (st.dim.dimensionType()) {
        case nix::DimensionType::Sample: r = nix::util::positionToIndex(s, e, u, m, st.dim.asSampledDimension()); break;
        case nix::DimensionType::Range: r = nix::util::positionToIndex(s, e, u, m, st.dim.asRangeDimension()); break;
        case nix::DimensionType::Set: r = nix::util::positionToIndex(s, e, m, st.dim.asSetDimension()); break;
        case nix::DimensionType::DataFrame: r = nix::util::positionToIndex(s, e, m, st.dim.asDataFrameDimension()); break;
        }
        std::vector<std::string> out;
        for (auto &o : r) out.push_back(optPair(o));
        return listTok(out);
    });
}
// posat <i> => ok <double>     (positionAt / tickAt / the integer itself for set and data-frame axes)
DRV_OP(posat) {
    if (a.size() != 2) throw ProtoError("posat arity");
    return guarded([&]() {
        nix::ndsize_t i = tokNat(a[1]);
        switch (st.dim.dimensionType()) {
        case nix::DimensionType::Sample: return f64Tok(st.dim.asSampledDimension().positionAt(i));
        case nix::DimensionType::Range: return f64Tok(st.dim.asRangeDimension().tickAt(i));
        default: return f64Tok(static_cast<double>(i));
        }
    });
}
// axisv <count> <start> => ok [doubles]   (SampledDimension::axis / RangeDimension::axis)
DRV_OP(axisv) {
    if (a.size() != 3) throw ProtoError("axisv arity");
    return guarded([&]() {
        std::vector<double> v;
        switch (st.dim.dimensionType()) {
        case nix::DimensionType::Sample: v = st.dim.asSampledDimension().axis(tokNat(a[1]), tokNat(a[2])); break;
        case nix::DimensionType::Range: v = st.dim.asRangeDimension().axis(tokNat(a[1]), tokNat(a[2])); break;
        default: throw ProtoError("axisv on set/df");
        }
        std::vector<std::string> out;
        for (double d : v) out.push_back(f64Tok(d));
        return listTok(out);
    });
}

// axisrt <count> <start> => ok [i|~,…]   the axis getter's coordinates converted back with the rule Equal: coordinate k of
// axis(count, start) is the coordinate of sample start+k
DRV_OP(axisrt) {
    if (a.size() != 3) throw ProtoError("axisrt arity");
    return guarded([&]() {
        std::vector<std::string> out;
        switch (st.dim.dimensionType()) {
        case nix::DimensionType::Sample: { nix::SampledDimension d = st.dim.asSampledDimension();
            for (double v : d.axis(tokNat(a[1]), tokNat(a[2]))) out.push_back(optIdx(d.indexOf(v, nix::PositionMatch::Equal))); break; }
        case nix::DimensionType::Range: { nix::RangeDimension d = st.dim.asRangeDimension();
            for (double v : d.axis(tokNat(a[1]), tokNat(a[2]))) out.push_back(optIdx(d.indexOf(v, nix::PositionMatch::Equal))); break; }
        default: throw ProtoError("axisrt on set/df");
        }
        return listTok(out);
    });
}
