// ops of the `search` family (C20): tree searches and back-reference queries on the entities held in the slots of the
// store family.  Every op is read-only and answers with the ordered id list the library returned.
//
//   sr_findsec   <start: $F | section slot | $->  <fkind> <farg> <depth: n | def>      => ok [ids]
//   sr_findsrc   <start: block slot | source slot | $-B | $-O>  <fkind> <farg> <depth>   => ok [ids]
//   sr_related   <section slot | $->  <fkind> <farg>                                    => ok [ids]
//   sr_referring <secA|secT|secM|secO|secB|srcA|srcT|srcM> <slot> <block: ~ | block slot | $->  => ok [ids]
//   sr_parentsrc <source slot>                                                          => ok <id|~>
//   sr_inherited <section slot>                                                         => ok [property ids]
//   sr_mkalias   <new slot> <parent: block or source slot> <slot> <type xHEX>            => ok <id> <created_at>
//                (not read-only) creates a source whose NAME is the id of the entity in <slot>: the generator cannot know
//                ids, and names that are ids are the adversarial input of the lookups by name-or-id
//
// filters:  all ~        the overload / default argument without a filter
//           acc ~        util::AcceptAll<T>()
//           id  <$slot | xHEX>            util::IdFilter<T>
//           ids [<$slot | xHEX>,…]        util::IdsFilter<T>
//           name xHEX                     util::NameFilter<T>
//           type xHEX                     util::TypeFilter<T>   (patterns without regex metacharacters)
//           nt  xHEXNAME:xHEXTYPE         a client lambda: name and type both equal
#include "common.hpp"
#include "store.hpp"

using namespace drv;
using namespace drv::store;

namespace {

const size_t NO_DEPTH = static_cast<size_t>(-1);

std::string strOrIdOf(const std::string &tok) {
    if (!tok.empty() && tok[0] == '$') {
        Ent &e = slot(tok);
        switch (e.kind) {
        case 'B': return e.b.id(); case 'S': return e.s.id(); case 'O': return e.o.id(); case 'A': return e.a.id();
        case 'D': return e.d.id(); case 'T': return e.t.id(); case 'M': return e.m.id(); case 'G': return e.g.id();
        case 'P': return e.p.id(); case 'R': return e.r.id();
        }
        throw ProtoError("strOrIdOf kind");
    }
    return unhexStr(tok);
}

template<typename T>
typename nix::util::Filter<T>::type mkFilter(const std::string &kind, const std::string &arg) {
    if (kind == "acc") return nix::util::AcceptAll<T>();
    if (kind == "id") return nix::util::IdFilter<T>(strOrIdOf(arg));
    if (kind == "ids") {
        std::vector<std::string> v;
        for (auto &t : tokList(arg)) v.push_back(strOrIdOf(t));
        return nix::util::IdsFilter<T>(v);
    }
    if (kind == "name") return nix::util::NameFilter<T>(unhexStr(arg));
    if (kind == "type") return nix::util::TypeFilter<T>(unhexStr(arg));
    if (kind == "nt") {
        size_t p = arg.find(':');
        if (p == std::string::npos) throw ProtoError("nt filter " + arg);
        std::string n = unhexStr(arg.substr(0, p)), t = unhexStr(arg.substr(p + 1));
        return [n, t](const T &e) { return e.name() == n && e.type() == t; };
    }
    throw ProtoError("filter kind " + kind);
}

size_t depthOf(const std::string &tok) { return tok == "def" ? NO_DEPTH : (size_t) tokNat(tok); }

template<typename V> std::string idList(const V &v) {
    std::vector<std::string> l;
    for (auto &e : v) l.push_back(e.id());
    return listTok(l);
}

} // namespace

DRV_OP(sr_findsec) {
    if (a.size() != 5) throw ProtoError("sr_findsec arity");
    return guarded([&]() {
        const std::string &start = a[1], &fk = a[2], &fa = a[3];
        size_t d = depthOf(a[4]);
        std::vector<nix::Section> r;
        if (start == "$F") {
            nix::File &f = state().file;
            if (fk == "all") r = d == NO_DEPTH ? f.findSections() : f.findSections(d);
            else { auto flt = mkFilter<nix::Section>(fk, fa); r = d == NO_DEPTH ? f.findSections(flt) : f.findSections(flt, d); }
        } else {
            nix::Section s = start == "$-" ? nix::Section() : slot(start).s;
            if (fk == "all") r = d == NO_DEPTH ? s.findSections() : s.findSections(nix::util::AcceptAll<nix::Section>(), d);
            else { auto flt = mkFilter<nix::Section>(fk, fa); r = d == NO_DEPTH ? s.findSections(flt) : s.findSections(flt, d); }
        }
        return idList(r);
    });
}

DRV_OP(sr_findsrc) {
    if (a.size() != 5) throw ProtoError("sr_findsrc arity");
    return guarded([&]() {
        const std::string &start = a[1], &fk = a[2], &fa = a[3];
        size_t d = depthOf(a[4]);
        std::vector<nix::Source> r;
        bool isBlock = start == "$-B" || (start != "$-O" && slot(start).kind == 'B');
        if (isBlock) {
            nix::Block b = start == "$-B" ? nix::Block() : slot(start).b;
            if (fk == "all") r = d == NO_DEPTH ? b.findSources() : b.findSources(nix::util::AcceptAll<nix::Source>(), d);
            else { auto flt = mkFilter<nix::Source>(fk, fa); r = d == NO_DEPTH ? b.findSources(flt) : b.findSources(flt, d); }
        } else {
            nix::Source s = start == "$-O" ? nix::Source() : slot(start).o;
            if (fk == "all") r = d == NO_DEPTH ? s.findSources() : s.findSources(nix::util::AcceptAll<nix::Source>(), d);
            else { auto flt = mkFilter<nix::Source>(fk, fa); r = d == NO_DEPTH ? s.findSources(flt) : s.findSources(flt, d); }
        }
        return idList(r);
    });
}

DRV_OP(sr_related) {
    if (a.size() != 4) throw ProtoError("sr_related arity");
    return guarded([&]() {
        nix::Section s = a[1] == "$-" ? nix::Section() : slot(a[1]).s;
        std::vector<nix::Section> r = a[2] == "all" ? s.findRelated() : s.findRelated(mkFilter<nix::Section>(a[2], a[3]));
        return idList(r);
    });
}

DRV_OP(sr_referring) {
    if (a.size() != 4) throw ProtoError("sr_referring arity");
    return guarded([&]() {
        const std::string &k = a[1], &bl = a[3];
        bool withBlock = bl != "~";
        nix::Block b = (withBlock && bl != "$-") ? slot(bl).b : nix::Block();
        if (k.compare(0, 3, "sec") == 0) {
            nix::Section s = a[2] == "$-" ? nix::Section() : slot(a[2]).s;
            if (k == "secA") return idList(withBlock ? s.referringDataArrays(b) : s.referringDataArrays());
            if (k == "secT") return idList(withBlock ? s.referringTags(b) : s.referringTags());
            if (k == "secM") return idList(withBlock ? s.referringMultiTags(b) : s.referringMultiTags());
            if (k == "secO") return idList(withBlock ? s.referringSources(b) : s.referringSources());
            if (k == "secB") { if (withBlock) throw ProtoError("secB takes no block"); return idList(s.referringBlocks()); }
        } else {
            if (withBlock) throw ProtoError("source back references take no block");
            nix::Source s = a[2] == "$-" ? nix::Source() : slot(a[2]).o;
            if (k == "srcA") return idList(s.referringDataArrays());
            if (k == "srcT") return idList(s.referringTags());
            if (k == "srcM") return idList(s.referringMultiTags());
        }
        throw ProtoError("sr_referring kind " + k);
    });
}

DRV_OP(sr_parentsrc) {
    if (a.size() != 2) throw ProtoError("sr_parentsrc arity");
    return guarded([&]() {
        nix::Source s = a[1] == "$-" ? nix::Source() : slot(a[1]).o;
        nix::Source p = s.parentSource();
        return p ? p.id() : std::string("~");
    });
}

DRV_OP(sr_inherited) {
    if (a.size() != 2) throw ProtoError("sr_inherited arity");
    return guarded([&]() {
        nix::Section s = a[1] == "$-" ? nix::Section() : slot(a[1]).s;
        return idList(s.inheritedProperties());
    });
}

DRV_OP(sr_mkalias) {
    if (a.size() != 5) throw ProtoError("sr_mkalias arity");
    return guarded([&]() {
        Ent &p = slot(a[2]);
        std::string name = strOrIdOf(a[3]), type = unhexStr(a[4]);
        Ent e; e.kind = 'O';
        e.o = p.kind == 'B' ? p.b.createSource(name, type) : p.o.createSource(name, type);
        std::string r = e.o.id() + " " + std::to_string((long long) e.o.createdAt());
        state().slots[a[1]] = e;
        return r;
    });
}
