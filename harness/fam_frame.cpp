// ops of the `frame` family (C15 DataFrame cells): one file, one block, one data frame "df".
// Typed values travel as `<Type>:<token>` (Bool 0/1, integers decimal, Double d<16 hex>, String x<hex>, Nothing:0).
// A column reference <ref> is `n<x-hex name>` (by name) or `i<index>` (by index).
#include "common.hpp"
#include <algorithm>
#include <cstdio>

using namespace drv;

namespace {
struct St {
    nix::File file;
    nix::Block block;
    nix::DataFrame h[2];      // two long-lived handles of the one frame (separate backend objects)
    unsigned muts = 0; int lastMut = 0;
    std::string path;
} st;

// Two handles of one frame must be indistinguishable (nothing may be cached in a handle): changes go mostly through h[0],
// every third through h[1]; reads go through the handle that did not make the last change.
nix::DataFrame &wrH() { st.lastMut = (st.muts++ % 3 == 2) ? 1 : 0; return st.h[st.lastMut]; }
nix::DataFrame &rdH() { return st.h[1 - st.lastMut]; }

void resetAll() {
    st.h[0] = nix::DataFrame(); st.h[1] = nix::DataFrame(); st.muts = 0; st.lastMut = 0;
    st.block = nix::Block();
    if (st.file) { st.file.close(); st.file = nix::File(); }
    if (!st.path.empty()) std::remove(st.path.c_str());
    st.path.clear();
}
struct Init { Init() { resetHooks().push_back(resetAll); } } init;

nix::DataType dtOf(const std::string &t) {
    if (t == "Bool") return nix::DataType::Bool;
    if (t == "Int8") return nix::DataType::Int8;
    if (t == "Int16") return nix::DataType::Int16;
    if (t == "Int32") return nix::DataType::Int32;
    if (t == "Int64") return nix::DataType::Int64;
    if (t == "UInt8") return nix::DataType::UInt8;
    if (t == "UInt16") return nix::DataType::UInt16;
    if (t == "UInt32") return nix::DataType::UInt32;
    if (t == "UInt64") return nix::DataType::UInt64;
    if (t == "Float") return nix::DataType::Float;
    if (t == "Double") return nix::DataType::Double;
    if (t == "String") return nix::DataType::String;
    if (t == "Char") return nix::DataType::Char;
    if (t == "Opaque") return nix::DataType::Opaque;
    if (t == "Nothing") return nix::DataType::Nothing;
    throw ProtoError("bad dtype " + t);
}
nix::Variant variantOf(const std::string &tok) {
    size_t p = tok.find(':');
    if (p == std::string::npos) throw ProtoError("bad typed value " + tok);
    std::string t = tok.substr(0, p), v = tok.substr(p + 1);
    if (t == "Bool") return nix::Variant(v != "0");
    if (t == "Int32") return nix::Variant((int32_t) tokInt(v));
    if (t == "UInt32") return nix::Variant((uint32_t) tokNat(v));
    if (t == "Int64") return nix::Variant((int64_t) tokInt(v));
    if (t == "UInt64") return nix::Variant((uint64_t) tokNat(v));
    if (t == "Double") return nix::Variant(tokF64(v));
    if (t == "String") return nix::Variant(unhexStr(v));
    if (t == "Nothing") return nix::Variant();
    throw ProtoError("bad value type " + t);
}
std::string variantTok(const nix::Variant &v) {
    std::string t = nix::data_type_to_string(v.type()) + ":";
    switch (v.type()) {
    case nix::DataType::Bool: return t + (v.get<bool>() ? "1" : "0");
    case nix::DataType::Int32: return t + std::to_string(v.get<int32_t>());
    case nix::DataType::UInt32: return t + std::to_string(v.get<uint32_t>());
    case nix::DataType::Int64: return t + std::to_string((long long) v.get<int64_t>());
    case nix::DataType::UInt64: return t + std::to_string((unsigned long long) v.get<uint64_t>());
    case nix::DataType::Double: return t + f64Tok(v.get<double>());
    case nix::DataType::String: return t + hexStr(v.get<std::string>());
    default: return t + "0";
    }
}
struct ColRef { bool byName; std::string name; unsigned idx; };
ColRef refOf(const std::string &t) {
    if (t.size() < 2) throw ProtoError("bad column reference " + t);
    ColRef r;
    if (t[0] == 'n') { r.byName = true; r.name = unhexStr(t.substr(1)); r.idx = 0; }
    else if (t[0] == 'i') { r.byName = false; r.idx = (unsigned) tokNat(t.substr(1)); }
    else throw ProtoError("bad column reference " + t);
    return r;
}

template<typename T> struct Elem;
#define ELEM(T, FROM, TO) template<> struct Elem<T> { \
    static T from(const std::string &t) { return FROM; } \
    static std::string to(const T &v) { return TO; } };
ELEM(int32_t, (int32_t) tokInt(t), std::to_string(v))
ELEM(uint32_t, (uint32_t) tokNat(t), std::to_string(v))
ELEM(int64_t, (int64_t) tokInt(t), std::to_string((long long) v))
ELEM(uint64_t, (uint64_t) tokNat(t), std::to_string((unsigned long long) v))
ELEM(double, tokF64(t), f64Tok(v))
ELEM(std::string, unhexStr(t), hexStr(v))
template<typename T> T sentinel();
template<> int32_t sentinel<int32_t>() { return 7; }
template<> uint32_t sentinel<uint32_t>() { return 7; }
template<> int64_t sentinel<int64_t>() { return 7; }
template<> uint64_t sentinel<uint64_t>() { return 7; }
template<> double sentinel<double>() { return 7.0; }
template<> std::string sentinel<std::string>() { return "~"; }

template<typename F> std::string withElem(const std::string &t, F f) {
    if (t == "Int32") return f.template run<int32_t>();
    if (t == "UInt32") return f.template run<uint32_t>();
    if (t == "Int64") return f.template run<int64_t>();
    if (t == "UInt64") return f.template run<uint64_t>();
    if (t == "Double") return f.template run<double>();
    if (t == "String") return f.template run<std::string>();
    throw ProtoError("column access with element type " + t);
}
struct ColWriter {
    ColRef ref; const std::vector<std::string> *vals; nix::ndsize_t off, count;
    template<typename T> std::string run() {
        std::vector<T> v;
        for (auto &x : *vals) v.push_back(Elem<T>::from(x));
        if (ref.byName) wrH().writeColumn(ref.name, v, off, count); else wrH().writeColumn(ref.idx, v, off, count);
        return "";
    }
};
struct ColReader {
    ColRef ref; size_t k; bool withCount; size_t count; bool resize; nix::ndsize_t off;
    template<typename T> std::string run() {
        std::vector<T> v(k, sentinel<T>());
        if (withCount) { if (ref.byName) rdH().readColumn(ref.name, v, count, resize, off); else rdH().readColumn(ref.idx, v, count, resize, off); }
        else { if (ref.byName) rdH().readColumn(ref.name, v, resize, off); else rdH().readColumn(ref.idx, v, resize, off); }
        std::vector<std::string> out;
        for (auto &x : v) out.push_back(Elem<T>::to(x));
        return listTok(out);
    }
};
std::string colsTok(const std::vector<nix::Column> &cols) {
    std::vector<std::string> l;
    for (auto &c : cols) l.push_back(hexStr(c.name) + ":" + hexStr(c.unit) + ":" + nix::data_type_to_string(c.dtype));
    return listTok(l);
}
}

// df_new [name:unit:Type,…] : a fresh file with one block and the frame "df"
DRV_OP(df_new) {
    if (a.size() != 2) throw ProtoError("df_new arity");
    return guarded([&]() {
        resetAll();
        st.path = scratch("frame.nix");
        st.file = nix::File::open(st.path, nix::FileMode::Overwrite);
        st.block = st.file.createBlock("b", "t");
        std::vector<nix::Column> cols;
        for (auto &x : tokList(a[1])) {
            size_t p = x.find(':'), q = x.rfind(':');
            if (p == std::string::npos || q == p) throw ProtoError("bad column " + x);
            nix::Column c; c.name = unhexStr(x.substr(0, p)); c.unit = unhexStr(x.substr(p + 1, q - p - 1)); c.dtype = dtOf(x.substr(q + 1));
            cols.push_back(c);
        }
        st.h[0] = st.block.createDataFrame("df", "t", cols);
        st.h[1] = st.block.getDataFrame("df");
        return std::string();
    });
}
// df_exists => ok <hasDataFrame("df")> <dataFrameCount>
DRV_OP(df_exists) {
    return guarded([&]() {
        return std::string(st.block.hasDataFrame("df") ? "1" : "0") + " " + std::to_string(st.block.dataFrameCount());
    });
}
// df_rows <n> ; df_nrows => ok <rows()>
DRV_OP(df_rows) {
    if (a.size() != 2) throw ProtoError("df_rows arity");
    return guarded([&]() { wrH().rows(tokNat(a[1])); return std::string(); });
}
DRV_OP(df_nrows) {
    return guarded([&]() { return std::to_string(rdH().rows()); });
}
// df_cols => ok [name:unit:Type,…]
DRV_OP(df_cols) {
    return guarded([&]() { return colsTok(rdH().columns()); });
}
// df_colname <index> => ok <name> ; df_colidx <name> => ok <index>
DRV_OP(df_colname) {
    if (a.size() != 2) throw ProtoError("df_colname arity");
    return guarded([&]() { return hexStr(rdH().colName((unsigned) tokNat(a[1]))); });
}
DRV_OP(df_colidx) {
    if (a.size() != 2) throw ProtoError("df_colidx arity");
    return guarded([&]() { return std::to_string(rdH().colIndex(unhexStr(a[1]))); });
}
// df_wrow <row> [Type:value,…]
DRV_OP(df_wrow) {
    if (a.size() != 3) throw ProtoError("df_wrow arity");
    return guarded([&]() {
        std::vector<nix::Variant> vs;
        for (auto &x : tokList(a[2])) vs.push_back(variantOf(x));
        wrH().writeRow(tokNat(a[1]), vs);
        return std::string();
    });
}
// df_wcells <row> [<ref>=Type:value,…]
DRV_OP(df_wcells) {
    if (a.size() != 3) throw ProtoError("df_wcells arity");
    return guarded([&]() {
        // the cell vector is built the ways a client builds one: appended, or pre-sized and then assigned (the value types a
        // Cell derives from have hand-written copy / swap members: an assigned Cell must be the Cell that was assigned)
        static unsigned calls = 0;
        std::vector<std::string> toks = tokList(a[2]);
        bool assign = (calls++ % 2 == 1);
        std::vector<nix::Cell> cells(assign ? toks.size() : 0);
        size_t k = 0;
        for (auto &x : toks) {
            size_t p = x.find('=');
            if (p == std::string::npos) throw ProtoError("bad cell " + x);
            ColRef r = refOf(x.substr(0, p));
            nix::Variant v = variantOf(x.substr(p + 1));
            nix::Cell c = r.byName ? nix::Cell(r.name, v) : nix::Cell(r.idx, v);
            if (assign) cells[k++] = c; else cells.push_back(c);
        }
        wrH().writeCells(tokNat(a[1]), cells);
        return std::string();
    });
}
// df_wcell <row> <col index> Type:value : writeCell(row, col, v)
DRV_OP(df_wcell) {
    if (a.size() != 4) throw ProtoError("df_wcell arity");
    return guarded([&]() { wrH().writeCell(tokNat(a[1]), (unsigned) tokNat(a[2]), variantOf(a[3])); return std::string(); });
}
// df_wcol <ref> <Type> [values] <offset> <count>
DRV_OP(df_wcol) {
    if (a.size() != 6) throw ProtoError("df_wcol arity");
    return guarded([&]() {
        std::vector<std::string> v = tokList(a[3]);
        ColWriter w{refOf(a[1]), &v, tokNat(a[4]), tokNat(a[5])};
        return withElem(a[2], w);
    });
}
// df_rrow <row> => ok [Type:value,…]
DRV_OP(df_rrow) {
    if (a.size() != 2) throw ProtoError("df_rrow arity");
    return guarded([&]() {
        std::vector<std::string> l;
        for (auto &v : rdH().readRow(tokNat(a[1]))) l.push_back(variantTok(v));
        return listTok(l);
    });
}
// df_rcells <row> [names] => ok [name=Type:value,…]
DRV_OP(df_rcells) {
    if (a.size() != 3) throw ProtoError("df_rcells arity");
    return guarded([&]() {
        std::vector<std::string> names;
        for (auto &x : tokList(a[2])) names.push_back(unhexStr(x));
        std::vector<std::string> l;
        for (auto &c : rdH().readCells(tokNat(a[1]), names)) l.push_back(hexStr(c.name) + "=" + variantTok(c));
        return listTok(l);
    });
}
// df_rcell <row> <ref> => ok name=Type:value
DRV_OP(df_rcell) {
    if (a.size() != 3) throw ProtoError("df_rcell arity");
    return guarded([&]() {
        ColRef r = refOf(a[2]);
        nix::Cell c = r.byName ? rdH().readCell(tokNat(a[1]), r.name) : rdH().readCell(tokNat(a[1]), r.idx);
        return hexStr(c.name) + "=" + variantTok(c);
    });
}
// df_rcol <ref> <Type> <buffer length> <resize 0|1> <offset> => ok [values]      (buffer pre-filled with 7 / "~")
DRV_OP(df_rcol) {
    if (a.size() != 6) throw ProtoError("df_rcol arity");
    return guarded([&]() {
        ColReader r{refOf(a[1]), (size_t) tokNat(a[3]), false, 0, a[4] != "0", tokNat(a[5])};
        return withElem(a[2], r);
    });
}
// df_rcolc <ref> <Type> <buffer length> <count> <resize 0|1> <offset> => ok [values]
DRV_OP(df_rcolc) {
    if (a.size() != 7) throw ProtoError("df_rcolc arity");
    return guarded([&]() {
        ColReader r{refOf(a[1]), (size_t) tokNat(a[3]), true, (size_t) tokNat(a[4]), a[5] != "0", tokNat(a[6])};
        return withElem(a[2], r);
    });
}
// df_reopen <ro|rw>
DRV_OP(df_reopen) {
    if (a.size() != 2) throw ProtoError("df_reopen arity");
    return guarded([&]() {
        st.h[0] = nix::DataFrame(); st.h[1] = nix::DataFrame(); st.block = nix::Block();
        st.file.close();
        st.file = nix::File::open(st.path, a[1] == "ro" ? nix::FileMode::ReadOnly : nix::FileMode::ReadWrite);
        st.block = st.file.getBlock("b");
        st.h[0] = st.block.getDataFrame("df"); st.h[1] = st.block.getDataFrame("df");
        return std::string();
    });
}
