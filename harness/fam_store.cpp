// ops of the `store` family: the entity tree (C02 C03 C04 C08 C09 C11 C12 C20 …)
// Entities live in generator-chosen slots ($n). The canonical `dump` prints everything the public getters expose.
#include "common.hpp"
#include "store.hpp"
#include <cstdlib>
#include <cstdio>
#include <cstring>
#include <sys/stat.h>
#include <sys/wait.h>
#include <unistd.h>
#include <iostream>

using namespace drv;

namespace drv { namespace store {

St &state() { static St s; return s; }

void dropAll() {
    St &st = state();
    st.slots.clear();
    if (st.file) { try { st.file.close(); } catch (...) {} st.file = nix::File(); }
}
void resetAll() {
    St &st = state();
    dropAll();
    if (!st.path.empty()) std::remove(st.path.c_str());
    st.path.clear();
}
struct Init { Init() { resetHooks().push_back(resetAll); } } init;

namespace {
bool some(const Ent &e) {
    switch (e.kind) {
    case 'B': return !!e.b; case 'S': return !!e.s; case 'O': return !!e.o; case 'A': return !!e.a; case 'D': return !!e.d;
    case 'T': return !!e.t; case 'M': return !!e.m; case 'G': return !!e.g; case 'R': return !!e.r; case 'P': return !!e.p;
    }
    return false;
}
std::string idOfEnt(const Ent &e) {
    switch (e.kind) {
    case 'B': return e.b.id(); case 'S': return e.s.id(); case 'O': return e.o.id(); case 'A': return e.a.id(); case 'D': return e.d.id();
    case 'T': return e.t.id(); case 'M': return e.m.id(); case 'G': return e.g.id(); case 'R': return e.r.id(); case 'P': return e.p.id();
    }
    return "";
}
// a second handle of the entity, found again from the file by its id through fresh lookups; false if it cannot be found (deleted,
// file closed, …) — then the slot has no twin
bool refetch(const Ent &e, Ent &out) {
    try {
        nix::File &f = state().file;
        if (!f || !f.isOpen() || !some(e)) return false;
        std::string id = idOfEnt(e);
        if (id.empty()) return false;
        out = Ent(); out.kind = e.kind;
        if (e.kind == 'B') { out.b = f.getBlock(id); return some(out); }
        if (e.kind == 'S') { auto v = f.findSections(nix::util::IdFilter<nix::Section>(id)); if (v.size() != 1) return false; out.s = v[0]; return true; }
        if (e.kind == 'P') {
            for (auto &sec : f.findSections()) if (sec.hasProperty(id)) { out.p = sec.getProperty(id); return some(out); }
            return false;
        }
        for (auto &b : f.blocks()) {
            switch (e.kind) {
            case 'A': if (b.hasDataArray(id)) { out.a = b.getDataArray(id); return some(out); } break;
            case 'D': if (b.hasDataFrame(id)) { out.d = b.getDataFrame(id); return some(out); } break;
            case 'T': if (b.hasTag(id)) { out.t = b.getTag(id); return some(out); } break;
            case 'M': if (b.hasMultiTag(id)) { out.m = b.getMultiTag(id); return some(out); } break;
            case 'G': if (b.hasGroup(id)) { out.g = b.getGroup(id); return some(out); } break;
            case 'O': { auto v = b.findSources(nix::util::IdFilter<nix::Source>(id)); if (v.size() == 1) { out.o = v[0]; return true; } break; }
            case 'R':
                for (auto &t : b.tags()) if (t.hasFeature(id)) { out.r = t.getFeature(id); return some(out); }
                for (auto &t : b.multiTags()) if (t.hasFeature(id)) { out.r = t.getFeature(id); return some(out); }
                break;
            default: break;
            }
        }
        return false;
    } catch (...) { return false; }
}
}

Ent &slot(const std::string &s) {
    SlotMap &sm = state().slots;
    auto it = sm.m.find(s);
    if (it == sm.m.end()) throw ProtoError("empty slot " + s);
    if (!getenv("NIXDRV_NO_TWINS")) {
        if (!sm.tried[s]) { sm.tried[s] = true; Ent t; if (refetch(it->second, t)) sm.twin[s] = t; }
        auto tw = sm.twin.find(s);
        if (tw != sm.twin.end() && (sm.uses[s]++ % 2 == 1)) return tw->second;
    }
    return it->second;
}
bool hasSlot(const std::string &s) { return state().slots.count(s) > 0; }

nix::DataType dtOf(const std::string &t) {
    static const std::map<std::string, nix::DataType> m = {
        {"Bool", nix::DataType::Bool}, {"Int8", nix::DataType::Int8}, {"Int16", nix::DataType::Int16}, {"Int32", nix::DataType::Int32},
        {"Int64", nix::DataType::Int64}, {"UInt8", nix::DataType::UInt8}, {"UInt16", nix::DataType::UInt16}, {"UInt32", nix::DataType::UInt32},
        {"UInt64", nix::DataType::UInt64}, {"Float", nix::DataType::Float}, {"Double", nix::DataType::Double}, {"String", nix::DataType::String},
        {"Char", nix::DataType::Char}, {"Opaque", nix::DataType::Opaque}, {"Nothing", nix::DataType::Nothing}};
    auto it = m.find(t);
    if (it == m.end()) throw ProtoError("bad dtype " + t);
    return it->second;
}
nix::LinkType ltOf(const std::string &t) {
    if (t == "tagged") return nix::LinkType::Tagged;
    if (t == "untagged") return nix::LinkType::Untagged;
    if (t == "indexed") return nix::LinkType::Indexed;
    throw ProtoError("bad LinkType " + t);
}
std::string ltName(nix::LinkType l) {
    return l == nix::LinkType::Tagged ? "tagged" : l == nix::LinkType::Untagged ? "untagged" : "indexed";
}
nix::NDSize nd(const std::string &tok) {
    std::vector<std::string> l = tokList(tok);
    nix::NDSize s(l.size());
    for (size_t i = 0; i < l.size(); i++) s[i] = tokNat(l[i]);
    return s;
}
nix::FileMode modeOf(const std::string &m) {
    if (m == "ro") return nix::FileMode::ReadOnly;
    if (m == "rw") return nix::FileMode::ReadWrite;
    if (m == "ow") return nix::FileMode::Overwrite;
    throw ProtoError("bad mode " + m);
}

// field printing: a getter that throws is printed as !Class
template<typename F> std::string safe(F f) {
    try { return f(); }
    catch (const ProtoError &) { throw; }
    catch (const std::exception &e) { return "!" + classify(e); }
    catch (...) { return "!Unknown"; }
}
std::string optS(const boost::optional<std::string> &o) { return o ? hexStr(*o) : std::string("~"); }
std::string idOrNone(const nix::Section &s) { return s ? s.id() : std::string("~"); }

template<typename E> std::string srcIds(const E &e) {
    return safe([&]() { std::vector<std::string> l; for (auto &s : e.sources()) l.push_back(s.id()); return listTok(l); });
}
template<typename E> std::string metaId(const E &e) {
    return safe([&]() { nix::Section s = e.metadata(); return s ? s.id() : std::string("~"); });
}
std::string dlist(const std::vector<double> &v) { std::vector<std::string> l; for (double d : v) l.push_back(f64Tok(d)); return listTok(l); }
std::string slist(const std::vector<std::string> &v) { std::vector<std::string> l; for (auto &s : v) l.push_back(hexStr(s)); return listTok(l); }

std::string dimTok(const nix::Dimension &dim) {
    switch (dim.dimensionType()) {
    case nix::DimensionType::Sample: {
        nix::SampledDimension d = dim.asSampledDimension();
        auto off = d.offset();
        return "S:" + f64Tok(d.samplingInterval()) + ":" + (off ? f64Tok(*off) : std::string("~")) + ":" + optS(d.unit()) + ":" + optS(d.label());
    }
    case nix::DimensionType::Range: {
        nix::RangeDimension d = dim.asRangeDimension();
        std::string t;
        std::vector<double> ticks = d.ticks();
        for (size_t i = 0; i < ticks.size(); i++) { if (i) t += ";"; t += f64Tok(ticks[i]); }
        return std::string("R:") + (d.alias() ? "alias" : "plain") + ":" + t + ":" + optS(d.unit()) + ":" + optS(d.label());
    }
    case nix::DimensionType::Set: {
        nix::SetDimension d = dim.asSetDimension();
        std::string t;
        std::vector<std::string> ls = d.labels();
        for (size_t i = 0; i < ls.size(); i++) { if (i) t += ";"; t += hexStr(ls[i]); }
        return "T:" + t + ":" + optS(d.label());
    }
    case nix::DimensionType::DataFrame: {
        nix::DataFrameDimension d = dim.asDataFrameDimension();
        auto ci = d.columnIndex();
        // the frame is a mandatory link: once the frame has been deleted the getter throws — that is this dimension's answer, the
        // other dimensions of the array are still to be listed
        std::string fid = safe([&]() { nix::DataFrame df = d.data(); return df ? df.id() : std::string("~"); });
        return "F:" + fid + ":" + (ci ? std::to_string(*ci) : std::string("~"));
    }
    }
    return "?";
}

uint64_t fnv(const void *p, size_t n, uint64_t h = 1469598103934665603ULL) {
    const unsigned char *c = static_cast<const unsigned char *>(p);
    for (size_t i = 0; i < n; i++) { h ^= c[i]; h *= 1099511628211ULL; }
    return h;
}
std::string dataDigest(const nix::DataArray &a) {
    return safe([&]() {
        nix::NDSize ext = a.dataExtent();
        size_t n = 1; for (size_t i = 0; i < ext.size(); i++) n *= ext[i];
        if (ext.size() == 0 || n == 0) return std::string("0");
        if (n > 65536) return std::string("big");
        nix::DataType dt = a.dataType();
        nix::NDSize off(ext.size(), 0);
        // raw (uncalibrated) content: read through a DataView-free path is not exposed, so read as stored type
        // with calibration removed only if none is set; otherwise the digest is of calibrated doubles
        char buf[32];
        if (dt == nix::DataType::String) {
            std::vector<std::string> v(n);
            a.getData(dt, v.data(), ext, off);
            uint64_t h = 1469598103934665603ULL;
            for (auto &s : v) { h = fnv(s.data(), s.size(), h); h = fnv("\0", 1, h); }
            snprintf(buf, sizeof buf, "%016llx", (unsigned long long) h); return std::string(buf);
        }
        std::vector<double> v(n);
        a.getData(nix::DataType::Double, v.data(), ext, off);
        snprintf(buf, sizeof buf, "%016llx", (unsigned long long) fnv(v.data(), n * sizeof(double)));
        return std::string(buf);
    });
}

typedef std::vector<std::string> Recs;

void rec(Recs &out, const std::string &kind, const std::string &path, const std::string &id, const std::string &name,
         const std::string &type, const std::string &created, const std::vector<std::pair<std::string, std::string>> &fields) {
    std::string r = "E " + kind + " " + hexStr(path) + " " + id + " " + name + " " + type + " " + created;
    for (auto &f : fields) r += " " + f.first + "=" + f.second;
    out.push_back(r);
}
template<typename E> void head(const E &e, std::string &id, std::string &name, std::string &type, std::string &created, std::string &def) {
    id = safe([&]() { return e.id(); });
    name = safe([&]() { return hexStr(e.name()); });
    type = safe([&]() { return hexStr(e.type()); });
    created = safe([&]() { return std::to_string((long long) e.createdAt()); });
    def = safe([&]() { return optS(e.definition()); });
}

template<typename T> std::string featTok(const T &t) {
    return safe([&]() {
        std::vector<std::string> l;
        for (auto &f : t.features()) {
            std::string da = safe([&]() { nix::DataArray d = f.data(); return d ? d.id() : std::string("~"); });
            l.push_back(f.id() + ":" + ltName(f.linkType()) + ":" + da);
        }
        return listTok(l);
    });
}
template<typename T> std::string refTok(const T &t) {
    return safe([&]() { std::vector<std::string> l; for (auto &r : t.references()) l.push_back(r.id()); return listTok(l); });
}

void recSource(Recs &out, const nix::Source &s, const std::string &path) {
    std::string id, name, type, created, def; head(s, id, name, type, created, def);
    rec(out, "O", path, id, name, type, created, {{"def", def}, {"meta", metaId(s)}});
}
void dumpSource(Recs &out, const nix::Source &s, const std::string &path) {
    recSource(out, s, path);
    size_t n = 0; try { n = s.sourceCount(); } catch (const std::exception &e) { out.push_back("E ? " + hexStr(path + "/sourceCount") + " !" + classify(e)); }
    for (size_t i = 0; i < n; i++) {
        try { dumpSource(out, s.getSource(i), path + "/o" + std::to_string(i)); }
        catch (const std::exception &e) { out.push_back("E O " + hexStr(path + "/o" + std::to_string(i)) + " !" + classify(e)); }
    }
}
std::string variantTok(const nix::Variant &v) {
    switch (v.type()) {
    case nix::DataType::Bool: return std::string(v.get<bool>() ? "1" : "0");
    case nix::DataType::Int32: return std::to_string(v.get<int32_t>());
    case nix::DataType::UInt32: return std::to_string(v.get<uint32_t>());
    case nix::DataType::Int64: return std::to_string((long long) v.get<int64_t>());
    case nix::DataType::UInt64: return std::to_string((unsigned long long) v.get<uint64_t>());
    case nix::DataType::Double: return f64Tok(v.get<double>());
    case nix::DataType::String: return hexStr(v.get<std::string>());
    default: return "?";
    }
}
void recSection(Recs &out, const nix::Section &s, const std::string &path) {
    std::string id, name, type, created, def; head(s, id, name, type, created, def);
    rec(out, "S", path, id, name, type, created, {{"def", def},
        {"repo", safe([&]() { return optS(s.repository()); })},
        {"link", safe([&]() { nix::Section l = s.link(); return l ? l.id() : std::string("~"); })}});
}
void recProperty(Recs &out, const nix::Property &p, const std::string &pp) {
    std::string pid = safe([&]() { return p.id(); });
    std::string pname = safe([&]() { return hexStr(p.name()); });
    std::string created_p = safe([&]() { return std::to_string((long long) p.createdAt()); });
    std::string vals = safe([&]() { std::vector<std::string> l; for (auto &v : p.values()) l.push_back(variantTok(v)); return listTok(l); });
    rec(out, "P", pp, pid, pname, "x", created_p, {
        {"dtype", safe([&]() { return nix::data_type_to_string(p.dataType()); })},
        {"unit", safe([&]() { return optS(p.unit()); })},
        {"def", safe([&]() { return optS(p.definition()); })},
        {"unc", safe([&]() { auto u = p.uncertainty(); return u ? f64Tok(*u) : std::string("~"); })},
        {"n", safe([&]() { return std::to_string(p.valueCount()); })},
        {"vals", vals}});
}
void dumpSection(Recs &out, const nix::Section &s, const std::string &path) {
    recSection(out, s, path);
    size_t np = 0; try { np = s.propertyCount(); } catch (const std::exception &e) { out.push_back("E ? " + hexStr(path + "/propertyCount") + " !" + classify(e)); }
    for (size_t i = 0; i < np; i++) {
        std::string pp = path + "/p" + std::to_string(i);
        try {
            recProperty(out, s.getProperty(i), pp);
        } catch (const std::exception &e) { out.push_back("E P " + hexStr(pp) + " !" + classify(e)); }
    }
    size_t n = 0; try { n = s.sectionCount(); } catch (const std::exception &e) { out.push_back("E ? " + hexStr(path + "/sectionCount") + " !" + classify(e)); }
    for (size_t i = 0; i < n; i++) {
        try { dumpSection(out, s.getSection(i), path + "/s" + std::to_string(i)); }
        catch (const std::exception &e) { out.push_back("E S " + hexStr(path + "/s" + std::to_string(i)) + " !" + classify(e)); }
    }
}

void recArray(Recs &out, const nix::DataArray &a, const std::string &p) {
    std::string id, name, type, created, def;
    head(a, id, name, type, created, def);
    std::string dims = safe([&]() { std::vector<std::string> l; for (auto &d : a.dimensions()) l.push_back(dimTok(d)); return listTok(l); });
    rec(out, "A", p, id, name, type, created, {{"def", def},
        {"label", safe([&]() { return optS(a.label()); })}, {"unit", safe([&]() { return optS(a.unit()); })},
        {"dtype", safe([&]() { return nix::data_type_to_string(a.dataType()); })},
        {"shape", safe([&]() { nix::NDSize s = a.dataExtent(); std::vector<std::string> l; for (size_t k = 0; k < s.size(); k++) l.push_back(std::to_string(s[k])); return listTok(l); })},
        {"origin", safe([&]() { auto o = a.expansionOrigin(); return o ? f64Tok(*o) : std::string("~"); })},
        {"poly", safe([&]() { return dlist(a.polynomCoefficients()); })},
        {"dims", dims}, {"srcs", srcIds(a)}, {"meta", metaId(a)}, {"data", dataDigest(a)}});
}
void recFrame(Recs &out, const nix::DataFrame &d, const std::string &p) {
    std::string id, name, type, created, def;
    head(d, id, name, type, created, def);
    std::string cols = safe([&]() { std::vector<std::string> l; for (auto &c : d.columns()) l.push_back(hexStr(c.name) + ":" + hexStr(c.unit) + ":" + nix::data_type_to_string(c.dtype)); return listTok(l); });
    rec(out, "D", p, id, name, type, created, {{"def", def}, {"cols", cols},
        {"rows", safe([&]() { return std::to_string(d.rows()); })}, {"srcs", srcIds(d)}, {"meta", metaId(d)}});
}
void recTag(Recs &out, const nix::Tag &t, const std::string &p) {
    std::string id, name, type, created, def;
    head(t, id, name, type, created, def);
    rec(out, "T", p, id, name, type, created, {{"def", def},
        {"pos", safe([&]() { return dlist(t.position()); })}, {"ext", safe([&]() { return dlist(t.extent()); })},
        {"units", safe([&]() { return slist(t.units()); })}, {"refs", refTok(t)}, {"feats", featTok(t)},
        {"srcs", srcIds(t)}, {"meta", metaId(t)}});
}
void recMTag(Recs &out, const nix::MultiTag &t, const std::string &p) {
    std::string id, name, type, created, def;
    head(t, id, name, type, created, def);
    rec(out, "M", p, id, name, type, created, {{"def", def},
        {"positions", safe([&]() { nix::DataArray a = t.positions(); return a ? a.id() : std::string("~"); })},
        {"extents", safe([&]() { nix::DataArray a = t.extents(); return a ? a.id() : std::string("~"); })},
        {"units", safe([&]() { return slist(t.units()); })}, {"refs", refTok(t)}, {"feats", featTok(t)},
        {"srcs", srcIds(t)}, {"meta", metaId(t)}});
}
void recGroup(Recs &out, const nix::Group &g, const std::string &p) {
    std::string id, name, type, created, def;
    head(g, id, name, type, created, def);
    rec(out, "G", p, id, name, type, created, {{"def", def},
        {"das", safe([&]() { std::vector<std::string> l; for (auto &x : g.dataArrays()) l.push_back(x.id()); return listTok(l); })},
        {"dfs", safe([&]() { std::vector<std::string> l; for (auto &x : g.dataFrames()) l.push_back(x.id()); return listTok(l); })},
        {"tags", safe([&]() { std::vector<std::string> l; for (auto &x : g.tags()) l.push_back(x.id()); return listTok(l); })},
        {"mtags", safe([&]() { std::vector<std::string> l; for (auto &x : g.multiTags()) l.push_back(x.id()); return listTok(l); })},
        {"srcs", srcIds(g)}, {"meta", metaId(g)}});
}
void recBlock(Recs &out, const nix::Block &b, const std::string &path) {
    std::string id, name, type, created, def; head(b, id, name, type, created, def);
    rec(out, "B", path, id, name, type, created, {{"def", def}, {"meta", metaId(b)}});
}
void dumpBlock(Recs &out, const nix::Block &b, const std::string &path) {
    recBlock(out, b, path);
    std::string id, name, type, created, def;
    size_t n;
    n = 0; try { n = b.dataArrayCount(); } catch (const std::exception &e) { out.push_back("E ? " + hexStr(path + "/dataArrayCount") + " !" + classify(e)); }
    for (size_t i = 0; i < n; i++) {
        std::string p = path + "/a" + std::to_string(i);
        try {
            recArray(out, b.getDataArray(i), p);
        } catch (const std::exception &e) { out.push_back("E A " + hexStr(p) + " !" + classify(e)); }
    }
    n = 0; try { n = b.dataFrameCount(); } catch (const std::exception &e) { out.push_back("E ? " + hexStr(path + "/dataFrameCount") + " !" + classify(e)); }
    for (size_t i = 0; i < n; i++) {
        std::string p = path + "/d" + std::to_string(i);
        try {
            recFrame(out, b.getDataFrame(i), p);
        } catch (const std::exception &e) { out.push_back("E D " + hexStr(p) + " !" + classify(e)); }
    }
    n = 0; try { n = b.tagCount(); } catch (const std::exception &e) { out.push_back("E ? " + hexStr(path + "/tagCount") + " !" + classify(e)); }
    for (size_t i = 0; i < n; i++) {
        std::string p = path + "/t" + std::to_string(i);
        try {
            recTag(out, b.getTag(i), p);
        } catch (const std::exception &e) { out.push_back("E T " + hexStr(p) + " !" + classify(e)); }
    }
    n = 0; try { n = b.multiTagCount(); } catch (const std::exception &e) { out.push_back("E ? " + hexStr(path + "/multiTagCount") + " !" + classify(e)); }
    for (size_t i = 0; i < n; i++) {
        std::string p = path + "/m" + std::to_string(i);
        try {
            recMTag(out, b.getMultiTag(i), p);
        } catch (const std::exception &e) { out.push_back("E M " + hexStr(p) + " !" + classify(e)); }
    }
    n = 0; try { n = b.groupCount(); } catch (const std::exception &e) { out.push_back("E ? " + hexStr(path + "/groupCount") + " !" + classify(e)); }
    for (size_t i = 0; i < n; i++) {
        std::string p = path + "/g" + std::to_string(i);
        try {
            recGroup(out, b.getGroup(i), p);
        } catch (const std::exception &e) { out.push_back("E G " + hexStr(p) + " !" + classify(e)); }
    }
    n = 0; try { n = b.sourceCount(); } catch (const std::exception &e) { out.push_back("E ? " + hexStr(path + "/sourceCount") + " !" + classify(e)); }
    for (size_t i = 0; i < n; i++) {
        try { dumpSource(out, b.getSource(i), path + "/o" + std::to_string(i)); }
        catch (const std::exception &e) { out.push_back("E O " + hexStr(path + "/o" + std::to_string(i)) + " !" + classify(e)); }
    }
}

std::string dumpFile(const nix::File &f) {
    Recs out;
    out.push_back("E F " + hexStr("") + " " + safe([&]() { return f.id(); }) + " x x " +
                  safe([&]() { return std::to_string((long long) f.createdAt()); }) +
                  " format=" + safe([&]() { return hexStr(f.format()); }) +
                  " version=" + safe([&]() { std::vector<std::string> l; for (int v : f.version()) l.push_back(std::to_string(v)); return listTok(l); }));
    size_t n = 0; try { n = f.blockCount(); } catch (const std::exception &e) { out.push_back("E ? " + hexStr("blockCount") + " !" + classify(e)); }
    for (size_t i = 0; i < n; i++) {
        try { dumpBlock(out, f.getBlock(i), "b" + std::to_string(i)); }
        catch (const std::exception &e) { out.push_back("E B " + hexStr("b" + std::to_string(i)) + " !" + classify(e)); }
    }
    n = 0; try { n = f.sectionCount(); } catch (const std::exception &e) { out.push_back("E ? " + hexStr("sectionCount") + " !" + classify(e)); }
    for (size_t i = 0; i < n; i++) {
        try { dumpSection(out, f.getSection(i), "s" + std::to_string(i)); }
        catch (const std::exception &e) { out.push_back("E S " + hexStr("s" + std::to_string(i)) + " !" + classify(e)); }
    }
    std::string r = std::to_string(out.size());
    for (auto &x : out) r += " | " + x;
    return r;
}

}} // namespace drv::store

using namespace drv::store;

// fopen <mode> <compr none|deflate|auto> [force]   => ok <file id> <mode actually in force>
DRV_OP(fopen) {
    if (a.size() < 3) throw ProtoError("fopen arity");
    return guarded([&]() {
        St &st = state();
        dropAll();
        if (st.path.empty()) st.path = scratch("store.nix");
        nix::Compression c = a[2] == "deflate" ? nix::Compression::DeflateNormal : a[2] == "none" ? nix::Compression::None : nix::Compression::Auto;
        nix::OpenFlags fl = (a.size() > 3 && a[3] == "force") ? nix::OpenFlags::Force : nix::OpenFlags::None;
        st.file = nix::File::open(st.path, modeOf(a[1]), "hdf5", c, fl);
        nix::FileMode m = st.file.fileMode();
        return st.file.id() + " " + (m == nix::FileMode::ReadOnly ? "ro" : m == nix::FileMode::ReadWrite ? "rw" : "ow");
    });
}
DRV_OP(fclose) {
    return guarded([&]() { St &st = state(); if (st.file) st.file.close(); return std::string(); });
}
// fdrop: forget every handle, then close (a clean end of session)
DRV_OP(fdrop) {
    return guarded([&]() { dropAll(); return std::string(); });
}
DRV_OP(fflush) {
    return guarded([&]() { return std::string(state().file.flush() ? "1" : "0"); });
}
DRV_OP(fisopen) {
    return guarded([&]() { return std::string(state().file.isOpen() ? "1" : "0"); });
}
DRV_OP(dump) {
    return guarded([&]() { return dumpFile(state().file); });
}
// hdump => ok <n> | E <kind> <slot:0|1> <id> … : the record of every entity a slot holds, taken THROUGH THE HELD HANDLE (0) and through
// its twin (1) — whatever a handle has seen or cached, it must show what a fresh walk of the file (the `dump` just before) shows
DRV_OP(hdump) {
    return guarded([&]() {
        Recs out;
        SlotMap &sm = state().slots;
        for (auto &kv : sm.m) {
            if (!getenv("NIXDRV_NO_TWINS") && !sm.tried[kv.first]) { sm.tried[kv.first] = true; Ent t; if (refetch(kv.second, t)) sm.twin[kv.first] = t; }
            for (int w = 0; w < 2; w++) {
                const Ent *e = &kv.second;
                if (w == 1) { auto tw = sm.twin.find(kv.first); if (tw == sm.twin.end()) continue; e = &tw->second; }
                if (!some(*e)) continue;
                std::string p = kv.first + ":" + std::to_string(w);
                try {
                    switch (e->kind) {
                    case 'B': recBlock(out, e->b, p); break; case 'S': recSection(out, e->s, p); break; case 'O': recSource(out, e->o, p); break;
                    case 'A': recArray(out, e->a, p); break; case 'D': recFrame(out, e->d, p); break; case 'T': recTag(out, e->t, p); break;
                    case 'M': recMTag(out, e->m, p); break; case 'G': recGroup(out, e->g, p); break; case 'P': recProperty(out, e->p, p); break;
                    default: break;
                    }
                } catch (const ProtoError &) { throw; }
                catch (const std::exception &ex) { out.push_back(std::string("E ") + e->kind + " " + hexStr(p) + " !" + classify(ex)); }
            }
        }
        std::string r = std::to_string(out.size());
        for (auto &x : out) r += " | " + x;
        return r;
    });
}
// dumpx <TZ> : the same dump taken by a freshly forked reader process with its own time zone, file opened ReadOnly
// (the writing session must have been closed with fdrop before)
DRV_OP(dumpx) {
    if (a.size() != 2) throw ProtoError("dumpx arity");
    int fds[2];
    if (pipe(fds) != 0) throw ProtoError("pipe");
    fflush(stdout); std::cout.flush();
    pid_t pid = fork();
    if (pid == 0) {
        // a FRESH process (exec): nothing of this process's HDF5 state — files it may have failed to release included — is inherited
        close(fds[0]);
        setenv("TZ", a[1].c_str(), 1);
        dup2(fds[1], 1); close(fds[1]);
        execl("/proc/self/exe", "nixdrv", "--dump", state().path.c_str(), (char *) nullptr);
        _exit(127);
    }
    close(fds[1]);
    std::string r; char buf[65536]; ssize_t n;
    while ((n = read(fds[0], buf, sizeof buf)) > 0) r.append(buf, (size_t) n);
    close(fds[0]);
    int status = 0; waitpid(pid, &status, 0);
    if (!WIFEXITED(status) || WEXITSTATUS(status) != 0) return std::string("err ChildDied");
    return r;
}
// fsize => ok <bytes> <fnv of the file bytes>
DRV_OP(fbytes) {
    return guarded([&]() {
        FILE *f = fopen(state().path.c_str(), "rb");
        if (!f) return std::string("~");
        uint64_t h = 1469598103934665603ULL; size_t total = 0; char buf[65536]; size_t n;
        while ((n = fread(buf, 1, sizeof buf, f)) > 0) { h = fnv(buf, n, h); total += n; }
        fclose(f);
        char o[64]; snprintf(o, sizeof o, "%zu %016llx", total, (unsigned long long) h);
        return std::string(o);
    });
}

// ---- creation -----------------------------------------------------------------------------------------------
// mk <slot> <kind> <parent slot|$F> <name> <type> [extra...]  => ok <id> <created_at>
DRV_OP(mk) {
    if (a.size() < 6) throw ProtoError("mk arity");
    return guarded([&]() {
        St &st = state();
        const std::string &sl = a[1], &kind = a[2], &par = a[3];
        std::string name = unhexStr(a[4]), type = unhexStr(a[5]);
        Ent e; e.kind = kind[0];
        std::string id; long long created = 0;
        if (kind == "B") { e.b = st.file.createBlock(name, type); id = e.b.id(); created = e.b.createdAt(); }
        else if (kind == "S") {
            if (par == "$F") e.s = st.file.createSection(name, type); else e.s = slot(par).s.createSection(name, type);
            id = e.s.id(); created = e.s.createdAt();
        } else if (kind == "O") {
            Ent &p = slot(par);
            if (p.kind == 'B') e.o = p.b.createSource(name, type); else e.o = p.o.createSource(name, type);
            id = e.o.id(); created = e.o.createdAt();
        } else if (kind == "A") {
            // mk $x A <block> <name> <type> <dtype> [n] d|s : the templated createDataArray(name, type, data, dtype) with a vector of
            // n doubles / n strings (shape and, for dtype Nothing, element type are inferred from the data)
            if (a.size() == 9) {
                size_t n = nd(a[7]).size() == 1 ? (size_t) nd(a[7])[0] : throw ProtoError("mk A with data: 1-d only");
                if (a[8] == "d") { std::vector<double> v(n, 1.5); e.a = slot(par).b.createDataArray(name, type, v, dtOf(a[6])); }
                else if (a[8] == "s") { std::vector<std::string> v(n, "txt"); e.a = slot(par).b.createDataArray(name, type, v, dtOf(a[6])); }
                else throw ProtoError("mk A data class");
            } else {
            if (a.size() != 8) throw ProtoError("mk A arity");
            e.a = slot(par).b.createDataArray(name, type, dtOf(a[6]), nd(a[7]));
            }
            id = e.a.id(); created = e.a.createdAt();
        } else if (kind == "D") {
            if (a.size() != 7) throw ProtoError("mk D arity");
            std::vector<nix::Column> cols;
            for (auto &c : tokList(a[6])) {
                size_t p1 = c.find(':'), p2 = c.find(':', p1 + 1);
                cols.push_back({unhexStr(c.substr(0, p1)), unhexStr(c.substr(p1 + 1, p2 - p1 - 1)), dtOf(c.substr(p2 + 1))});
            }
            e.d = slot(par).b.createDataFrame(name, type, cols);
            id = e.d.id(); created = e.d.createdAt();
        } else if (kind == "T") {
            if (a.size() != 7) throw ProtoError("mk T arity");
            std::vector<double> pos; for (auto &x : tokList(a[6])) pos.push_back(tokF64(x));
            e.t = slot(par).b.createTag(name, type, pos);
            id = e.t.id(); created = e.t.createdAt();
        } else if (kind == "M") {
            if (a.size() != 7) throw ProtoError("mk M arity");
            nix::DataArray pos = a[6] == "$-" ? nix::DataArray() : slot(a[6]).a;
            e.m = slot(par).b.createMultiTag(name, type, pos);
            id = e.m.id(); created = e.m.createdAt();
        } else if (kind == "G") { e.g = slot(par).b.createGroup(name, type); id = e.g.id(); created = e.g.createdAt(); }
        else if (kind == "P") {
            if (a.size() != 7) throw ProtoError("mk P arity");
            e.p = slot(par).s.createProperty(name, dtOf(a[6]));
            id = e.p.id(); created = e.p.createdAt();
        } else if (kind == "R") {
            if (a.size() != 8) throw ProtoError("mk R arity");
            Ent &p = slot(par);
            nix::DataArray da = a[6] == "$-" ? nix::DataArray() : slot(a[6]).a;
            if (p.kind == 'T') e.r = p.t.createFeature(da, ltOf(a[7])); else e.r = p.m.createFeature(da, ltOf(a[7]));
            id = e.r.id(); created = e.r.createdAt();
        } else throw ProtoError("mk kind " + kind);
        st.slots[sl] = e;
        return id + " " + std::to_string(created);
    });
}

namespace {
// child access by kind under a parent
struct Child {
    // get by name-or-id string
    static Ent byKey(const std::string &kind, const std::string &par, const std::string &key) {
        St &st = state(); Ent e; e.kind = kind[0];
        if (kind == "B") e.b = st.file.getBlock(key);
        else if (kind == "S") e.s = par == "$F" ? st.file.getSection(key) : slot(par).s.getSection(key);
        else if (kind == "O") { Ent &p = slot(par); e.o = p.kind == 'B' ? p.b.getSource(key) : p.o.getSource(key); }
        else if (kind == "A") e.a = slot(par).b.getDataArray(key);
        else if (kind == "D") e.d = slot(par).b.getDataFrame(key);
        else if (kind == "T") e.t = slot(par).b.getTag(key);
        else if (kind == "M") e.m = slot(par).b.getMultiTag(key);
        else if (kind == "G") e.g = slot(par).b.getGroup(key);
        else if (kind == "P") e.p = slot(par).s.getProperty(key);
        else if (kind == "R") { Ent &p = slot(par); e.r = p.kind == 'T' ? p.t.getFeature(key) : p.m.getFeature(key); }
        else throw ProtoError("get kind " + kind);
        return e;
    }
    static Ent byIdx(const std::string &kind, const std::string &par, size_t i) {
        St &st = state(); Ent e; e.kind = kind[0];
        if (kind == "B") e.b = st.file.getBlock(i);
        else if (kind == "S") e.s = par == "$F" ? st.file.getSection(i) : slot(par).s.getSection(i);
        else if (kind == "O") { Ent &p = slot(par); e.o = p.kind == 'B' ? p.b.getSource(i) : p.o.getSource(i); }
        else if (kind == "A") e.a = slot(par).b.getDataArray(i);
        else if (kind == "D") e.d = slot(par).b.getDataFrame(i);
        else if (kind == "T") e.t = slot(par).b.getTag(i);
        else if (kind == "M") e.m = slot(par).b.getMultiTag(i);
        else if (kind == "G") e.g = slot(par).b.getGroup(i);
        else if (kind == "P") e.p = slot(par).s.getProperty(i);
        else if (kind == "R") { Ent &p = slot(par); e.r = p.kind == 'T' ? p.t.getFeature(i) : p.m.getFeature(i); }
        else throw ProtoError("get kind " + kind);
        return e;
    }
    static size_t count(const std::string &kind, const std::string &par) {
        St &st = state();
        if (kind == "B") return st.file.blockCount();
        if (kind == "S") return par == "$F" ? st.file.sectionCount() : slot(par).s.sectionCount();
        if (kind == "O") { Ent &p = slot(par); return p.kind == 'B' ? p.b.sourceCount() : p.o.sourceCount(); }
        if (kind == "A") return slot(par).b.dataArrayCount();
        if (kind == "D") return slot(par).b.dataFrameCount();
        if (kind == "T") return slot(par).b.tagCount();
        if (kind == "M") return slot(par).b.multiTagCount();
        if (kind == "G") return slot(par).b.groupCount();
        if (kind == "P") return slot(par).s.propertyCount();
        if (kind == "R") { Ent &p = slot(par); return p.kind == 'T' ? p.t.featureCount() : p.m.featureCount(); }
        throw ProtoError("count kind " + kind);
    }
    static std::vector<std::string> list(const std::string &kind, const std::string &par) {
        St &st = state(); std::vector<std::string> l;
        if (kind == "B") for (auto &x : st.file.blocks()) l.push_back(x.id());
        else if (kind == "S") { if (par == "$F") for (auto &x : st.file.sections()) l.push_back(x.id()); else for (auto &x : slot(par).s.sections()) l.push_back(x.id()); }
        else if (kind == "O") { Ent &p = slot(par); if (p.kind == 'B') for (auto &x : p.b.sources()) l.push_back(x.id()); else for (auto &x : p.o.sources()) l.push_back(x.id()); }
        else if (kind == "A") for (auto &x : slot(par).b.dataArrays()) l.push_back(x.id());
        else if (kind == "D") for (auto &x : slot(par).b.dataFrames()) l.push_back(x.id());
        else if (kind == "T") for (auto &x : slot(par).b.tags()) l.push_back(x.id());
        else if (kind == "M") for (auto &x : slot(par).b.multiTags()) l.push_back(x.id());
        else if (kind == "G") for (auto &x : slot(par).b.groups()) l.push_back(x.id());
        else if (kind == "P") for (auto &x : slot(par).s.properties()) l.push_back(x.id());
        else if (kind == "R") { Ent &p = slot(par); if (p.kind == 'T') for (auto &x : p.t.features()) l.push_back(x.id()); else for (auto &x : p.m.features()) l.push_back(x.id()); }
        else throw ProtoError("list kind " + kind);
        return l;
    }
    static bool hasKey(const std::string &kind, const std::string &par, const std::string &key) {
        St &st = state();
        if (kind == "B") return st.file.hasBlock(key);
        if (kind == "S") return par == "$F" ? st.file.hasSection(key) : slot(par).s.hasSection(key);
        if (kind == "O") { Ent &p = slot(par); return p.kind == 'B' ? p.b.hasSource(key) : p.o.hasSource(key); }
        if (kind == "A") return slot(par).b.hasDataArray(key);
        if (kind == "D") return slot(par).b.hasDataFrame(key);
        if (kind == "T") return slot(par).b.hasTag(key);
        if (kind == "M") return slot(par).b.hasMultiTag(key);
        if (kind == "G") return slot(par).b.hasGroup(key);
        if (kind == "P") return slot(par).s.hasProperty(key);
        if (kind == "R") { Ent &p = slot(par); return p.kind == 'T' ? p.t.hasFeature(key) : p.m.hasFeature(key); }
        throw ProtoError("has kind " + kind);
    }
    static bool hasHandle(const std::string &kind, const std::string &par, Ent &h) {
        St &st = state();
        if (kind == "B") return st.file.hasBlock(h.b);
        if (kind == "S") return par == "$F" ? st.file.hasSection(h.s) : slot(par).s.hasSection(h.s);
        if (kind == "O") { Ent &p = slot(par); return p.kind == 'B' ? p.b.hasSource(h.o) : p.o.hasSource(h.o); }
        if (kind == "A") return slot(par).b.hasDataArray(h.a);
        if (kind == "D") return slot(par).b.hasDataFrame(h.d);
        if (kind == "T") return slot(par).b.hasTag(h.t);
        if (kind == "M") return slot(par).b.hasMultiTag(h.m);
        if (kind == "G") return slot(par).b.hasGroup(h.g);
        if (kind == "P") return slot(par).s.hasProperty(h.p);
        if (kind == "R") { Ent &p = slot(par); return p.kind == 'T' ? p.t.hasFeature(h.r) : p.m.hasFeature(h.r); }
        throw ProtoError("has kind " + kind);
    }
    static bool delKey(const std::string &kind, const std::string &par, const std::string &key) {
        St &st = state();
        if (kind == "B") return st.file.deleteBlock(key);
        if (kind == "S") return par == "$F" ? st.file.deleteSection(key) : slot(par).s.deleteSection(key);
        if (kind == "O") { Ent &p = slot(par); return p.kind == 'B' ? p.b.deleteSource(key) : p.o.deleteSource(key); }
        if (kind == "A") return slot(par).b.deleteDataArray(key);
        if (kind == "D") return slot(par).b.deleteDataFrame(key);
        if (kind == "T") return slot(par).b.deleteTag(key);
        if (kind == "M") return slot(par).b.deleteMultiTag(key);
        if (kind == "G") return slot(par).b.deleteGroup(key);
        if (kind == "P") return slot(par).s.deleteProperty(key);
        if (kind == "R") { Ent &p = slot(par); return p.kind == 'T' ? p.t.deleteFeature(key) : p.m.deleteFeature(key); }
        throw ProtoError("del kind " + kind);
    }
    static bool delHandle(const std::string &kind, const std::string &par, Ent &h) {
        St &st = state();
        if (kind == "B") return st.file.deleteBlock(h.b);
        if (kind == "S") return par == "$F" ? st.file.deleteSection(h.s) : slot(par).s.deleteSection(h.s);
        if (kind == "O") { Ent &p = slot(par); return p.kind == 'B' ? p.b.deleteSource(h.o) : p.o.deleteSource(h.o); }
        if (kind == "A") return slot(par).b.deleteDataArray(h.a);
        if (kind == "D") return slot(par).b.deleteDataFrame(h.d);
        if (kind == "T") return slot(par).b.deleteTag(h.t);
        if (kind == "M") return slot(par).b.deleteMultiTag(h.m);
        if (kind == "G") return slot(par).b.deleteGroup(h.g);
        if (kind == "P") return slot(par).s.deleteProperty(h.p);
        if (kind == "R") { Ent &p = slot(par); return p.kind == 'T' ? p.t.deleteFeature(h.r) : p.m.deleteFeature(h.r); }
        throw ProtoError("del kind " + kind);
    }
};

bool isSome(const Ent &e) {
    switch (e.kind) {
    case 'B': return !!e.b; case 'S': return !!e.s; case 'O': return !!e.o; case 'A': return !!e.a; case 'D': return !!e.d;
    case 'T': return !!e.t; case 'M': return !!e.m; case 'G': return !!e.g; case 'R': return !!e.r; case 'P': return !!e.p;
    }
    return false;
}
std::string entId(const Ent &e) {
    switch (e.kind) {
    case 'B': return e.b.id(); case 'S': return e.s.id(); case 'O': return e.o.id(); case 'A': return e.a.id(); case 'D': return e.d.id();
    case 'T': return e.t.id(); case 'M': return e.m.id(); case 'G': return e.g.id(); case 'R': return e.r.id(); case 'P': return e.p.id();
    }
    throw ProtoError("entId");
}
}

namespace {
// a key given as `idof <slot>`: the id string of the entity in that slot (the generator does not know ids)
std::string keyStr(const std::string &how, const std::string &tok) {
    if (how == "idof") return entId(slot(tok));
    return unhexStr(tok);
}
Args withKey(const Args &a, size_t howPos) {
    Args b = a;
    if (b.size() > howPos + 1 && b[howPos] == "idof") { b[howPos + 1] = hexStr(entId(slot(b[howPos + 1]))); b[howPos] = "id"; }
    return b;
}
}

// get <slot> <kind> <parent> <how name|id|idof|idx> <key>  => ok <id|~>
DRV_OP(get) {
    if (a.size() != 6) throw ProtoError("get arity");
    return guarded([&]() {
        Ent e = a[4] == "idx" ? Child::byIdx(a[2], a[3], (size_t) tokNat(a[5])) : Child::byKey(a[2], a[3], keyStr(a[4], a[5]));
        state().slots[a[1]] = e;
        return isSome(e) ? entId(e) : std::string("~");
    });
}
// has <kind> <parent> <how name|id|handle> <key>
DRV_OP(has) {
    if (a.size() != 5) throw ProtoError("has arity");
    return guarded([&]() {
        bool r = a[3] == "handle" ? Child::hasHandle(a[1], a[2], slot(a[4])) : Child::hasKey(a[1], a[2], keyStr(a[3], a[4]));
        return std::string(r ? "1" : "0");
    });
}
DRV_OP(count) {
    if (a.size() != 3) throw ProtoError("count arity");
    return guarded([&]() { return std::to_string(Child::count(a[1], a[2])); });
}
DRV_OP(list) {
    if (a.size() != 3) throw ProtoError("list arity");
    return guarded([&]() { return listTok(Child::list(a[1], a[2])); });
}
// del <kind> <parent> <how name|id|handle> <key>
DRV_OP(del) {
    if (a.size() != 5) throw ProtoError("del arity");
    return guarded([&]() {
        bool r = a[3] == "handle" ? Child::delHandle(a[1], a[2], slot(a[4])) : Child::delKey(a[1], a[2], keyStr(a[3], a[4]));
        return std::string(r ? "1" : "0");
    });
}
// valid <slot> [deleted] => ok 0|1|none      (`deleted`: the generator's remark that the entity has just been deleted)
DRV_OP(valid) {
    if (a.size() != 2 && a.size() != 3) throw ProtoError("valid arity");
    return guarded([&]() {
        if (!hasSlot(a[1])) return std::string("none");        // a slot a refused fetch never bound
        Ent &e = slot(a[1]);
        if (!isSome(e)) return std::string("none");
        bool v = false;
        switch (e.kind) {
        case 'B': v = e.b.isValidEntity(); break; case 'S': v = e.s.isValidEntity(); break; case 'O': v = e.o.isValidEntity(); break;
        case 'A': v = e.a.isValidEntity(); break; case 'D': v = e.d.isValidEntity(); break; case 'T': v = e.t.isValidEntity(); break;
        case 'M': v = e.m.isValidEntity(); break; case 'G': v = e.g.isValidEntity(); break; case 'R': v = e.r.isValidEntity(); break;
        case 'P': v = e.p.isValidEntity(); break;
        }
        return std::string(v ? "1" : "0");
    });
}
DRV_OP(drop) {
    if (a.size() != 2) throw ProtoError("drop arity");
    state().slots.erase(a[1]);
    return "ok";
}
// idof <slot> => ok <id>      nameof <slot>
DRV_OP(idof) {
    if (a.size() != 2) throw ProtoError("idof arity");
    return guarded([&]() { return entId(slot(a[1])); });
}

// ---- links ----------------------------------------------------------------------------------------------------
// link <rel> <holder> <how id|name|handle> <key>      rel: ref | src | mA | mD | mT | mM (group members)
DRV_OP(link) {
    if (a.size() != 5) throw ProtoError("link arity");
    return guarded([&]() {
        const std::string &rel = a[1]; Ent &h = slot(a[2]); bool byHandle = a[3] == "handle";
        std::string key = byHandle ? "" : keyStr(a[3], a[4]);
        if (rel == "ref") {
            if (h.kind == 'T') { if (byHandle) h.t.addReference(slot(a[4]).a); else h.t.addReference(key); }
            else { if (byHandle) h.m.addReference(slot(a[4]).a); else h.m.addReference(key); }
        } else if (rel == "src") {
            nix::Source s = byHandle ? slot(a[4]).o : nix::Source();
            switch (h.kind) {
            case 'A': if (byHandle) h.a.addSource(s); else h.a.addSource(key); break;
            case 'D': if (byHandle) h.d.addSource(s); else h.d.addSource(key); break;
            case 'T': if (byHandle) h.t.addSource(s); else h.t.addSource(key); break;
            case 'M': if (byHandle) h.m.addSource(s); else h.m.addSource(key); break;
            case 'G': if (byHandle) h.g.addSource(s); else h.g.addSource(key); break;
            default: throw ProtoError("src holder");
            }
        } else if (rel == "mA") { if (byHandle) h.g.addDataArray(slot(a[4]).a); else h.g.addDataArray(key); }
        else if (rel == "mD") { if (byHandle) h.g.addDataFrame(slot(a[4]).d); else h.g.addDataFrame(key); }
        else if (rel == "mT") { if (byHandle) h.g.addTag(slot(a[4]).t); else h.g.addTag(key); }
        else if (rel == "mM") { if (byHandle) h.g.addMultiTag(slot(a[4]).m); else h.g.addMultiTag(key); }
        else throw ProtoError("link rel " + rel);
        return std::string();
    });
}
// setlinks <rel> <holder> [slots] : the bulk setters — Tag / MultiTag::references(vector), EntityWithSources::sources(vector),
// Group::dataArrays / dataFrames / tags / multiTags(vector): "replace what is linked by exactly these"
DRV_OP(setlinks) {
    if (a.size() != 4) throw ProtoError("setlinks arity");
    return guarded([&]() {
        const std::string &rel = a[1]; Ent &h = slot(a[2]);
        std::vector<std::string> sl = tokList(a[3]);
        if (rel == "ref") {
            std::vector<nix::DataArray> v; for (auto &x : sl) v.push_back(x == "$-" ? nix::DataArray() : slot(x).a);
            if (h.kind == 'T') h.t.references(v); else h.m.references(v);
        } else if (rel == "src") {
            std::vector<nix::Source> v; for (auto &x : sl) v.push_back(x == "$-" ? nix::Source() : slot(x).o);
            switch (h.kind) {
            case 'A': h.a.sources(v); break; case 'D': h.d.sources(v); break; case 'T': h.t.sources(v); break;
            case 'M': h.m.sources(v); break; case 'G': h.g.sources(v); break; default: throw ProtoError("src holder");
            }
        } else if (rel == "mA") { std::vector<nix::DataArray> v; for (auto &x : sl) v.push_back(x == "$-" ? nix::DataArray() : slot(x).a); h.g.dataArrays(v); }
        else if (rel == "mD") { std::vector<nix::DataFrame> v; for (auto &x : sl) v.push_back(x == "$-" ? nix::DataFrame() : slot(x).d); h.g.dataFrames(v); }
        else if (rel == "mT") { std::vector<nix::Tag> v; for (auto &x : sl) v.push_back(x == "$-" ? nix::Tag() : slot(x).t); h.g.tags(v); }
        else if (rel == "mM") { std::vector<nix::MultiTag> v; for (auto &x : sl) v.push_back(x == "$-" ? nix::MultiTag() : slot(x).m); h.g.multiTags(v); }
        else throw ProtoError("setlinks rel " + rel);
        return std::string();
    });
}
// unlink <rel> <holder> <how> <key> => ok 0|1
DRV_OP(unlink) {
    if (a.size() != 5) throw ProtoError("unlink arity");
    return guarded([&]() {
        const std::string &rel = a[1]; Ent &h = slot(a[2]); bool byHandle = a[3] == "handle";
        std::string key = byHandle ? "" : keyStr(a[3], a[4]);
        bool r = false;
        if (rel == "ref") {
            if (h.kind == 'T') r = byHandle ? h.t.removeReference(slot(a[4]).a) : h.t.removeReference(key);
            else r = byHandle ? h.m.removeReference(slot(a[4]).a) : h.m.removeReference(key);
        } else if (rel == "src") {
            nix::Source s = byHandle ? slot(a[4]).o : nix::Source();
            switch (h.kind) {
            case 'A': r = byHandle ? h.a.removeSource(s) : h.a.removeSource(key); break;
            case 'D': r = byHandle ? h.d.removeSource(s) : h.d.removeSource(key); break;
            case 'T': r = byHandle ? h.t.removeSource(s) : h.t.removeSource(key); break;
            case 'M': r = byHandle ? h.m.removeSource(s) : h.m.removeSource(key); break;
            case 'G': r = byHandle ? h.g.removeSource(s) : h.g.removeSource(key); break;
            default: throw ProtoError("src holder");
            }
        } else if (rel == "mA") r = byHandle ? h.g.removeDataArray(slot(a[4]).a) : h.g.removeDataArray(key);
        else if (rel == "mD") r = byHandle ? h.g.removeDataFrame(slot(a[4]).d) : h.g.removeDataFrame(key);
        else if (rel == "mT") r = byHandle ? h.g.removeTag(slot(a[4]).t) : h.g.removeTag(key);
        else if (rel == "mM") r = byHandle ? h.g.removeMultiTag(slot(a[4]).m) : h.g.removeMultiTag(key);
        else throw ProtoError("unlink rel " + rel);
        return std::string(r ? "1" : "0");
    });
}
// haslink <rel> <holder> <how> <key> => ok 0|1
DRV_OP(haslink) {
    if (a.size() != 5) throw ProtoError("haslink arity");
    return guarded([&]() {
        const std::string &rel = a[1]; Ent &h = slot(a[2]); bool byHandle = a[3] == "handle";
        std::string key = byHandle ? "" : keyStr(a[3], a[4]);
        bool r = false;
        if (rel == "ref") {
            if (h.kind == 'T') r = byHandle ? h.t.hasReference(slot(a[4]).a) : h.t.hasReference(key);
            else r = byHandle ? h.m.hasReference(slot(a[4]).a) : h.m.hasReference(key);
        } else if (rel == "src") {
            nix::Source s = byHandle ? slot(a[4]).o : nix::Source();
            switch (h.kind) {
            case 'A': r = byHandle ? h.a.hasSource(s) : h.a.hasSource(key); break;
            case 'D': r = byHandle ? h.d.hasSource(s) : h.d.hasSource(key); break;
            case 'T': r = byHandle ? h.t.hasSource(s) : h.t.hasSource(key); break;
            case 'M': r = byHandle ? h.m.hasSource(s) : h.m.hasSource(key); break;
            case 'G': r = byHandle ? h.g.hasSource(s) : h.g.hasSource(key); break;
            default: throw ProtoError("src holder");
            }
        } else if (rel == "mA") r = byHandle ? h.g.hasDataArray(slot(a[4]).a) : h.g.hasDataArray(key);
        else if (rel == "mD") r = byHandle ? h.g.hasDataFrame(slot(a[4]).d) : h.g.hasDataFrame(key);
        else if (rel == "mT") r = byHandle ? h.g.hasTag(slot(a[4]).t) : h.g.hasTag(key);
        else if (rel == "mM") r = byHandle ? h.g.hasMultiTag(slot(a[4]).m) : h.g.hasMultiTag(key);
        else throw ProtoError("haslink rel " + rel);
        return std::string(r ? "1" : "0");
    });
}
// haslinkh <rel> <holder> handle <slot> <linked|foreign> : haslink by handle, with the generator's remark whether that very entity is
// linked there (`foreign`: it is not — e.g. an entity of the same NAME from another block)
DRV_OP(haslinkh) {
    if (a.size() != 6 || a[3] != "handle") throw ProtoError("haslinkh arity");
    Args q(a.begin(), a.begin() + 5); q[0] = "haslink";
    return registry()["haslink"](q);
}
// getlink <rel> <holder> <how name|id|idx> <key> => ok <id|~>
DRV_OP(getlink) {
    if (a.size() != 5) throw ProtoError("getlink arity");
    return guarded([&]() {
        const std::string &rel = a[1]; Ent &h = slot(a[2]); bool byIdx = a[3] == "idx";
        std::string key = byIdx ? "" : keyStr(a[3], a[4]); size_t i = byIdx ? (size_t) tokNat(a[4]) : 0;
        if (rel == "ref") {
            nix::DataArray d = h.kind == 'T' ? (byIdx ? h.t.getReference(i) : h.t.getReference(key)) : (byIdx ? h.m.getReference(i) : h.m.getReference(key));
            return d ? d.id() : std::string("~");
        } else if (rel == "src") {
            nix::Source s;
            switch (h.kind) {
            case 'A': s = byIdx ? h.a.getSource(i) : h.a.getSource(key); break;
            case 'D': s = byIdx ? h.d.getSource(i) : h.d.getSource(key); break;
            case 'T': s = byIdx ? h.t.getSource(i) : h.t.getSource(key); break;
            case 'M': s = byIdx ? h.m.getSource(i) : h.m.getSource(key); break;
            case 'G': s = byIdx ? h.g.getSource(i) : h.g.getSource(key); break;
            default: throw ProtoError("src holder");
            }
            return s ? s.id() : std::string("~");
        } else if (rel == "mA") { nix::DataArray d = byIdx ? h.g.getDataArray(i) : h.g.getDataArray(key); return d ? d.id() : std::string("~"); }
        else if (rel == "mD") { nix::DataFrame d = byIdx ? h.g.getDataFrame(i) : h.g.getDataFrame(key); return d ? d.id() : std::string("~"); }
        else if (rel == "mT") { nix::Tag d = byIdx ? h.g.getTag(i) : h.g.getTag(key); return d ? d.id() : std::string("~"); }
        else if (rel == "mM") { nix::MultiTag d = byIdx ? h.g.getMultiTag(i) : h.g.getMultiTag(key); return d ? d.id() : std::string("~"); }
        throw ProtoError("getlink rel " + rel);
    });
}
// getlinkh <slot> <rel> <holder> <how name|id|idof|idx> <key> => ok <id|~>
// like getlink, and the entity obtained THROUGH THE HOLDER is kept in <slot> (a second route to the same entity)
DRV_OP(getlinkh) {
    if (a.size() != 6) throw ProtoError("getlinkh arity");
    return guarded([&]() {
        const std::string &rel = a[2]; Ent &h = slot(a[3]); bool byIdx = a[4] == "idx";
        std::string key = byIdx ? "" : keyStr(a[4], a[5]); size_t i = byIdx ? (size_t) tokNat(a[5]) : 0;
        Ent e;
        if (rel == "ref") { e.kind = 'A'; e.a = h.kind == 'T' ? (byIdx ? h.t.getReference(i) : h.t.getReference(key)) : (byIdx ? h.m.getReference(i) : h.m.getReference(key)); }
        else if (rel == "src") {
            e.kind = 'O';
            switch (h.kind) {
            case 'A': e.o = byIdx ? h.a.getSource(i) : h.a.getSource(key); break;
            case 'D': e.o = byIdx ? h.d.getSource(i) : h.d.getSource(key); break;
            case 'T': e.o = byIdx ? h.t.getSource(i) : h.t.getSource(key); break;
            case 'M': e.o = byIdx ? h.m.getSource(i) : h.m.getSource(key); break;
            case 'G': e.o = byIdx ? h.g.getSource(i) : h.g.getSource(key); break;
            default: throw ProtoError("src holder");
            }
        } else if (rel == "mA") { e.kind = 'A'; e.a = byIdx ? h.g.getDataArray(i) : h.g.getDataArray(key); }
        else if (rel == "mD") { e.kind = 'D'; e.d = byIdx ? h.g.getDataFrame(i) : h.g.getDataFrame(key); }
        else if (rel == "mT") { e.kind = 'T'; e.t = byIdx ? h.g.getTag(i) : h.g.getTag(key); }
        else if (rel == "mM") { e.kind = 'M'; e.m = byIdx ? h.g.getMultiTag(i) : h.g.getMultiTag(key); }
        else if (rel == "meta") {
            e.kind = 'S';
            switch (h.kind) { case 'B': e.s = h.b.metadata(); break; case 'O': e.s = h.o.metadata(); break; case 'A': e.s = h.a.metadata(); break;
                case 'D': e.s = h.d.metadata(); break; case 'T': e.s = h.t.metadata(); break; case 'M': e.s = h.m.metadata(); break;
                case 'G': e.s = h.g.metadata(); break; default: throw ProtoError("meta holder"); }
        } else throw ProtoError("getlinkh rel " + rel);
        state().slots[a[1]] = e;
        return isSome(e) ? entId(e) : std::string("~");
    });
}
// countlink <rel> <holder>  ;  listlink <rel> <holder>
DRV_OP(countlink) {
    if (a.size() != 3) throw ProtoError("countlink arity");
    return guarded([&]() {
        const std::string &rel = a[1]; Ent &h = slot(a[2]);
        size_t n = 0;
        if (rel == "ref") n = h.kind == 'T' ? h.t.referenceCount() : h.m.referenceCount();
        else if (rel == "src") { switch (h.kind) { case 'A': n = h.a.sourceCount(); break; case 'D': n = h.d.sourceCount(); break; case 'T': n = h.t.sourceCount(); break;
            case 'M': n = h.m.sourceCount(); break; case 'G': n = h.g.sourceCount(); break; default: throw ProtoError("src holder"); } }
        else if (rel == "mA") n = h.g.dataArrayCount(); else if (rel == "mD") n = h.g.dataFrameCount();
        else if (rel == "mT") n = h.g.tagCount(); else if (rel == "mM") n = h.g.multiTagCount();
        else throw ProtoError("countlink rel");
        return std::to_string(n);
    });
}
DRV_OP(listlink) {
    if (a.size() != 3) throw ProtoError("listlink arity");
    return guarded([&]() {
        const std::string &rel = a[1]; Ent &h = slot(a[2]);
        std::vector<std::string> l;
        if (rel == "ref") { if (h.kind == 'T') for (auto &x : h.t.references()) l.push_back(x.id()); else for (auto &x : h.m.references()) l.push_back(x.id()); }
        else if (rel == "src") { switch (h.kind) {
            case 'A': for (auto &x : h.a.sources()) l.push_back(x.id()); break; case 'D': for (auto &x : h.d.sources()) l.push_back(x.id()); break;
            case 'T': for (auto &x : h.t.sources()) l.push_back(x.id()); break; case 'M': for (auto &x : h.m.sources()) l.push_back(x.id()); break;
            case 'G': for (auto &x : h.g.sources()) l.push_back(x.id()); break; default: throw ProtoError("src holder"); } }
        else if (rel == "mA") for (auto &x : h.g.dataArrays()) l.push_back(x.id());
        else if (rel == "mD") for (auto &x : h.g.dataFrames()) l.push_back(x.id());
        else if (rel == "mT") for (auto &x : h.g.tags()) l.push_back(x.id());
        else if (rel == "mM") for (auto &x : h.g.multiTags()) l.push_back(x.id());
        else throw ProtoError("listlink rel");
        return listTok(l);
    });
}
// single <field> <holder> <how id|handle|none> <key>      field: metadata | seclink | positions | extents | featdata
DRV_OP(single) {
    if (a.size() != 5) throw ProtoError("single arity");
    return guarded([&]() {
        const std::string &f = a[1]; Ent &h = slot(a[2]); const std::string &how = a[3];
        std::string key = (how == "id" || how == "idof") ? keyStr(how, a[4]) : "";
        if (f == "metadata") {
            nix::Section s = how == "handle" ? slot(a[4]).s : nix::Section();
#define META(x) { if (how == "none") x.metadata(nix::none); else if (how == "handle") x.metadata(s); else x.metadata(key); }
            switch (h.kind) { case 'B': META(h.b) break; case 'O': META(h.o) break; case 'A': META(h.a) break; case 'D': META(h.d) break;
                case 'T': META(h.t) break; case 'M': META(h.m) break; case 'G': META(h.g) break; default: throw ProtoError("metadata holder"); }
        } else if (f == "seclink") {
            if (how == "none") h.s.link(nix::none); else if (how == "handle") h.s.link(slot(a[4]).s); else h.s.link(key);
        } else if (f == "positions") {
            if (how == "handle") h.m.positions(slot(a[4]).a); else h.m.positions(key);
        } else if (f == "extents") {
            if (how == "none") h.m.extents(nix::none); else if (how == "handle") h.m.extents(slot(a[4]).a); else h.m.extents(key);
        } else if (f == "featdata") {
            if (how == "handle") h.r.data(slot(a[4]).a); else h.r.data(key);
        } else throw ProtoError("single field " + f);
        return std::string();
    });
}
// fld <slot> <field> => ok <value>   ONE getter of the entity in the slot, unguarded: what it throws is the answer
//   any: id name type def created updated | A: dtype shape origin poly label unit dimcount | T: pos ext units | M: units | D: rows cols
DRV_OP(fld) {
    if (a.size() != 3) throw ProtoError("fld arity");
    return guarded([&]() {
        Ent &h = slot(a[1]); const std::string &f = a[2];
#define COMMON(x) { if (f == "id") return x.id(); if (f == "name") return hexStr(x.name()); if (f == "type") return hexStr(x.type()); \
                    if (f == "def") return optS(x.definition()); if (f == "created") return std::to_string((long long) x.createdAt()); \
                    if (f == "updated") return std::to_string((long long) x.updatedAt()); }
        switch (h.kind) {
        case 'B': COMMON(h.b) break; case 'S': COMMON(h.s) break; case 'O': COMMON(h.o) break; case 'G': COMMON(h.g) break;
        case 'A': COMMON(h.a)
            if (f == "dtype") return nix::data_type_to_string(h.a.dataType());
            if (f == "shape") { nix::NDSize s = h.a.dataExtent(); std::vector<std::string> l; for (size_t k = 0; k < s.size(); k++) l.push_back(std::to_string(s[k])); return listTok(l); }
            if (f == "origin") { auto o = h.a.expansionOrigin(); return o ? f64Tok(*o) : std::string("~"); }
            if (f == "poly") return dlist(h.a.polynomCoefficients());
            if (f == "label") return optS(h.a.label());
            if (f == "unit") return optS(h.a.unit());
            if (f == "dimcount") return std::to_string(h.a.dimensionCount());
            break;
        case 'D': COMMON(h.d)
            if (f == "rows") return std::to_string(h.d.rows());
            if (f == "cols") return std::to_string(h.d.columns().size());
            break;
        case 'T': COMMON(h.t)
            if (f == "pos") return dlist(h.t.position());
            if (f == "ext") return dlist(h.t.extent());
            if (f == "units") return slist(h.t.units());
            break;
        case 'M': COMMON(h.m)
            if (f == "units") return slist(h.m.units());
            break;
        default: break;
        }
        throw ProtoError("fld " + a[1] + " " + f);
    });
}
// set <holder> <field> <value|~>
DRV_OP(set) {
    if (a.size() != 4) throw ProtoError("set arity");
    return guarded([&]() {
        Ent &h = slot(a[1]); const std::string &f = a[2]; bool none = a[3] == "~";
#define NAMED(x) { if (f == "type") { x.type(unhexStr(a[3])); return std::string(); } \
                   if (f == "definition") { if (none) x.definition(nix::none); else x.definition(unhexStr(a[3])); return std::string(); } }
        switch (h.kind) {
        case 'B': NAMED(h.b) break; case 'S': NAMED(h.s)
            if (f == "repository") { if (none) h.s.repository(nix::none); else h.s.repository(unhexStr(a[3])); return std::string(); } break;
        case 'O': NAMED(h.o) break;
        case 'A': NAMED(h.a)
            if (f == "label") { if (none) h.a.label(nix::none); else h.a.label(unhexStr(a[3])); return std::string(); }
            if (f == "unit") { if (none) h.a.unit(nix::none); else h.a.unit(unhexStr(a[3])); return std::string(); }
            if (f == "origin") { if (none) h.a.expansionOrigin(nix::none); else h.a.expansionOrigin(tokF64(a[3])); return std::string(); }
            if (f == "poly") { if (none) h.a.polynomCoefficients(nix::none); else { std::vector<double> v; for (auto &x : tokList(a[3])) v.push_back(tokF64(x)); h.a.polynomCoefficients(v); } return std::string(); }
            break;
        case 'D': NAMED(h.d) break;
        case 'T': NAMED(h.t)
            if (f == "position") { std::vector<double> v; for (auto &x : tokList(a[3])) v.push_back(tokF64(x)); h.t.position(v); return std::string(); }
            if (f == "extent") { if (none) h.t.extent(nix::none); else { std::vector<double> v; for (auto &x : tokList(a[3])) v.push_back(tokF64(x)); h.t.extent(v); } return std::string(); }
            if (f == "units") { if (none) h.t.units(nix::none); else { std::vector<std::string> v; for (auto &x : tokList(a[3])) v.push_back(unhexStr(x)); h.t.units(v); } return std::string(); }
            break;
        case 'M': NAMED(h.m)
            if (f == "units") { if (none) h.m.units(nix::none); else { std::vector<std::string> v; for (auto &x : tokList(a[3])) v.push_back(unhexStr(x)); h.m.units(v); } return std::string(); }
            break;
        case 'G': NAMED(h.g) break;
        case 'R': if (f == "linktype") { h.r.linkType(ltOf(a[3])); return std::string(); } break;
        case 'P':
            if (f == "definition") { if (none) h.p.definition(nix::none); else h.p.definition(unhexStr(a[3])); return std::string(); }
            if (f == "unit") { if (none) h.p.unit(nix::none); else h.p.unit(unhexStr(a[3])); return std::string(); }
            break;
        }
        throw ProtoError("set field " + f + " on kind " + std::string(1, h.kind));
    });
}

namespace {
std::string entName(const Ent &e) {
    switch (e.kind) {
    case 'B': return e.b.name(); case 'S': return e.s.name(); case 'O': return e.o.name(); case 'A': return e.a.name(); case 'D': return e.d.name();
    case 'T': return e.t.name(); case 'M': return e.m.name(); case 'G': return e.g.name(); case 'P': return e.p.name();
    case 'R': return e.r.id();      // features have no name: they are addressed by id (or by their data array)
    }
    throw ProtoError("entName");
}
}

// xcheck <kind> <parent> => ok <count> [enumerated ids] | i id name byName byId hasName hasId hasHandle | …
// Every way of reaching every child of one container, for the agreement rules of C03.
DRV_OP(xcheck) {
    if (a.size() != 3) throw ProtoError("xcheck arity");
    return guarded([&]() {
        const std::string &kind = a[1], &par = a[2];
        size_t n = Child::count(kind, par);
        std::string out = std::to_string(n) + " " + safe([&]() { return listTok(Child::list(kind, par)); });
        for (size_t i = 0; i < n; i++) {
            out += " | " + std::to_string(i);
            try {
                Ent e = Child::byIdx(kind, par, i);
                if (!isSome(e)) { out += " ~"; continue; }
                std::string id = entId(e), name = entName(e);
                auto viaKey = [&](const std::string &k) {
                    return safe([&]() { Ent x = Child::byKey(kind, par, k); return isSome(x) ? entId(x) : std::string("~"); });
                };
                out += " " + id + " " + hexStr(name) + " " + viaKey(name) + " " + viaKey(id);
                out += " " + safe([&]() { return std::string(Child::hasKey(kind, par, name) ? "1" : "0"); });
                out += " " + safe([&]() { return std::string(Child::hasKey(kind, par, id) ? "1" : "0"); });
                out += " " + safe([&]() { return std::string(Child::hasHandle(kind, par, e) ? "1" : "0"); });
            } catch (const ProtoError &) { throw; }
            catch (const std::exception &ex) { out += " !" + classify(ex); }
        }
        return out;
    });
}
// xfeat <tag or multi-tag slot> => ok <count> | i featureId dataId dataName byDataName byDataId hasDataName hasDataId | …
// features have no name: besides their id they are addressed through their data array's name or id
DRV_OP(xfeat) {
    if (a.size() != 2) throw ProtoError("xfeat arity");
    return guarded([&]() {
        const std::string par = a[1];
        size_t n = Child::count("R", par);
        std::string out = std::to_string(n);
        for (size_t i = 0; i < n; i++) {
            out += " | " + std::to_string(i);
            try {
                Ent e = Child::byIdx("R", par, i);
                if (!isSome(e)) { out += " ~"; continue; }
                nix::DataArray da = e.r.data();
                if (!da) { out += " " + e.r.id() + " ~"; continue; }
                std::string did = da.id(), dname = da.name();
                auto viaKey = [&](const std::string &k) {
                    return safe([&]() { Ent x = Child::byKey("R", par, k); return isSome(x) ? entId(x) : std::string("~"); });
                };
                out += " " + e.r.id() + " " + did + " " + hexStr(dname) + " " + viaKey(dname) + " " + viaKey(did);
                out += " " + safe([&]() { return std::string(Child::hasKey("R", par, dname) ? "1" : "0"); });
                out += " " + safe([&]() { return std::string(Child::hasKey("R", par, did) ? "1" : "0"); });
            } catch (const ProtoError &) { throw; }
            catch (const std::exception &ex) { out += " !" + classify(ex); }
        }
        return out;
    });
}
// xlinks <rel> <holder> => ok <count> [listed ids] | i id name byName byId hasName hasId hasHandle
// the same for link containers (tag references, entity sources, group members)
DRV_OP(xlinks) {
    if (a.size() != 3) throw ProtoError("xlinks arity");
    return guarded([&]() {
        const std::string &rel = a[1]; Ent &h = slot(a[2]);
        // collect the linked entities by index through the public getters
        std::vector<std::pair<std::string, std::string>> items;   // (id, name)
        std::vector<std::string> listed;
        size_t n = 0;
#define COLLECT(COUNT, GETI, LIST) { n = COUNT; for (auto &x : LIST) listed.push_back(x.id()); \
        for (size_t i = 0; i < n; i++) { auto x = GETI; if (x) items.push_back({x.id(), x.name()}); else items.push_back({"~", ""}); } }
        if (rel == "ref") { if (h.kind == 'T') COLLECT(h.t.referenceCount(), h.t.getReference(i), h.t.references()) else COLLECT(h.m.referenceCount(), h.m.getReference(i), h.m.references()) }
        else if (rel == "src") { switch (h.kind) {
            case 'A': COLLECT(h.a.sourceCount(), h.a.getSource(i), h.a.sources()) break; case 'D': COLLECT(h.d.sourceCount(), h.d.getSource(i), h.d.sources()) break;
            case 'T': COLLECT(h.t.sourceCount(), h.t.getSource(i), h.t.sources()) break; case 'M': COLLECT(h.m.sourceCount(), h.m.getSource(i), h.m.sources()) break;
            case 'G': COLLECT(h.g.sourceCount(), h.g.getSource(i), h.g.sources()) break; default: throw ProtoError("src holder"); } }
        else if (rel == "mA") COLLECT(h.g.dataArrayCount(), h.g.getDataArray(i), h.g.dataArrays())
        else if (rel == "mD") COLLECT(h.g.dataFrameCount(), h.g.getDataFrame(i), h.g.dataFrames())
        else if (rel == "mT") COLLECT(h.g.tagCount(), h.g.getTag(i), h.g.tags())
        else if (rel == "mM") COLLECT(h.g.multiTagCount(), h.g.getMultiTag(i), h.g.multiTags())
        else throw ProtoError("xlinks rel");
        std::string out = std::to_string(n) + " " + listTok(listed);
        for (size_t i = 0; i < items.size(); i++) {
            const std::string &id = items[i].first, &name = items[i].second;
            out += " | " + std::to_string(i) + " " + id + " " + hexStr(name);
            if (id == "~") continue;
            auto getBy = [&](const std::string &k) {
                return safe([&]() {
                    Args q = {"getlink", rel, a[2], "id", hexStr(k)};
                    std::string r = registry()["getlink"](q);
                    return r.substr(0, 3) == "ok " ? r.substr(3) : "!" + r.substr(4);
                });
            };
            auto hasBy = [&](const std::string &k) {
                Args q = {"haslink", rel, a[2], "id", hexStr(k)};
                std::string r = registry()["haslink"](q);
                return r.substr(0, 3) == "ok " ? r.substr(3) : "!" + r.substr(4);
            };
            out += " " + getBy(name) + " " + getBy(id) + " " + hasBy(name) + " " + hasBy(id);
        }
        return out;
    });
}
