// ops of the `units` family (C18)
#include "common.hpp"
using namespace drv;

static std::string build(const std::string &p, const std::string &u, const std::string &n) {
    return p + u + (n.empty() ? "" : "^" + n);
}

// usplit <s> => ok <prefix> <unit> <power>
DRV_OP(usplit) {
    if (a.size() != 2) throw ProtoError("usplit arity");
    return guarded([&]() {
        std::string p, u, pw;
        nix::util::splitUnit(unhexStr(a[1]), p, u, pw);
        return hexStr(p) + " " + hexStr(u) + " " + hexStr(pw);
    });
}
// usplit3 <p> <u> <n> => ok <prefix> <unit> <power>     (string = p + u + ["^" + n])
DRV_OP(usplit3) {
    if (a.size() != 4) throw ProtoError("usplit3 arity");
    return guarded([&]() {
        std::string p, u, pw;
        nix::util::splitUnit(build(unhexStr(a[1]), unhexStr(a[2]), unhexStr(a[3])), p, u, pw);
        return hexStr(p) + " " + hexStr(u) + " " + hexStr(pw);
    });
}
// uissi <s> => ok <atomic> <compound> <si>
DRV_OP(uissi) {
    if (a.size() != 2) throw ProtoError("uissi arity");
    return guarded([&]() {
        std::string s = unhexStr(a[1]);
        std::ostringstream o;
        o << nix::util::isAtomicSIUnit(s) << " " << nix::util::isCompoundSIUnit(s) << " " << nix::util::isSIUnit(s);
        return o.str();
    });
}
// uscalable <a> <b> => ok <ab> <ba>
DRV_OP(uscalable) {
    if (a.size() != 3) throw ProtoError("uscalable arity");
    return guarded([&]() {
        std::string x = unhexStr(a[1]), y = unhexStr(a[2]);
        std::ostringstream o;
        o << nix::util::isScalable(x, y) << " " << nix::util::isScalable(y, x);
        return o.str();
    });
}
// uscale <a> <b> => ok <double> | err Class
DRV_OP(uscale) {
    if (a.size() != 3) throw ProtoError("uscale arity");
    return guarded([&]() { return f64Tok(nix::util::getSIScaling(unhexStr(a[1]), unhexStr(a[2]))); });
}
// uscale3 <p1> <p2> <u> <n> => ok <d12> <d21>
DRV_OP(uscale3) {
    if (a.size() != 5) throw ProtoError("uscale3 arity");
    return guarded([&]() {
        std::string x = build(unhexStr(a[1]), unhexStr(a[3]), unhexStr(a[4]));
        std::string y = build(unhexStr(a[2]), unhexStr(a[3]), unhexStr(a[4]));
        return f64Tok(nix::util::getSIScaling(x, y)) + " " + f64Tok(nix::util::getSIScaling(y, x));
    });
}
// uscalec <p1> <p2> <p3> <u> <n> => ok <d12> <d23> <d13>
DRV_OP(uscalec) {
    if (a.size() != 6) throw ProtoError("uscalec arity");
    return guarded([&]() {
        std::string x = build(unhexStr(a[1]), unhexStr(a[4]), unhexStr(a[5]));
        std::string y = build(unhexStr(a[2]), unhexStr(a[4]), unhexStr(a[5]));
        std::string z = build(unhexStr(a[3]), unhexStr(a[4]), unhexStr(a[5]));
        return f64Tok(nix::util::getSIScaling(x, y)) + " " + f64Tok(nix::util::getSIScaling(y, z)) + " " + f64Tok(nix::util::getSIScaling(x, z));
    });
}
