// ops of the `version` family (C10, header part of C09)
#include "common.hpp"
#include <hdf5.h>
#include <fstream>
#include <cstdio>

using namespace drv;

static nix::FormatVersion ver(const Args &a, size_t i) {
    return nix::FormatVersion({(int) tokInt(a[i]), (int) tokInt(a[i + 1]), (int) tokInt(a[i + 2])});
}

// vcmp a0 a1 a2 b0 b1 b2 => lt le gt ge eq ne
DRV_OP(vcmp) {
    if (a.size() != 7) throw ProtoError("vcmp arity");
    nix::FormatVersion x = ver(a, 1), y = ver(a, 4);
    std::ostringstream o;
    o << (x < y) << " " << (x <= y) << " " << (x > y) << " " << (x >= y) << " " << (x == y) << " " << (x != y);
    return o.str();
}

// vcan l0 l1 l2 f0 f1 f2 => canRead canWrite      (l = library side, f = file side)
DRV_OP(vcan) {
    if (a.size() != 7) throw ProtoError("vcan arity");
    nix::FormatVersion l = ver(a, 1), f = ver(a, 4);
    std::ostringstream o;
    o << l.canRead(f) << " " << l.canWrite(f);
    return o.str();
}

// probe version => a b c   : the version a freshly created file carries and File::version() reports
DRV_OP(probe_version) {
    return guarded([&]() {
        std::string p = scratch("probe_version.nix");
        nix::File f = nix::File::open(p, nix::FileMode::Overwrite);
        std::vector<int> v = f.version();
        std::string fmt = f.format();
        f.close();
        // read the stored attribute with raw HDF5 as well
        hid_t h = H5Fopen(p.c_str(), H5F_ACC_RDONLY, H5P_DEFAULT);
        hid_t at = H5Aopen_by_name(h, "/", "version", H5P_DEFAULT, H5P_DEFAULT);
        hid_t sp = H5Aget_space(at);
        hssize_t n = H5Sget_simple_extent_npoints(sp);
        std::vector<int> raw(n > 0 ? n : 0);
        if (n > 0) H5Aread(at, H5T_NATIVE_INT, raw.data());
        H5Sclose(sp); H5Aclose(at); H5Fclose(h);
        std::remove(p.c_str());
        std::ostringstream o;
        o << "[";
        for (size_t i = 0; i < v.size(); i++) o << (i ? "," : "") << v[i];
        o << "] [";
        for (size_t i = 0; i < raw.size(); i++) o << (i ? "," : "") << raw[i];
        o << "] " << hexStr(fmt);
        return o.str();
    });
}

// Rewrite the header of an existing nix file with raw HDF5.
//   version: list of ints, or "~" to delete the attribute, or "=" to leave it
//   format : string token, "~" delete, "=" leave
//   id     : "~" delete, "=" leave
static void rewrite_header(const std::string &path, const std::string &vtok, const std::string &ftok, const std::string &idtok) {
    hid_t h = H5Fopen(path.c_str(), H5F_ACC_RDWR, H5P_DEFAULT);
    if (h < 0) throw std::runtime_error("harness: cannot reopen file raw");
    hid_t root = H5Gopen2(h, "/", H5P_DEFAULT);
    if (vtok != "=") {
        if (H5Aexists(root, "version") > 0) H5Adelete(root, "version");
        if (vtok != "~") {
            std::vector<std::string> l = tokList(vtok);
            std::vector<int> v;
            for (auto &t : l) v.push_back((int) tokInt(t));
            hsize_t dims[1] = {v.size()};
            hid_t sp = v.empty() ? H5Screate(H5S_NULL) : H5Screate_simple(1, dims, nullptr);
            hid_t at = H5Acreate2(root, "version", H5T_STD_I32LE, sp, H5P_DEFAULT, H5P_DEFAULT);
            if (!v.empty()) H5Awrite(at, H5T_NATIVE_INT, v.data());
            H5Aclose(at); H5Sclose(sp);
        }
    }
    if (ftok != "=") {
        if (H5Aexists(root, "format") > 0) H5Adelete(root, "format");
        if (ftok != "~") {
            std::string s = unhexStr(ftok);
            hid_t ty = H5Tcopy(H5T_C_S1);
            H5Tset_size(ty, H5T_VARIABLE);
            H5Tset_cset(ty, H5T_CSET_UTF8);
            hid_t sp = H5Screate(H5S_SCALAR);
            hid_t at = H5Acreate2(root, "format", ty, sp, H5P_DEFAULT, H5P_DEFAULT);
            const char *c = s.c_str();
            H5Awrite(at, ty, &c);
            H5Aclose(at); H5Sclose(sp); H5Tclose(ty);
        }
    }
    if (idtok == "~") {
        if (H5Aexists(root, "id") > 0) H5Adelete(root, "id");
    }
    H5Gclose(root);
    H5Fclose(h);
}

static nix::FileMode modeOf(const std::string &m) {
    if (m == "ro") return nix::FileMode::ReadOnly;
    if (m == "rw") return nix::FileMode::ReadWrite;
    if (m == "ow") return nix::FileMode::Overwrite;
    throw ProtoError("bad mode " + m);
}

// vgate <version-list|~|=> <format|~|=> <id ~|=> mode force => ok [v] nblocks | err Class
// A fresh file with one block is created, closed, its header rewritten, and then opened as asked.
DRV_OP(vgate) {
    if (a.size() != 6) throw ProtoError("vgate arity");
    std::string p = scratch("vgate.nix");
    {
        nix::File f = nix::File::open(p, nix::FileMode::Overwrite);
        f.createBlock("b", "t");
        f.close();
    }
    rewrite_header(p, a[1], a[2], a[3]);
    nix::FileMode mode = modeOf(a[4]);
    // the flag word as given: Force is bit 0, whatever else is set
    nix::OpenFlags flags = static_cast<nix::OpenFlags>(tokNat(a[5]));
    // vgate2: ANOTHER session on the same file is open meanwhile (forced, read-write) — the gate judges each open on its own
    nix::File other;
    if (a[0] == "vgate2") {
        try { other = nix::File::open(p, nix::FileMode::ReadWrite, "hdf5", nix::Compression::Auto, nix::OpenFlags::Force); } catch (...) {}
    }
    // vgate3: a plain ReadOnly session (where the gate lets one in) is open meanwhile: HDF5 will not open the file read-write then —
    // the request must fail, not come back as something else
    if (a[0] == "vgate3") {
        try { other = nix::File::open(p, nix::FileMode::ReadOnly); } catch (...) {}
    }
    std::string r = guarded([&]() {
        nix::File f = nix::File::open(p, mode, "hdf5", nix::Compression::Auto, flags);
        std::vector<int> v = f.version();
        size_t nb = f.blockCount();
        f.close();
        std::ostringstream o;
        o << "[";
        for (size_t i = 0; i < v.size(); i++) o << (i ? "," : "") << v[i];
        o << "] " << nb;
        return o.str();
    });
    if (other) { try { other.close(); } catch (...) {} }
    std::remove(p.c_str());
    return r;
}
// vgate2 … : the same with a forced read-write session on the file open while the open that is judged takes place
static std::string op_vgate2(const drv::Args &a) { return op_vgate(a); }
static drv::Register reg_vgate2("vgate2", op_vgate2);
static std::string op_vgate3(const drv::Args &a) { return op_vgate(a); }
static drv::Register reg_vgate3("vgate3", op_vgate3);
