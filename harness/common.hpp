// Common definitions of the correspondence harness `nixdrv` (DESIGN.md §2.4, Appendix B).
// The harness calls only the public nix API (plus raw HDF5 to prepare / observe files).
#ifndef NIXDRV_COMMON_HPP
#define NIXDRV_COMMON_HPP

#include <nix.hpp>
#include <nix/util/dataAccess.hpp>
#include <nix/util/util.hpp>
#include <nix/valid/validate.hpp>
#include "hdf5/h5x/H5Exception.hpp"

#include <cstdint>
#include <cstring>
#include <functional>
#include <map>
#include <sstream>
#include <string>
#include <vector>
#include <stdexcept>

namespace drv {

// malformed op line: a bug of the generator / harness, never a library result
struct ProtoError {
    std::string msg;
    explicit ProtoError(const std::string &m) : msg(m) {}
};

typedef std::vector<std::string> Args;
// an op handler returns the result text (what follows " => ")
typedef std::function<std::string(const Args &)> Handler;

std::map<std::string, Handler> &registry();
struct Register {
    Register(const std::string &name, Handler h) { registry()[name] = h; }
};

// callbacks run by the `reset` op
std::vector<std::function<void()>> &resetHooks();

// working directory for scratch files (argv[2] of nixdrv)
std::string &workdir();
std::string scratch(const std::string &name);

// ---- lexical layer -------------------------------------------------------------------
std::string hexStr(const std::string &s);            // "hello" -> "x68656c6c6f"
std::string unhexStr(const std::string &tok);        // inverse; throws on malformed
std::string f64Tok(double d);                        // -> "d3ff0000000000000"
double tokF64(const std::string &tok);
std::vector<std::string> tokList(const std::string &tok);   // "[a,b]" -> {"a","b"}
std::string listTok(const std::vector<std::string> &l);
long long tokInt(const std::string &tok);
unsigned long long tokNat(const std::string &tok);

// ---- error classification (DESIGN.md §2.3(5)) ------------------------------------------
// runs f; returns "ok <text>" or "err <Class>"
std::string guarded(const std::function<std::string()> &f);
std::string classify(const std::exception &e);

} // namespace drv

#define DRV_OP(name) \
    static std::string op_##name(const drv::Args &a); \
    static drv::Register reg_##name(#name, op_##name); \
    static std::string op_##name(const drv::Args &a)

#endif
