// nixdrv: executes one op per input line against the real library and prints `line => result`.
#include "common.hpp"
#include "store.hpp"
#include <fstream>
#include <iostream>
#include <typeinfo>
#include <cxxabi.h>
#include <unistd.h>

namespace drv {

std::map<std::string, Handler> &registry() { static std::map<std::string, Handler> r; return r; }
std::string &workdir() { static std::string w = "."; return w; }
std::string scratch(const std::string &name) { return workdir() + "/" + name; }

static const char *HEX = "0123456789abcdef";

std::string hexStr(const std::string &s) {
    std::string o = "x";
    for (unsigned char c : s) { o.push_back(HEX[c >> 4]); o.push_back(HEX[c & 15]); }
    return o;
}
static int hv(char c) {
    if (c >= '0' && c <= '9') return c - '0';
    if (c >= 'a' && c <= 'f') return c - 'a' + 10;
    if (c >= 'A' && c <= 'F') return c - 'A' + 10;
    throw ProtoError("bad hex digit");
}
std::string unhexStr(const std::string &tok) {
    if (tok.empty() || tok[0] != 'x' || (tok.size() % 2) != 1) throw ProtoError("bad string token " + tok);
    std::string o;
    for (size_t i = 1; i + 1 < tok.size() + 0; i += 2) o.push_back(static_cast<char>(hv(tok[i]) * 16 + hv(tok[i + 1])));
    return o;
}
std::string f64Tok(double d) {
    uint64_t u; std::memcpy(&u, &d, 8);
    char buf[32]; snprintf(buf, sizeof buf, "d%016llx", (unsigned long long) u);
    return buf;
}
double tokF64(const std::string &tok) {
    if (tok.size() != 17 || tok[0] != 'd') throw ProtoError("bad double token " + tok);
    uint64_t u = strtoull(tok.c_str() + 1, nullptr, 16);
    double d; std::memcpy(&d, &u, 8); return d;
}
std::vector<std::string> tokList(const std::string &tok) {
    if (tok.size() < 2 || tok.front() != '[' || tok.back() != ']') throw ProtoError("bad list token " + tok);
    std::vector<std::string> out;
    std::string inner = tok.substr(1, tok.size() - 2);
    if (inner.empty()) return out;
    size_t p = 0;
    while (true) {
        size_t q = inner.find(',', p);
        if (q == std::string::npos) { out.push_back(inner.substr(p)); break; }
        out.push_back(inner.substr(p, q - p)); p = q + 1;
    }
    return out;
}
std::string listTok(const std::vector<std::string> &l) {
    std::string o = "[";
    for (size_t i = 0; i < l.size(); i++) { if (i) o += ","; o += l[i]; }
    return o + "]";
}
long long tokInt(const std::string &tok) {
    try { size_t p; long long v = std::stoll(tok, &p); if (p != tok.size()) throw 1; return v; }
    catch (...) { throw ProtoError("bad int token " + tok); }
}
unsigned long long tokNat(const std::string &tok) {
    try { size_t p; if (tok.empty() || tok[0] == '-') throw 1; unsigned long long v = std::stoull(tok, &p); if (p != tok.size()) throw 1; return v; }
    catch (...) { throw ProtoError("bad nat token " + tok); }
}

std::string classify(const std::exception &e) {
    // most derived first
    if (dynamic_cast<const nix::OutOfBounds *>(&e)) return "OutOfBounds";
    if (dynamic_cast<const nix::InvalidRank *>(&e)) return "InvalidRank";
    if (dynamic_cast<const nix::UninitializedEntity *>(&e)) return "UninitializedEntity";
    if (dynamic_cast<const nix::EmptyString *>(&e)) return "EmptyString";
    if (dynamic_cast<const nix::DuplicateName *>(&e)) return "DuplicateName";
    if (dynamic_cast<const nix::InvalidName *>(&e)) return "InvalidName";
    if (dynamic_cast<const nix::InvalidFile *>(&e)) return "InvalidFile";
    if (dynamic_cast<const nix::UnsortedTicks *>(&e)) return "UnsortedTicks";
    if (dynamic_cast<const nix::InvalidUnit *>(&e)) return "InvalidUnit";
    if (dynamic_cast<const nix::IncompatibleDimensions *>(&e)) return "IncompatibleDimensions";
    if (dynamic_cast<const nix::InvalidDimension *>(&e)) return "InvalidDimension";
    if (dynamic_cast<const nix::ConsistencyError *>(&e)) return "ConsistencyError";
    if (dynamic_cast<const nix::MissingAttr *>(&e)) return "MissingAttr";
    if (dynamic_cast<const nix::hdf5::H5Exception *>(&e)) return "H5Error";
    if (dynamic_cast<const std::out_of_range *>(&e)) return "StdOutOfRange";
    if (dynamic_cast<const std::invalid_argument *>(&e)) return "StdInvalidArgument";
    if (dynamic_cast<const std::runtime_error *>(&e)) return "StdRuntime";
    if (dynamic_cast<const std::bad_alloc *>(&e)) return "BadAlloc";
    if (dynamic_cast<const std::length_error *>(&e)) return "LengthError";
    return "Other";
}

std::string guarded(const std::function<std::string()> &f) {
    try {
        std::string r = f();
        return r.empty() ? "ok" : "ok " + r;
    } catch (const ProtoError &e) {
        return "PROTO-ERROR " + e.msg;
    } catch (const std::exception &e) {
        return "err " + classify(e);
    } catch (...) {
        return "err Unknown";
    }
}

} // namespace drv

namespace drv {
std::vector<std::function<void()>> &resetHooks() { static std::vector<std::function<void()>> v; return v; }
}

// reset: every family drops its state (open files, handles); scratch files are removed by the families
static std::string op_reset(const drv::Args &) {
    for (auto &h : drv::resetHooks()) h();
    return "ok";
}
static drv::Register reg_reset("reset", op_reset);

int main(int argc, char **argv) {
    // nixdrv --dump <file>: the reader process of `dumpx` — open read-only, print the canonical dump, close
    if (argc == 3 && std::string(argv[1]) == "--dump") {
        H5Eset_auto2(H5E_DEFAULT, nullptr, nullptr);
        tzset();
        std::string path = argv[2];
        std::string r = drv::guarded([&]() {
            nix::File f = nix::File::open(path, nix::FileMode::ReadOnly);
            std::string d = drv::store::dumpFile(f);
            f.close();
            return d;
        });
        std::cout << r; std::cout.flush();
        return 0;
    }
    if (argc < 3) { std::cerr << "usage: nixdrv <ops-file|-> <workdir>\n"; return 2; }
    drv::workdir() = argv[2];
    std::istream *in = &std::cin;
    std::ifstream fin;
    if (std::string(argv[1]) != "-") { fin.open(argv[1]); if (!fin) { std::cerr << "cannot open " << argv[1] << "\n"; return 2; } in = &fin; }
    // HDF5 prints diagnostics for handled errors: silence
    H5Eset_auto2(H5E_DEFAULT, nullptr, nullptr);
    // NIXDRV_SYNC=1: announce every op before executing it and flush after it, so that a fatal
    // signal or sanitizer abort leaves the culprit as the last `@` line (used by sanitizer runs
    // and when a buffered run died)
    const bool sync = getenv("NIXDRV_SYNC") != nullptr;
    std::string line;
    while (std::getline(*in, line)) {
        if (line.empty() || line[0] == '#') { std::cout << line << "\n"; continue; }
        drv::Args a;
        { std::istringstream is(line); std::string t; while (is >> t) a.push_back(t); }
        auto it = drv::registry().find(a[0]);
        std::string res;
        if (it == drv::registry().end()) res = "UNKNOWN-OP";
        else {
            if (sync) std::cout << "@ " << line << std::endl;
            try { res = it->second(a); }
            catch (const drv::ProtoError &e) { res = "PROTO-ERROR " + e.msg; }
        }
        std::cout << line << " => " << res << "\n";
        if (sync) std::cout.flush();
    }
    std::cout.flush();
    return 0;
}
