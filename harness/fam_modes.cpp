// ops of the `modes` family (C09): open modes, header defects, read-only sessions.
// The file under test is the store family's file (store.hpp: state().path / state().file), so that content made with
// the store ops (mk / set / link / del / adim / pvalues …) can be reopened in every mode.
#include "common.hpp"
#include "store.hpp"
#include <hdf5.h>
#include <cstdio>
#include <fstream>
#include <sys/stat.h>
#include <unistd.h>

using namespace drv;
using namespace drv::store;

namespace {

uint64_t fnv1(const void *p, size_t n, uint64_t h = 1469598103934665603ULL) {
    const unsigned char *c = static_cast<const unsigned char *>(p);
    for (size_t i = 0; i < n; i++) { h ^= c[i]; h *= 1099511628211ULL; }
    return h;
}
std::string hex64(uint64_t h) { char o[32]; snprintf(o, sizeof o, "%016llx", (unsigned long long) h); return o; }

std::string &path() {
    St &st = state();
    if (st.path.empty()) st.path = scratch("store.nix");
    return st.path;
}
void forget() {
    St &st = state();
    st.slots.clear();
    if (st.file) { try { st.file.close(); } catch (...) {} st.file = nix::File(); }
}
// a directory may have been put at the path
void removePath(const std::string &p) {
    struct stat sb;
    if (lstat(p.c_str(), &sb) != 0) return;
    if (S_ISDIR(sb.st_mode)) rmdir(p.c_str()); else std::remove(p.c_str());
    // the target of a symbolic link planted by `fm_prep symlink`
    std::remove((p + ".real").c_str());
}
// entity handles (and the File object) that outlive a `fm_close keep`: released only after the NEXT open of the path has been tried
std::vector<Ent> keptHandles;
std::vector<nix::File> keptFiles;
struct Init { Init() { resetHooks().push_back([]() { keptHandles.clear(); keptFiles.clear(); St &st = state(); if (!st.path.empty()) removePath(st.path); }); } } init;

// what is at the path: "~" nothing, "dir", or "<size> <fnv of the bytes>"
std::string statTok() {
    const std::string &p = path();
    struct stat sb;
    if (lstat(p.c_str(), &sb) != 0) return "~";
    if (S_ISDIR(sb.st_mode)) return "dir";
    FILE *f = fopen(p.c_str(), "rb");
    if (!f) return "unreadable";
    uint64_t h = 1469598103934665603ULL; size_t total = 0; char buf[65536]; size_t n;
    while ((n = fread(buf, 1, sizeof buf, f)) > 0) { h = fnv1(buf, n, h); total += n; }
    fclose(f);
    return std::to_string(total) + " " + hex64(h);
}

nix::FileMode modeOf(const std::string &m) {
    if (m == "ro") return nix::FileMode::ReadOnly;
    if (m == "rw") return nix::FileMode::ReadWrite;
    if (m == "ow") return nix::FileMode::Overwrite;
    throw ProtoError("bad mode " + m);
}
// a file opened with Force may have no id at all
std::string idTok(const std::string &id) { return id.empty() ? std::string("~") : (id.find(' ') == std::string::npos ? id : hexStr(id)); }
std::string modeTok(nix::FileMode m) { return m == nix::FileMode::ReadOnly ? "ro" : m == nix::FileMode::ReadWrite ? "rw" : "ow"; }

// raw attribute writers -------------------------------------------------------------------------------------------
void rawStrAttr(hid_t loc, const char *name, const std::string &s) {
    hid_t ty = H5Tcopy(H5T_C_S1);
    H5Tset_size(ty, H5T_VARIABLE);
    H5Tset_cset(ty, H5T_CSET_UTF8);
    hid_t sp = H5Screate(H5S_SCALAR);
    hid_t at = H5Acreate2(loc, name, ty, sp, H5P_DEFAULT, H5P_DEFAULT);
    const char *c = s.c_str();
    H5Awrite(at, ty, &c);
    H5Aclose(at); H5Sclose(sp); H5Tclose(ty);
}
void rawIntAttr(hid_t loc, const char *name, const std::vector<int> &v) {
    hsize_t dims[1] = {v.size()};
    hid_t sp = v.empty() ? H5Screate(H5S_NULL) : H5Screate_simple(1, dims, nullptr);
    hid_t at = H5Acreate2(loc, name, H5T_STD_I32LE, sp, H5P_DEFAULT, H5P_DEFAULT);
    if (!v.empty()) H5Awrite(at, H5T_NATIVE_INT, v.data());
    H5Aclose(at); H5Sclose(sp);
}
// one header attribute:  "=" leave, "~" delete, "#…" wrong storage class (a string where ints are expected and vice versa),
// otherwise the value (list of ints for version, hex string for format / id)
void rawHeaderAttr(hid_t root, const char *name, const std::string &tok, bool isVersion) {
    if (tok == "=") return;
    if (H5Aexists(root, name) > 0) H5Adelete(root, name);
    if (tok == "~") return;
    if (tok[0] == '#') {
        if (isVersion) rawStrAttr(root, name, "1.2.0"); else rawIntAttr(root, name, std::vector<int>{7});
        return;
    }
    if (isVersion) {
        std::vector<int> v;
        for (auto &t : tokList(tok)) v.push_back((int) tokInt(t));
        rawIntAttr(root, name, v);
    } else rawStrAttr(root, name, unhexStr(tok));
}

} // namespace

// fm_stat => ok ~ | ok dir | ok <size> <fnv>        what is at the path right now
DRV_OP(fm_stat) {
    return "ok " + statTok();
}

// fm_prep <what> …   put something at the path without the library (every handle is dropped first)
//   missing | empty | junk <n> | dir | symlink | plainh5 | trunc <percent> | hdr <version> <format> <id>
//   | rmgroup <data|metadata> | rmattr <created_at|updated_at|…> | settime <created_at|updated_at> <seconds>
DRV_OP(fm_prep) {
    if (a.size() < 2) throw ProtoError("fm_prep arity");
    forget();
    const std::string &p = path();
    const std::string &what = a[1];
    if (what == "missing") { removePath(p); return "ok"; }
    if (what == "empty") { removePath(p); std::ofstream o(p.c_str(), std::ios::binary); return "ok"; }
    if (what == "junk") {
        if (a.size() != 3) throw ProtoError("fm_prep junk arity");
        removePath(p);
        std::ofstream o(p.c_str(), std::ios::binary);
        size_t n = tokNat(a[2]);
        const std::string text = "this is not an HDF5 file; \x89HDX\r\n\x1a\n nix? ";
        for (size_t i = 0; i < n; i++) o.put(text[i % text.size()]);
        return "ok";
    }
    if (what == "dir") { removePath(p); return mkdir(p.c_str(), 0755) == 0 ? "ok" : "err Harness"; }
    if (what == "symlink") {
        // the same file, reached through a symbolic link: the path the library is given is the link
        struct stat sb;
        if (lstat(p.c_str(), &sb) != 0 || !S_ISREG(sb.st_mode)) return "err Harness";
        std::string real = p + ".real";
        std::remove(real.c_str());
        if (rename(p.c_str(), real.c_str()) != 0) return "err Harness";
        return symlink(real.c_str(), p.c_str()) == 0 ? "ok" : "err Harness";
    }
    if (what == "plainh5") {
        removePath(p);
        hid_t h = H5Fcreate(p.c_str(), H5F_ACC_TRUNC, H5P_DEFAULT, H5P_DEFAULT);
        if (h < 0) return "err Harness";
        hid_t g = H5Gcreate2(h, "some_group", H5P_DEFAULT, H5P_DEFAULT, H5P_DEFAULT);
        hsize_t dims[1] = {4};
        hid_t sp = H5Screate_simple(1, dims, nullptr);
        hid_t ds = H5Dcreate2(g, "numbers", H5T_STD_I32LE, sp, H5P_DEFAULT, H5P_DEFAULT, H5P_DEFAULT);
        int v[4] = {1, 2, 3, 4};
        H5Dwrite(ds, H5T_NATIVE_INT, H5S_ALL, H5S_ALL, H5P_DEFAULT, v);
        H5Dclose(ds); H5Sclose(sp); H5Gclose(g); H5Fclose(h);
        return "ok";
    }
    if (what == "trunc") {
        if (a.size() != 3) throw ProtoError("fm_prep trunc arity");
        struct stat sb;
        if (stat(p.c_str(), &sb) != 0) return "err Harness";
        off_t n = (off_t) ((double) sb.st_size * (double) tokNat(a[2]) / 100.0);
        return truncate(p.c_str(), n) == 0 ? "ok" : "err Harness";
    }
    // the remaining ones edit an existing HDF5 file
    hid_t h = H5Fopen(p.c_str(), H5F_ACC_RDWR, H5P_DEFAULT);
    if (h < 0) return "err Harness";
    hid_t root = H5Gopen2(h, "/", H5P_DEFAULT);
    std::string r = "ok";
    if (what == "hdr") {
        if (a.size() != 5) { H5Gclose(root); H5Fclose(h); throw ProtoError("fm_prep hdr arity"); }
        rawHeaderAttr(root, "version", a[2], true);
        rawHeaderAttr(root, "format", a[3], false);
        rawHeaderAttr(root, "id", a[4], false);
    } else if (what == "rmgroup") {
        if (a.size() != 3) { H5Gclose(root); H5Fclose(h); throw ProtoError("fm_prep rmgroup arity"); }
        if (H5Lexists(root, a[2].c_str(), H5P_DEFAULT) > 0) H5Ldelete(root, a[2].c_str(), H5P_DEFAULT);
    } else if (what == "settime") {
        // an old time stamp, written the way the library writes it (a later open must not refresh it)
        if (a.size() != 4) { H5Gclose(root); H5Fclose(h); throw ProtoError("fm_prep settime arity"); }
        if (H5Aexists(root, a[2].c_str()) > 0) H5Adelete(root, a[2].c_str());
        rawStrAttr(root, a[2].c_str(), nix::util::timeToStr((time_t) tokInt(a[3])));
    } else if (what == "rmattr") {
        if (a.size() != 3) { H5Gclose(root); H5Fclose(h); throw ProtoError("fm_prep rmattr arity"); }
        if (H5Aexists(root, a[2].c_str()) > 0) H5Adelete(root, a[2].c_str());
    } else r = "PROTO-ERROR fm_prep " + what;
    H5Gclose(root);
    H5Fclose(h);
    return r;
}

// fm_open <ro|rw|ow> <none|deflate|auto> <force 0|1>  => ok <file id> <mode in force> <blockCount> <sectionCount> | err Class
DRV_OP(fm_open) {
    if (a.size() != 4) throw ProtoError("fm_open arity");
    forget();
    struct Release { ~Release() { keptHandles.clear(); keptFiles.clear(); } } release;
    return guarded([&]() {
        St &st = state();
        nix::Compression c = a[2] == "deflate" ? nix::Compression::DeflateNormal : a[2] == "none" ? nix::Compression::None : nix::Compression::Auto;
        nix::OpenFlags fl = a[3] == "1" ? nix::OpenFlags::Force : nix::OpenFlags::None;
        st.file = nix::File::open(path(), modeOf(a[1]), "hdf5", c, fl);
        return idTok(st.file.id()) + " " + modeTok(st.file.fileMode()) + " " + std::to_string(st.file.blockCount()) + " " + std::to_string(st.file.sectionCount());
    });
}

// fm_close: forget every entity handle, then close the file (the end of a session)
// fm_close [keep] : close the file; with `keep` the entity handles in the slots (and the File object) stay alive while File::close()
// runs and until the next fm_open has been tried: close() has to close what they hold open, or that open finds the file busy
DRV_OP(fm_close) {
    if (a.size() >= 2 && a[1] == "keep") {
        St &st = state();
        if (st.file) {
            try { st.file.close(); } catch (...) {}
            for (auto &kv : st.slots.m) keptHandles.push_back(kv.second);
            for (auto &kv : st.slots.twin) keptHandles.push_back(kv.second);
            keptFiles.push_back(st.file);
            st.file = nix::File();
        }
    }
    forget();
    return "ok";
}

// fm_snap => ok <size> <fnv of bytes> <file id> <created_at> <updated_at> <format> <version> <blockCount> <sectionCount> <records> <fnv of the entity dump>
//            (file part "~" when no file is open).  The entity dump is the store family's canonical dump without its file record.
DRV_OP(fm_snap) {
    std::string s = statTok();
    St &st = state();
    if (!st.file) return "ok " + s + " ~";
    return guarded([&]() {
        std::string d = registry()["dump"](Args{"dump"});
        if (d.compare(0, 3, "ok ") != 0) return s + " !" + d;
        // "ok n | E F … | E … | E …"
        size_t first = d.find(" | ");
        size_t second = first == std::string::npos ? std::string::npos : d.find(" | ", first + 3);
        std::string tree = second == std::string::npos ? std::string() : d.substr(second + 3);
        size_t nrec = 0;
        for (size_t pos = 0; (pos = tree.find("E ", pos)) != std::string::npos; pos += 2) if (pos == 0 || tree.compare(pos - 3, 3, " | ") == 0) nrec++;
        nix::File &f = st.file;
        std::vector<std::string> vl; for (int v : f.version()) vl.push_back(std::to_string(v));
        return s + " " + idTok(f.id()) + " " + std::to_string((long long) f.createdAt()) + " " + std::to_string((long long) f.updatedAt()) + " " + hexStr(f.format()) + " " + listTok(vl) + " " +
               std::to_string(f.blockCount()) + " " + std::to_string(f.sectionCount()) + " " + std::to_string(nrec) + " " + hex64(fnv1(tree.data(), tree.size()));
    });
}

// fm_try <mut|any> <op line …>  => the wrapped op's own answer.  `mut`: the generator asserts that the call would change the file in a
// writable session; `any`: no such claim (malformed stream).
DRV_OP(fm_try) {
    if (a.size() < 3) throw ProtoError("fm_try arity");
    Args inner(a.begin() + 2, a.end());
    auto it = registry().find(inner[0]);
    if (it == registry().end() || inner[0].compare(0, 3, "fm_") == 0 && inner[0] != "fm_file" && inner[0] != "fm_ent") throw ProtoError("fm_try: op " + inner[0]);
    return it->second(inner);
}

// fm_file <what> [arg]   calls on the File object itself
//   forceid | forceupdated | forcecreated <t> | flush | isopen | close | counts | mode | id | created | updated
DRV_OP(fm_file) {
    if (a.size() < 2) throw ProtoError("fm_file arity");
    return guarded([&]() {
        nix::File &f = state().file;
        const std::string &w = a[1];
        if (w == "forceid") { f.forceId(); return f.id(); }
        if (w == "forceupdated") { f.forceUpdatedAt(); return std::string(); }
        if (w == "forcecreated") { if (a.size() != 3) throw ProtoError("forcecreated arity"); f.forceCreatedAt((time_t) tokInt(a[2])); return std::to_string((long long) f.createdAt()); }
        if (w == "flush") return std::string(f.flush() ? "1" : "0");
        if (w == "isopen") return std::string(f.isOpen() ? "1" : "0");
        if (w == "close") { f.close(); return std::string(); }
        if (w == "counts") return std::to_string(f.blockCount()) + " " + std::to_string(f.sectionCount());
        if (w == "mode") return modeTok(f.fileMode());
        if (w == "id") return f.id();
        if (w == "created") return std::to_string((long long) f.createdAt());
        if (w == "updated") return std::to_string((long long) f.updatedAt());
        throw ProtoError("fm_file " + w);
    });
}

// fm_ent <slot> <what> [arg]   mutating entry points the store grammar has no op for
//   forceupdated | forcecreated <t> | poly [doubles] | origin <double|~> | rows <n> | writecell <row> <col> <Type:value> | values_none
DRV_OP(fm_ent) {
    if (a.size() < 3) throw ProtoError("fm_ent arity");
    return guarded([&]() {
        Ent &e = slot(a[1]);
        const std::string &w = a[2];
#define EACH(CALL) switch (e.kind) { case 'B': e.b.CALL; break; case 'S': e.s.CALL; break; case 'O': e.o.CALL; break; case 'A': e.a.CALL; break; \
        case 'D': e.d.CALL; break; case 'T': e.t.CALL; break; case 'M': e.m.CALL; break; case 'G': e.g.CALL; break; case 'R': e.r.CALL; break; \
        case 'P': e.p.CALL; break; default: throw ProtoError("fm_ent kind"); }
        if (w == "forceupdated") { EACH(forceUpdatedAt()) return std::string(); }
        if (w == "forcecreated") { if (a.size() != 4) throw ProtoError("forcecreated arity"); time_t t = (time_t) tokInt(a[3]); EACH(forceCreatedAt(t)) return std::string(); }
        if (w == "poly") { std::vector<double> v; for (auto &x : tokList(a[3])) v.push_back(tokF64(x)); e.a.polynomCoefficients(v); return std::string(); }
        if (w == "origin") { if (a[3] == "~") e.a.expansionOrigin(nix::none); else e.a.expansionOrigin(tokF64(a[3])); return std::string(); }
        if (w == "rows") { e.d.rows(tokNat(a[3])); return std::string(); }
        if (w == "writecell") {
            if (a.size() != 6) throw ProtoError("writecell arity");
            const std::string &tv = a[5]; size_t p = tv.find(':');
            std::string t = tv.substr(0, p), v = tv.substr(p + 1);
            nix::Variant val = t == "Double" ? nix::Variant(tokF64(v)) : t == "Int32" ? nix::Variant((int32_t) tokInt(v)) : t == "Bool" ? nix::Variant(v != "0") :
                               nix::Variant(unhexStr(v));
            e.d.writeCell(tokNat(a[3]), (unsigned) tokNat(a[4]), val);
            return std::string();
        }
        throw ProtoError("fm_ent " + w);
    });
}
