// ops of the `dimdesc` family (C13): dimension descriptors of ONE data array, its alias dimension and the array fields the
// alias mirrors.  Self-contained: the family owns its file, block, array and data frames (no slots of the store family).
//
//   dd_new <dtype> <shape> <ncols> <nrows>   fresh file, block "b" with array "a" and data frame "f" (ncols columns, nrows rows),
//                                            block "b2" with data frame "g" (2 columns)                       => ok
//   dd_reopen <ro|rw>                        close the file, open it again, fetch the entities again         => ok
//   dd_app set <[labels]> | range <[ticks]> <label|~> <unit|~> | sampled <interval> <label|~> <unit|~> <offset|~> | alias
//          | frame <f|g|-> <col | ~ | n:<xname>>                                                             => ok <index>
//   dd_create set <id> | range <id> <[ticks]> | sampled <id> <interval> | alias     (deprecated create*Dimension)  => ok <index>
//   dd_del                                                                                                   => ok <0|1>
//   dd_set <index> <label|unit|interval|offset|ticks|labels> <value|~>                                        => ok
//   dd_arr <label|unit|data|ext> <value|~>                                                                    => ok
//   dd_ticks <index> <start> <count>                                                                          => ok [doubles]
//   dd_obs                                   => ok <count> <[indices of dimensions()]|!Err> <array> <d0> <d1> … <d(count+1)>
#include "common.hpp"
#include <cstdio>

using namespace drv;

namespace {

struct DD {
    nix::File file;
    std::string path;
    nix::Block b, b2;
    nix::DataArray a;        // the handle the current op goes through
    nix::DataArray h[2];     // two long-lived handles of the one array (separate backend objects)
    unsigned muts = 0;       // mutating calls so far: most go through h[0], every third through h[1]
    int lastMut = 0;
    nix::DataFrame f, g;
};
DD &dd() { static DD s; return s; }

void ddDrop() {
    DD &s = dd();
    s.a = nix::DataArray(); s.h[0] = nix::DataArray(); s.h[1] = nix::DataArray(); s.f = nix::DataFrame(); s.g = nix::DataFrame(); s.b = nix::Block(); s.b2 = nix::Block();
    if (s.file) { try { s.file.close(); } catch (...) {} s.file = nix::File(); }
}
void ddReset() {
    ddDrop();
    DD &s = dd();
    if (!s.path.empty()) std::remove(s.path.c_str());
    s.path.clear();
}
struct Init { Init() { resetHooks().push_back(ddReset); } } init;

nix::DataType dtOf(const std::string &t) {
    static const std::map<std::string, nix::DataType> m = {
        {"Bool", nix::DataType::Bool}, {"Int8", nix::DataType::Int8}, {"Int16", nix::DataType::Int16}, {"Int32", nix::DataType::Int32},
        {"Int64", nix::DataType::Int64}, {"UInt8", nix::DataType::UInt8}, {"UInt16", nix::DataType::UInt16}, {"UInt32", nix::DataType::UInt32},
        {"UInt64", nix::DataType::UInt64}, {"Float", nix::DataType::Float}, {"Double", nix::DataType::Double}, {"String", nix::DataType::String}};
    auto it = m.find(t);
    if (it == m.end()) throw ProtoError("bad dtype " + t);
    return it->second;
}
std::vector<double> dl(const std::string &tok) { std::vector<double> v; for (auto &x : tokList(tok)) v.push_back(tokF64(x)); return v; }
std::vector<std::string> sl(const std::string &tok) { std::vector<std::string> v; for (auto &x : tokList(tok)) v.push_back(unhexStr(x)); return v; }
std::string optArg(const std::string &tok) { return tok == "~" ? std::string() : unhexStr(tok); }

template<typename F> std::string safe(F f) {
    try { return f(); }
    catch (const ProtoError &) { throw; }
    catch (const std::exception &e) { return "!" + classify(e); }
    catch (...) { return "!Unknown"; }
}
std::string optS(const boost::optional<std::string> &o) { return o ? hexStr(*o) : std::string("~"); }
std::string semi(const std::vector<std::string> &l) { std::string t = "("; for (size_t i = 0; i < l.size(); i++) { if (i) t += ";"; t += l[i]; } return t + ")"; }
std::string dsemi(const std::vector<double> &v) { std::vector<std::string> l; for (double d : v) l.push_back(f64Tok(d)); return semi(l); }

// one descriptor, every getter of its kind; a throwing getter prints !Class
std::string descTok(const nix::Dimension &dim) {
    if (!dim) return "~";
    std::string idx = safe([&]() { return std::to_string(dim.index()); });
    nix::DimensionType t;
    try { t = dim.dimensionType(); } catch (const std::exception &e) { return "!" + classify(e); }
    switch (t) {
    case nix::DimensionType::Sample: {
        nix::SampledDimension d = dim.asSampledDimension();
        return "S:" + idx + ":" + safe([&]() { return f64Tok(d.samplingInterval()); }) + ":" +
               safe([&]() { auto o = d.offset(); return o ? f64Tok(*o) : std::string("~"); }) + ":" +
               safe([&]() { return optS(d.unit()); }) + ":" + safe([&]() { return optS(d.label()); });
    }
    case nix::DimensionType::Range: {
        nix::RangeDimension d = dim.asRangeDimension();
        return "R:" + idx + ":" + safe([&]() { return std::string(d.alias() ? "1" : "0"); }) + ":" +
               safe([&]() { return dsemi(d.ticks()); }) + ":" +
               safe([&]() { return optS(d.unit()); }) + ":" + safe([&]() { return optS(d.label()); });
    }
    case nix::DimensionType::Set: {
        nix::SetDimension d = dim.asSetDimension();
        return "T:" + idx + ":" + safe([&]() { std::vector<std::string> l; for (auto &s : d.labels()) l.push_back(hexStr(s)); return semi(l); }) + ":" +
               safe([&]() { return optS(d.label()); });
    }
    case nix::DimensionType::DataFrame: {
        nix::DataFrameDimension d = dim.asDataFrameDimension();
        return "F:" + idx + ":" + safe([&]() { nix::DataFrame df = d.data(); return df ? hexStr(df.name()) : std::string("~"); }) + ":" +
               safe([&]() { auto c = d.columnIndex(); return c ? std::to_string(*c) : std::string("~"); }) + ":" +
               safe([&]() { return hexStr(d.label()); }) + ":" + safe([&]() { return hexStr(d.unit()); });
    }
    }
    return "?";
}

std::string arrTok(const nix::DataArray &a) {
    std::string shape = safe([&]() { nix::NDSize s = a.dataExtent(); std::vector<std::string> l; for (size_t k = 0; k < s.size(); k++) l.push_back(std::to_string(s[k])); return semi(l); });
    std::string data = safe([&]() {
        if (a.dataExtent().size() != 1 || !nix::data_type_is_numeric(a.dataType())) return std::string("-");
        std::vector<double> v; a.getData(v); return dsemi(v);
    });
    return "A:" + safe([&]() { return optS(a.label()); }) + ":" + safe([&]() { return optS(a.unit()); }) + ":" +
           safe([&]() { return nix::data_type_to_string(a.dataType()); }) + ":" + shape + ":" + data;
}

void fetch() {
    DD &s = dd();
    s.b = s.file.getBlock("b"); s.b2 = s.file.getBlock("b2");
    s.h[0] = s.b.getDataArray("a"); s.h[1] = s.b.getDataArray("a"); s.a = s.h[0];
    s.f = s.b.getDataFrame("f"); s.g = s.b2.getDataFrame("f");
}

// Two handles of one array must be indistinguishable: state cached in a handle (a count, an extent) would go stale when the
// other handle mutates.  Mutations alternate between the handles, every observation is made through both.
nix::DataArray &mutHandle() {
    DD &s = dd();
    s.lastMut = (s.muts++ % 3 == 2) ? 1 : 0;
    s.a = s.h[s.lastMut];
    return s.a;
}

}  // namespace

DRV_OP(dd_new) {
    if (a.size() != 5) throw ProtoError("dd_new arity");
    return guarded([&]() {
        ddReset();
        DD &s = dd();
        s.path = scratch("dimdesc.nix");
        s.file = nix::File::open(s.path, nix::FileMode::Overwrite);
        s.b = s.file.createBlock("b", "t"); s.b2 = s.file.createBlock("b2", "t");
        std::vector<std::string> l = tokList(a[2]);
        nix::NDSize shape(l.size());
        for (size_t i = 0; i < l.size(); i++) shape[i] = tokNat(l[i]);
        s.h[0] = s.b.createDataArray("a", "t", dtOf(a[1]), shape);
        s.h[1] = s.b.getDataArray("a"); s.a = s.h[0]; s.muts = 0; s.lastMut = 0;
        static const char *units[] = {"mV", "s", "", "Hz"};
        static const nix::DataType types[] = {nix::DataType::Double, nix::DataType::Int64, nix::DataType::String, nix::DataType::Double};
        std::vector<nix::Column> cols;
        size_t nc = tokNat(a[3]);
        for (size_t i = 0; i < nc; i++) cols.push_back({"c" + std::to_string(i), units[i % 4], types[i % 4]});
        s.f = s.b.createDataFrame("f", "t", cols);
        s.f.rows(tokNat(a[4]));
        s.g = s.b2.createDataFrame("f", "t", {{"x", "ms", nix::DataType::Double}, {"y", "", nix::DataType::Int64}});
        return std::string();
    });
}

DRV_OP(dd_reopen) {
    if (a.size() != 2) throw ProtoError("dd_reopen arity");
    return guarded([&]() {
        DD &s = dd();
        if (s.path.empty()) throw ProtoError("dd_reopen without dd_new");
        ddDrop();
        s.file = nix::File::open(s.path, a[1] == "ro" ? nix::FileMode::ReadOnly : nix::FileMode::ReadWrite);
        fetch();
        return std::string();
    });
}

DRV_OP(dd_app) {
    if (a.size() < 2) throw ProtoError("dd_app arity");
    return guarded([&]() {
        nix::DataArray &da = mutHandle();
        const std::string &k = a[1];
        nix::Dimension d;
        if (k == "set") {
            if (a.size() != 3) throw ProtoError("dd_app set arity");
            d = da.appendSetDimension(sl(a[2]));
        } else if (k == "range") {
            if (a.size() != 5) throw ProtoError("dd_app range arity");
            d = da.appendRangeDimension(dl(a[2]), optArg(a[3]), optArg(a[4]));
        } else if (k == "sampled") {
            if (a.size() != 6) throw ProtoError("dd_app sampled arity");
            d = da.appendSampledDimension(tokF64(a[2]), optArg(a[3]), optArg(a[4]), a[5] == "~" ? 0.0 : tokF64(a[5]));
        } else if (k == "alias") {
            d = da.appendAliasRangeDimension();
        } else if (k == "frame") {
            if (a.size() != 4) throw ProtoError("dd_app frame arity");
            nix::DataFrame fr = a[2] == "f" ? dd().f : a[2] == "g" ? dd().g : nix::DataFrame();
            if (a[3] == "~") d = da.appendDataFrameDimension(fr);
            else if (a[3].compare(0, 2, "n:") == 0) d = da.appendDataFrameDimension(fr, unhexStr(a[3].substr(2)));
            else d = da.appendDataFrameDimension(fr, (unsigned) tokNat(a[3]));
        } else throw ProtoError("dd_app kind " + k);
        return std::to_string(d.index());
    });
}

#pragma GCC diagnostic push
#pragma GCC diagnostic ignored "-Wdeprecated-declarations"
DRV_OP(dd_create) {
    if (a.size() < 2) throw ProtoError("dd_create arity");
    return guarded([&]() {
        nix::DataArray &da = mutHandle();
        const std::string &k = a[1];
        nix::Dimension d;
        if (k == "set") { if (a.size() != 3) throw ProtoError("dd_create set arity"); d = da.createSetDimension(tokNat(a[2])); }
        else if (k == "range") { if (a.size() != 4) throw ProtoError("dd_create range arity"); d = da.createRangeDimension(tokNat(a[2]), dl(a[3])); }
        else if (k == "sampled") { if (a.size() != 4) throw ProtoError("dd_create sampled arity"); d = da.createSampledDimension(tokNat(a[2]), tokF64(a[3])); }
        else if (k == "alias") d = da.createAliasRangeDimension();
        else throw ProtoError("dd_create kind " + k);
        return std::to_string(d.index());
    });
}
#pragma GCC diagnostic pop

DRV_OP(dd_del) {
    return guarded([&]() { return std::string(mutHandle().deleteDimensions() ? "1" : "0"); });
}

DRV_OP(dd_set) {
    if (a.size() != 4) throw ProtoError("dd_set arity");
    return guarded([&]() {
        nix::Dimension d = mutHandle().getDimension(tokNat(a[1]));
        const std::string &f = a[2]; bool none = a[3] == "~";
        switch (d.dimensionType()) {
        case nix::DimensionType::Sample: {
            nix::SampledDimension s = d.asSampledDimension();
            if (f == "interval") s.samplingInterval(tokF64(a[3]));
            else if (f == "offset") { if (none) s.offset(nix::none); else s.offset(tokF64(a[3])); }
            else if (f == "unit") { if (none) s.unit(nix::none); else s.unit(unhexStr(a[3])); }
            else if (f == "label") { if (none) s.label(nix::none); else s.label(unhexStr(a[3])); }
            else throw std::invalid_argument("field not applicable");
            break; }
        case nix::DimensionType::Range: {
            nix::RangeDimension r = d.asRangeDimension();
            if (f == "ticks") r.ticks(dl(a[3]));
            else if (f == "unit") { if (none) r.unit(nix::none); else r.unit(unhexStr(a[3])); }
            else if (f == "label") { if (none) r.label(nix::none); else r.label(unhexStr(a[3])); }
            else throw std::invalid_argument("field not applicable");
            break; }
        case nix::DimensionType::Set: {
            nix::SetDimension s = d.asSetDimension();
            if (f == "labels") { if (none) s.labels(nix::none); else s.labels(sl(a[3])); }
            else if (f == "label") { if (none) s.label(nix::none); else s.label(unhexStr(a[3])); }
            else throw std::invalid_argument("field not applicable");
            break; }
        default: throw std::invalid_argument("field not applicable");
        }
        return std::string();
    });
}

DRV_OP(dd_arr) {
    if (a.size() != 3) throw ProtoError("dd_arr arity");
    return guarded([&]() {
        nix::DataArray &da = mutHandle();
        const std::string &f = a[1]; bool none = a[2] == "~";
        if (f == "label") { if (none) da.label(nix::none); else da.label(unhexStr(a[2])); }
        else if (f == "unit") { if (none) da.unit(nix::none); else da.unit(unhexStr(a[2])); }
        else if (f == "data") { std::vector<double> v = dl(a[2]); da.setData(v); }
        else if (f == "ext") {
            std::vector<std::string> l = tokList(a[2]);
            nix::NDSize s(l.size());
            for (size_t i = 0; i < l.size(); i++) s[i] = tokNat(l[i]);
            da.dataExtent(s);
        } else throw ProtoError("dd_arr field " + f);
        return std::string();
    });
}

DRV_OP(dd_ticks) {
    if (a.size() != 4) throw ProtoError("dd_ticks arity");
    return guarded([&]() {
        nix::RangeDimension r = dd().h[1 - dd().lastMut].getDimension(tokNat(a[1])).asRangeDimension();
        return dsemi(r.ticks(tokNat(a[2]), (size_t) tokNat(a[3])));
    });
}

namespace {
std::string obsOf(const nix::DataArray &da) {
    nix::ndsize_t n = da.dimensionCount();
    std::string idx = safe([&]() { std::vector<std::string> l; for (auto &d : da.dimensions()) l.push_back(std::to_string(d.index())); return listTok(l); });
    std::string out = std::to_string(n) + " " + idx + " " + arrTok(da);
    for (nix::ndsize_t i = 0; i <= n + 1; i++) {
        out += " " + safe([&]() { return descTok(da.getDimension(i)); });
    }
    return out;
}
}

DRV_OP(dd_obs) {
    return guarded([&]() {
        DD &s = dd();
        std::string o0 = obsOf(s.h[0]), o1 = obsOf(s.h[1]);
        // when the two handles disagree, report the view of the one that did not make the last change
        return o0 == o1 ? o0 : (s.lastMut == 0 ? o1 : o0);
    });
}
