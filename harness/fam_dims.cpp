// ops on dimension descriptors (C13), property values (C14) and a few setters used by the reject family (C08)
#include "common.hpp"
#include "store.hpp"
#include <map>

using namespace drv;
using namespace drv::store;

namespace {
std::vector<double> dl(const std::string &tok) { std::vector<double> v; for (auto &x : tokList(tok)) v.push_back(tokF64(x)); return v; }
std::vector<std::string> sl(const std::string &tok) { std::vector<std::string> v; for (auto &x : tokList(tok)) v.push_back(unhexStr(x)); return v; }
}

// adim <array slot> sampled <interval> <label|~> <unit|~> <offset|~>
// adim <array slot> range [ticks] <label|~> <unit|~>
// adim <array slot> set [labels]
// adim <array slot> alias
// adim <array slot> frame <df slot> <column index>
DRV_OP(adim) {
    if (a.size() < 3) throw ProtoError("adim arity");
    return guarded([&]() {
        nix::DataArray &da = slot(a[1]).a;
        const std::string &k = a[2];
        nix::Dimension d;
        if (k == "sampled") {
            if (a.size() != 7) throw ProtoError("adim sampled arity");
            d = da.appendSampledDimension(tokF64(a[3]), a[4] == "~" ? "" : unhexStr(a[4]), a[5] == "~" ? "" : unhexStr(a[5]), a[6] == "~" ? 0.0 : tokF64(a[6]));
        } else if (k == "range") {
            if (a.size() != 6) throw ProtoError("adim range arity");
            d = da.appendRangeDimension(dl(a[3]), a[4] == "~" ? "" : unhexStr(a[4]), a[5] == "~" ? "" : unhexStr(a[5]));
        } else if (k == "set") {
            if (a.size() != 4) throw ProtoError("adim set arity");
            d = da.appendSetDimension(sl(a[3]));
        } else if (k == "alias") {
            d = da.appendAliasRangeDimension();
        } else if (k == "frame") {
            // adim <array> frame <frame slot|$-> <column index | ~ (the overload without a column) | n:<hex name>>
            if (a.size() != 5) throw ProtoError("adim frame arity");
            nix::DataFrame fr = a[3] == "$-" ? nix::DataFrame() : slot(a[3]).d;
            if (a[4] == "~") d = da.appendDataFrameDimension(fr);
            else if (a[4].compare(0, 2, "n:") == 0) d = da.appendDataFrameDimension(fr, unhexStr(a[4].substr(2)));
            else d = da.appendDataFrameDimension(fr, (unsigned) tokNat(a[4]));
        } else throw ProtoError("adim kind " + k);
        return std::to_string(d.index());
    });
}
namespace {
// dimension handles kept across operations (per array slot, for the file session they were fetched in)
struct HeldDims { nix::File file; std::vector<nix::Dimension> dims; };
std::map<std::string, HeldDims> &heldDims() { static std::map<std::string, HeldDims> m; return m; }
struct InitHeld { InitHeld() { resetHooks().push_back([]() { heldDims().clear(); }); } } initHeld;
}
// ddims <array slot> => ok 0|1  (deleteDimensions)
DRV_OP(ddims) {
    if (a.size() != 2) throw ProtoError("ddims arity");
    heldDims().erase(a[1]);
    return guarded([&]() { return std::string(slot(a[1]).a.deleteDimensions() ? "1" : "0"); });
}
// xdim <array slot> : the descriptors of the array through dimension handles KEPT from an earlier xdim (same file session, same
// number of descriptors) against handles fetched now: nothing may be remembered in a handle
//   => ok held <n> (handles fetched and kept) | ok same <n> | ok DIFFER <index> held=<hex> fresh=<hex>
DRV_OP(xdim) {
    if (a.size() != 2) throw ProtoError("xdim arity");
    return guarded([&]() {
        nix::DataArray &da = slot(a[1]).a;
        size_t n = (size_t) da.dimensionCount();
        auto it = heldDims().find(a[1]);
        if (it == heldDims().end() || !(it->second.file == state().file) || it->second.dims.size() != n) {
            HeldDims h; h.file = state().file;
            for (size_t i = 1; i <= n; i++) h.dims.push_back(da.getDimension(i));
            // ask each once: a handle that remembers what it read has something to remember now
            for (auto &d : h.dims) { try { (void) dimTok(d); } catch (...) {} }
            heldDims()[a[1]] = h;
            return "held " + std::to_string(n);
        }
        for (size_t i = 1; i <= n; i++) {
            std::string held, fresh;
            try { held = dimTok(it->second.dims[i - 1]); } catch (const std::exception &e) { held = std::string("!") + classify(e); }
            try { fresh = dimTok(da.getDimension(i)); } catch (const std::exception &e) { fresh = std::string("!") + classify(e); }
            if (held != fresh) return "DIFFER " + std::to_string(i) + " held=" + hexStr(held) + " fresh=" + hexStr(fresh);
        }
        return "same " + std::to_string(n);
    });
}
// dims <array slot> => ok <count> [descriptors]
DRV_OP(dims) {
    if (a.size() != 2) throw ProtoError("dims arity");
    return guarded([&]() {
        nix::DataArray &da = slot(a[1]).a;
        std::vector<std::string> l;
        std::vector<std::string> idx;
        for (auto &d : da.dimensions()) { l.push_back(dimTok(d)); idx.push_back(std::to_string(d.index())); }
        return std::to_string(da.dimensionCount()) + " " + listTok(idx) + " " + listTok(l);
    });
}
// gdim <array slot> <index> => ok <descriptor>
DRV_OP(gdim) {
    if (a.size() != 3) throw ProtoError("gdim arity");
    return guarded([&]() { return dimTok(slot(a[1]).a.getDimension(tokNat(a[2]))); });
}
// sdim <array slot> <index> <field> <value|~>   fields: interval offset unit label ticks labels
DRV_OP(sdim) {
    if (a.size() != 5) throw ProtoError("sdim arity");
    return guarded([&]() {
        nix::Dimension d = slot(a[1]).a.getDimension(tokNat(a[2]));
        const std::string &f = a[3]; bool none = a[4] == "~";
        switch (d.dimensionType()) {
        case nix::DimensionType::Sample: {
            nix::SampledDimension s = d.asSampledDimension();
            if (f == "interval") s.samplingInterval(tokF64(a[4]));
            else if (f == "offset") { if (none) s.offset(nix::none); else s.offset(tokF64(a[4])); }
            else if (f == "unit") { if (none) s.unit(nix::none); else s.unit(unhexStr(a[4])); }
            else if (f == "label") { if (none) s.label(nix::none); else s.label(unhexStr(a[4])); }
            else throw std::invalid_argument("field not applicable");
            break; }
        case nix::DimensionType::Range: {
            nix::RangeDimension r = d.asRangeDimension();
            if (f == "ticks") r.ticks(dl(a[4]));
            else if (f == "unit") { if (none) r.unit(nix::none); else r.unit(unhexStr(a[4])); }
            else if (f == "label") { if (none) r.label(nix::none); else r.label(unhexStr(a[4])); }
            else throw std::invalid_argument("field not applicable");
            break; }
        case nix::DimensionType::Set: {
            nix::SetDimension s = d.asSetDimension();
            if (f == "labels") { if (none) s.labels(nix::none); else s.labels(sl(a[4])); }
            else if (f == "label") { if (none) s.label(nix::none); else s.label(unhexStr(a[4])); }
            else throw std::invalid_argument("field not applicable");
            break; }
        default: throw std::invalid_argument("field not applicable");
        }
        return std::string();
    });
}
// da_setext <array slot> <shape>
DRV_OP(da_setext) {
    if (a.size() != 3) throw ProtoError("da_setext arity");
    return guarded([&]() {
        std::vector<std::string> l = tokList(a[2]);
        nix::NDSize s(l.size());
        for (size_t i = 0; i < l.size(); i++) s[i] = tokNat(l[i]);
        slot(a[1]).a.dataExtent(s);
        return std::string();
    });
}
// da_fill <array slot> [doubles]   : whole-array write of a 1-d vector of doubles through the templated setData (resizes)
DRV_OP(da_fill) {
    if (a.size() != 3) throw ProtoError("da_fill arity");
    return guarded([&]() { std::vector<double> v = dl(a[2]); slot(a[1]).a.setData(v); return std::string(); });
}
// da_fills <array slot> [strings]  : the same with a vector of strings
DRV_OP(da_fills) {
    if (a.size() != 3) throw ProtoError("da_fills arity");
    return guarded([&]() { std::vector<std::string> v = sl(a[2]); slot(a[1]).a.setData(v); return std::string(); });
}
// da_append <array slot> [doubles]  /  da_appends <array slot> [strings] : appendData along axis 0 of a 1-d array
DRV_OP(da_append) {
    if (a.size() != 3) throw ProtoError("da_append arity");
    return guarded([&]() { std::vector<double> v = dl(a[2]); slot(a[1]).a.appendData(nix::DataType::Double, v.data(), nix::NDSize({v.size()}), 0); return std::string(); });
}
DRV_OP(da_appends) {
    if (a.size() != 3) throw ProtoError("da_appends arity");
    return guarded([&]() { std::vector<std::string> v = sl(a[2]); slot(a[1]).a.appendData(nix::DataType::String, v.data(), nix::NDSize({v.size()}), 0); return std::string(); });
}
// da_read1 <array slot> => ok [doubles]  (whole array as doubles, 1-d)
DRV_OP(da_read1) {
    if (a.size() != 2) throw ProtoError("da_read1 arity");
    return guarded([&]() {
        std::vector<double> v; slot(a[1]).a.getData(v);
        std::vector<std::string> l; for (double d : v) l.push_back(f64Tok(d));
        return listTok(l);
    });
}

namespace {
nix::Variant variantOf(const std::string &tok) {
    size_t p = tok.find(':');
    if (p == std::string::npos) throw ProtoError("bad typed value " + tok);
    std::string t = tok.substr(0, p), v = tok.substr(p + 1);
    if (t == "Bool") return nix::Variant(v != "0");
    if (t == "Int32") return nix::Variant((int32_t) tokInt(v));
    if (t == "UInt32") return nix::Variant((uint32_t) tokNat(v));
    if (t == "Int64") return nix::Variant((int64_t) tokInt(v));
    if (t == "UInt64") return nix::Variant((uint64_t) tokNat(v));
    if (t == "Double") return nix::Variant(tokF64(v));
    if (t == "String") return nix::Variant(unhexStr(v));
    throw ProtoError("bad value type " + t);
}
}
// pvalues <prop slot> [Type:value,…] | ~     (~ = delete the values)
DRV_OP(pvalues) {
    if (a.size() != 3) throw ProtoError("pvalues arity");
    return guarded([&]() {
        nix::Property &p = slot(a[1]).p;
        if (a[2] == "~") { p.values(nix::none); return std::string(); }
        std::vector<nix::Variant> vs;
        for (auto &x : tokList(a[2])) vs.push_back(variantOf(x));
        p.values(vs);
        return std::string();
    });
}
// pget <prop slot> => ok <dtype> <count> [values] <unit|~> <uncertainty|~> <definition|~>
DRV_OP(pget) {
    if (a.size() != 2) throw ProtoError("pget arity");
    return guarded([&]() {
        nix::Property &p = slot(a[1]).p;
        std::vector<std::string> l; for (auto &v : p.values()) l.push_back(variantTok(v));
        auto u = p.unit(); auto unc = p.uncertainty(); auto def = p.definition();
        return nix::data_type_to_string(p.dataType()) + " " + std::to_string(p.valueCount()) + " " + listTok(l) + " " +
               (u ? hexStr(*u) : std::string("~")) + " " + (unc ? f64Tok(*unc) : std::string("~")) + " " + (def ? hexStr(*def) : std::string("~"));
    });
}
// pset <prop slot> <unit|uncertainty|definition> <value|~>
DRV_OP(pset) {
    if (a.size() != 4) throw ProtoError("pset arity");
    return guarded([&]() {
        nix::Property &p = slot(a[1]).p; bool none = a[3] == "~";
        if (a[2] == "unit") { if (none) p.unit(nix::none); else p.unit(unhexStr(a[3])); }
        else if (a[2] == "uncertainty") { if (none) p.uncertainty(nix::none); else p.uncertainty(tokF64(a[3])); }
        else if (a[2] == "definition") { if (none) p.definition(nix::none); else p.definition(unhexStr(a[3])); }
        else throw ProtoError("pset field");
        return std::string();
    });
}
// mkpv <slot> <section slot> <name> [Type:value,…]   : createProperty(name, values)
DRV_OP(mkpv) {
    if (a.size() != 5) throw ProtoError("mkpv arity");
    return guarded([&]() {
        std::vector<nix::Variant> vs;
        for (auto &x : tokList(a[4])) vs.push_back(variantOf(x));
        Ent e; e.kind = 'P';
        e.p = vs.size() == 1 ? slot(a[2]).s.createProperty(unhexStr(a[3]), vs[0]) : slot(a[2]).s.createProperty(unhexStr(a[3]), vs);
        state().slots[a[1]] = e;
        return e.p.id();
    });
}
