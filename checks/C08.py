"""C08 — a rejected operation leaves no trace."""
from vlib.tok import f64, s as S, lst
from checks.storegen import World, PLAIN, NAMES, BAD_NAMES, BLOCK_KINDS, REL_OF, with_hdump
from checks import C04
ID = 'C08'
TECHNIQUE = 'Lean 4 proof over a hand-written store model + tables translated from the source on every run (guards of the create functions, exception handlers) + differential correspondence (trace validation) with the built library'
THEOREMS = ['Nix.Guards.create_guards_are_in_place', 'Nix.Guards.type_checked_with_the_name', 'Nix.Guards.modelled_creates_are_tabulated', 'Nix.St.setLinks_refused_vector_no_trace', 'Nix.St.setLinks_uninitialised_no_trace', 'Nix.St.bulkValidate_ok_all_initialised', 'Nix.St.setLinks_sys', 'Nix.St.createBlock_rejected', 'Nix.St.createSectionIn_rejected', 'Nix.St.createSourceIn_rejected', 'Nix.St.createInBlock_rejected', 'Nix.St.createDataArray_rejected', 'Nix.St.createDataFrame_rejected', 'Nix.St.createTag_rejected', 'Nix.St.createGroup_rejected', 'Nix.St.createSource_rejected', 'Nix.St.createProperty_rejected', 'Nix.St.setSectionLink_rejected', 'Nix.St.setArrayLink_rejected', 'Nix.St.setExtents_rejected', 'Nix.St.setNonEmpty_rejected', 'Nix.St.addReference_rejected', 'Nix.St.addSource_rejected', 'Nix.St.addMember_rejected', 'Nix.St.openGroupCreate_fresh', 'Nix.St.emptyContainer_unobservable', 'Nix.St.rejected_no_trace_partial', 'Nix.St.createInBlock_extends', 'Nix.St.blkFind_id_after_extend', 'Nix.St.blkFind_id_transport', 'Nix.St.createMultiTag_rejected', 'Nix.St.createFeature_rejected', 'Nix.St.rejected_no_trace', 'Nix.St.wf_of_schema', 'Nix.St.rejected_no_trace_schema', 'Nix.St.rejected_no_trace_reachable']
LEAN_MODULES = ['NixModel.Props.C08Guards', 'NixModel.Gen.CreateGuards', 'NixModel.Props.C08Bulk', 'NixModel.Props.C08', 'NixModel.Props.C08Full', 'NixModel.Props.C08Schema']
RULE = ('a reachable file state from the random tree generator, then a batch of calls that must be refused, each bracketed by two dumps: duplicate '
        'name (every container kind), empty / invalid name, empty type, references / positions / extents / features / sources / members / metadata / '
        'section links to entities that do not exist, live in another block or are uninitialised, mismatching positions / extents shapes, out-of-range '
        'indices, unsorted ticks, non-SI units, non-positive sampling intervals, unsupported element types, mixed-type property values. A call the '
        'library accepts is not a rejection and is not judged. non-trivial = a dump pair around a refused call; distinct = distinct op text.')
TRUSTED = ['harness dump: everything the public getters expose']
LEVEL_TEXT = ("Lean 4 theorems about the store model, for every store and every argument: an entry point that answers with an exception returns the store it was given — create (block, section, source, group, data array, data frame, tag, property), the single-valued links (metadata, section link, positions, extents, feature data: the target is resolved BEFORE the old link is dropped), the refusing setters; the three add entry points (tag reference, entity source, group member) may leave one new EMPTY container group behind, which no getter can tell from its absence (count, enumeration and every index agree, proved). rejected_no_trace covers EVERY entry point of the model; for createMultiTag / createFeature (which look the array up a second time after the entity group has been made) it is proved that creating the entity only extends the store and that a lookup by id that succeeded keeps succeeding in an extended store, under provisos true of every state the library produces (handles denote objects with a name and a well-formed id, the arrays container holds groups only, the new feature id is fresh). On every rejected call of every generated history the library's dump before and after is compared (the property relation itself, on the implementation), and the model must predict the refusal and its exception class.")
LEVEL_NOTE = ("Trusted: Lean kernel; the abstract HDF5 store of lean/NixModel/Store.lean (objects, attributes, ordered hard links, removeAllLinks = every link to the object goes, creation-order index) and the hand-written entity layer lean/NixModel/Entities.lean, both validated on every run: the model replays every op of every generated history and must predict the library's answer (result / exception class, looked-up ids, counts, enumerations, cross-checks) and, at every dump, the whole observable tree (observe); ids and creation times are taken from the trace; fields the store model does not carry (array data, dimension descriptors, calibration, property values, row counts) are compared between dumps of the library only; harness dump = every public getter of every entity.")
ASSUMPTIONS = []

def rejected_calls(w, rng):
    """yield op lines that ought to be refused, given the world w"""
    out = []
    blocks = w.alive('B')
    # duplicates and bad names in every container
    for kind in ['B', 'S']:
        for e in w.alive(kind, parent='$F')[:2]:
            out.append('mk $x %s $F %s %s' % (kind, S(e.name), S('t')))
    for b in blocks[:2]:
        for kind in BLOCK_KINDS:
            ex = w.alive(kind, parent=b.slot)
            extra = {'A': ' Double [2]', 'D': ' ' + lst(['%s:x:Double' % S('c')]), 'T': ' ' + lst([f64(1.0)]), 'M': None, 'G': '', 'O': ''}[kind]
            arr = w.pick('A', block=b.slot)
            if kind == 'M':
                if not arr: continue
                extra = ' ' + arr.slot
            if ex:
                out.append('mk $x %s %s %s %s%s' % (kind, b.slot, S(ex[0].name), S('other type'), extra))
            for bad in BAD_NAMES:
                out.append('mk $x %s %s %s %s%s' % (kind, b.slot, S(bad), S('t'), extra))
            out.append('mk $x %s %s %s %s%s' % (kind, b.slot, S('fresh-name-%s' % kind), S(''), extra))
        # createDataArray(name, type, data, dtype) with data of a class the element type cannot store: the array made for it goes again
        for k, (dt, cls) in enumerate((('String', 'd'), ('Double', 's'), ('Int32', 's'), ('Bool', 'd'), ('Bool', 's'), ('Char', 'd'), ('Opaque', 'd'), ('String', 'd'))):
            out.append('mk $x A %s %s %s %s [%d] %s' % (b.slot, S('fresh-filled-%d' % k), S('t'), dt, rng.choice([0, 1, 3]), cls))
        exa = w.alive('A', parent=b.slot)
        if exa: out.append('mk $x A %s %s %s Double [2] d' % (b.slot, S(exa[0].name), S('t')))
        # unsupported element type, duplicate data frame columns
        out.append('mk $x A %s %s %s Opaque [2]' % (b.slot, S('fresh-opaque'), S('t')))
        out.append('mk $x A %s %s %s Nothing [2]' % (b.slot, S('fresh-nothing'), S('t')))
        out.append('mk $x D %s %s %s %s' % (b.slot, S('fresh-df'), S('t'), lst(['%s:x:Double' % S('c'), '%s:x:Int32' % S('c')])))
        # a column name repeated at a distance
        out.append('mk $x D %s %s %s %s' % (b.slot, S('fresh-df3'), S('t'), lst(['%s:x:Double' % S('c'), '%s:x:Int32' % S('d'), '%s:x:Double' % S('c')])))
        out.append('mk $x D %s %s %s %s' % (b.slot, S('fresh-df4'), S('t'), lst(['%s:x:Double' % S('a'), '%s:x:Int32' % S('b'), '%s:x:String' % S('c'), '%s:x:Int32' % S('a')])))
        out.append('mk $x D %s %s %s %s' % (b.slot, S('fresh-df2'), S('t'), lst(['%s:x:Opaque' % S('c')])))
    # the same below sources and sections (Source::createSource, Section::createSection have front ends of their own)
    for par in (w.alive('O')[:3] + w.alive('S')[:3]):
        kind = par.kind
        ex = w.alive(kind, parent=par.slot)
        if ex:
            out.append('mk $x %s %s %s %s' % (kind, par.slot, S(ex[0].name), S('other type')))
        for bad in BAD_NAMES:
            out.append('mk $x %s %s %s %s' % (kind, par.slot, S(bad), S('t')))
        out.append('mk $x %s %s %s %s' % (kind, par.slot, S('fresh-nested-%s' % kind), S('')))
    # foreign-block and missing targets
    if len(blocks) >= 2:
        b1, b2 = blocks[0], blocks[1]
        a2 = w.pick('A', block=b2.slot); s2 = w.pick('O', block=b2.slot)
        for t in w.alive(['T', 'M'], block=b1.slot)[:2]:
            if a2:
                out.append('link ref %s handle %s' % (t.slot, a2.slot))
                out.append('link ref %s idof %s' % (t.slot, a2.slot))
                out.append('mk $x R %s %s %s %s tagged' % (t.slot, S('x'), S('x'), a2.slot))
        for m in w.alive('M', block=b1.slot)[:2]:
            if a2:
                out.append('single positions %s handle %s' % (m.slot, a2.slot))
                out.append('single extents %s handle %s' % (m.slot, a2.slot))
                out.append('single extents %s idof %s' % (m.slot, a2.slot))
        if a2:
            out.append('mk $x M %s %s %s %s' % (b1.slot, S('fresh-mtag'), S('t'), a2.slot))
        for h in w.alive(['A', 'T', 'G'], block=b1.slot)[:2]:
            if s2:
                out.append('link src %s idof %s' % (h.slot, s2.slot))
        for g in w.alive('G', block=b1.slot)[:1]:
            if a2: out.append('link mA %s handle %s' % (g.slot, a2.slot))
    # the bulk setters: one entity of the vector is uninitialised / lives in another block — the old links stay, none of the new ones appears
    for b1 in blocks[:2]:
        others = [b for b in blocks if b is not b1]
        for (holders, rel, kind) in ((['T', 'M'], 'ref', 'A'), (['A', 'D', 'T', 'M', 'G'], 'src', 'O'), (['G'], 'mA', 'A'), (['G'], 'mD', 'D'), (['G'], 'mT', 'T'), (['G'], 'mM', 'M')):
            for h in w.alive(holders, block=b1.slot)[:2]:
                good = [e.slot for e in w.alive(kind, block=b1.slot)]
                rng.shuffle(good); good = good[:rng.choice([0, 1, 2, 3])]
                foreign = [e.slot for b in others for e in w.alive(kind, block=b.slot)][:1]
                bads = ['$-'] + (foreign if rel != 'src' else [])
                for bad in bads:
                    v = list(good); v.insert(rng.randint(0, len(v)), bad)
                    out.append('setlinks %s %s %s' % (rel, h.slot, lst(v)))
    # the data of an existing feature re-targeted to an array that does not exist / lives in another block / is uninitialised
    for f in w.alive('R')[:3]:
        out.append('single featdata %s id %s' % (f.slot, S('no-such-array')))
        out.append('single featdata %s id %s' % (f.slot, S('00000000-0000-0000-0000-000000000000')))
        out.append('single featdata %s id %s' % (f.slot, S('')))
        out.append('single featdata %s handle $-' % f.slot)
        for b in blocks:
            if b.slot != f.block:
                a2 = w.pick('A', block=b.slot)
                if a2:
                    out.append('single featdata %s handle %s' % (f.slot, a2.slot))
                    out.append('single featdata %s idof %s' % (f.slot, a2.slot))
    # a data frame with a column without a type
    for b in blocks[:2]:
        out.append('mk $x D %s %s %s %s' % (b.slot, S('fresh-df-nothing'), S('t'), lst(['%s:x:Double' % S('c'), '%s:x:Nothing' % S('d')])))
        out.append('mk $x D %s %s %s %s' % (b.slot, S('fresh-df-nothing1'), S('t'), lst(['%s:x:Nothing' % S('c')])))
    # positions of another shape than the extents the multi-tag has: accepted or refused — if refused, without a trace
    for m in w.alive('M')[:3]:
        pos = getattr(m, 'pos', None)
        others = [a for a in w.alive('A', block=m.block) if pos is None or a.shape != pos.shape]
        for a in (others[:3] + w.alive('A', block=m.block)[:2]):
            out.append('single positions %s %s' % (m.slot, rng.choice(['handle ' + a.slot, 'idof ' + a.slot, 'id ' + S(a.name)])))
    # links BY ENTITY to an entity of another block that has the name of an entity of this block: refused like any foreign entity
    for h in w.alive(['T', 'M', 'G'])[:6]:
        for k in (['A'] if h.kind != 'G' else ['A', 'D', 'T', 'M']):
            local = {e.name for e in w.alive(k, block=h.block)}
            for e in [x for x in w.alive(k) if x.block != h.block and x.name in local][:2]:
                out.append('link %s %s handle %s' % ('ref' if h.kind != 'G' else REL_OF[k], h.slot, e.slot))
    for e in w.alive(['B', 'A', 'T', 'M', 'O', 'G'])[:4]:
        out.append('single metadata %s id %s' % (e.slot, S('00000000-0000-0000-0000-000000000000')))
        out.append('single metadata %s id %s' % (e.slot, S('')))
    for s_ in w.alive('S')[:3]:
        out.append('single seclink %s id %s' % (s_.slot, S('00000000-0000-0000-0000-000000000000')))
        out.append('mk $x P %s %s %s Opaque' % (s_.slot, S('fresh-prop'), S('x')))
        for p in w.alive('P', parent=s_.slot)[:1]:
            out.append('mk $x P %s %s %s Int32' % (s_.slot, S(p.name), S('x')))
    for t in w.alive(['T', 'M'])[:3]:
        out.append('link ref %s id %s' % (t.slot, S('no-such-array')))
        out.append('link ref %s id %s' % (t.slot, S('')))
        out.append('mk $x R %s %s %s $- tagged' % (t.slot, S('x'), S('x')))
        out.append('set %s units %s' % (t.slot, lst([S('parsec')])))
    for m in w.alive('M')[:2]:
        out.append('single positions %s id %s' % (m.slot, S('no-such-array')))
        out.append('single extents %s id %s' % (m.slot, S('no-such-array')))
        # extents whose dimensionality does not match the positions
        b = next((x for x in w.ents if x.slot == m.block), None)
        out.append('mk $odd A %s %s %s Double [2,2,2]' % (m.block, S('odd-rank-%s' % m.slot[1:]), S('t')))
        out.append('single extents %s handle $odd' % m.slot)
    for e in w.alive(['B', 'S', 'O', 'A', 'D', 'T', 'M', 'G'])[:5]:
        out.append('set %s type %s' % (e.slot, S('')))
        out.append('set %s definition %s' % (e.slot, S('')))
    for a in w.alive('A')[:3]:
        out.append('set %s unit %s' % (a.slot, S('')))
        out.append('set %s label %s' % (a.slot, S('')))
        out.append('adim %s sampled %s ~ ~ ~' % (a.slot, f64(0.0)))
        out.append('adim %s sampled %s ~ ~ ~' % (a.slot, f64(-1.5)))
        out.append('adim %s sampled %s ~ %s ~' % (a.slot, f64(1.0), S('parsec')))
        out.append('adim %s range %s ~ ~' % (a.slot, lst([f64(3.0), f64(1.0), f64(2.0)])))
        out.append('adim %s range %s ~ %s' % (a.slot, lst([f64(1.0), f64(2.0)]), S('furlong')))
        out.append('adim %s range [] ~ ~' % a.slot)
        out.append('adim %s alias' % a.slot)
        for d in w.alive('D', block=a.block)[:1]:
            out.append('adim %s frame %s 7' % (a.slot, d.slot))
        out.append('sdim %s 1 interval %s' % (a.slot, f64(0.0)))
        out.append('sdim %s 1 ticks %s' % (a.slot, lst([f64(2.0), f64(1.0)])))
        out.append('sdim %s 1 unit %s' % (a.slot, S('parsec')))
        # composite units: SI, but refused where only atomic units are supported (the setters of the dimensions, the units of a tag)
        for cu in ('m/s', 'N*m', 'mA*s'):
            out.append('adim %s range %s %s %s' % (a.slot, lst([f64(1.0), f64(2.0)]), S('lbl'), S(cu)))
            out.append('adim %s sampled %s %s %s ~' % (a.slot, f64(1.0), S('lbl'), S(cu)))
            out.append('sdim %s 1 unit %s' % (a.slot, S(cu)))
        out.append('da_setext %s [1,1,1,1,1]' % a.slot)
    # data of the wrong class (numbers for a string array, strings for a numeric one), whole and appended, larger and smaller than
    # the array: refused after the front end has worked out the new extent
    for a in [x for x in w.alive('A') if getattr(x, 'dtype', None) and x.shape and len(x.shape) == 1][:4]:
        nums, strs = lst([f64(float(i)) for i in range(rng.choice([1, 2, 7]))]), lst([S('s%d' % i) for i in range(rng.choice([1, 2, 7]))])
        if a.dtype == 'String':
            out += ['da_fill %s %s' % (a.slot, nums), 'da_append %s %s' % (a.slot, nums)]
        else:
            out += ['da_fills %s %s' % (a.slot, strs), 'da_appends %s %s' % (a.slot, strs)]
    for s_ in w.alive('S')[:2]:
        # createProperty(name, values) with values of mixed types — also kinds that convert into one another
        for k, vals in enumerate((['Double:' + f64(1.0), 'Double:' + f64(2.0), 'Int32:3'], ['Int32:1', 'Int64:2'], ['UInt32:1', 'UInt64:2'],
                                  ['String:' + S('a'), 'Int32:1'], ['Bool:1', 'Int32:0'])):
            out.append('mkpv $x %s %s %s' % (s_.slot, S('fresh-mixed-%d' % k), lst(vals)))
    # a data-frame dimension with a frame of another block / no frame at all, through each of the three overloads
    for a in w.alive('A')[:3]:
        for d in [x for x in w.alive('D') if x.block != a.block][:1]:
            for col in ('~', '0', 'n:' + S('c0')):
                out.append('adim %s frame %s %s' % (a.slot, d.slot, col))
        out.append('adim %s frame $- ~' % a.slot)
        for d in w.alive('D', block=a.block)[:1]:
            out.append('adim %s frame %s n:%s' % (a.slot, d.slot, S('no-such-column')))
    # values of a uniform but wrong type, of another length than the property has: numbers for a String / Bool property and the reverse
    for p in w.alive('P')[:4]:
        dt = getattr(p, 'dtype', None)
        n = rng.choice([1, 2, 5])
        if dt in ('String', 'Bool'):
            out.append('pvalues %s %s' % (p.slot, lst([rng.choice(['Int32:%d', 'UInt64:%d', 'Double:' + f64(2.5) + '%.0d']) % k for k in range(n)]) if False else lst(['Int32:%d' % k for k in range(n)])))
            out.append('pvalues %s %s' % (p.slot, lst(['Double:' + f64(float(k)) for k in range(n)])))
            out.append('pvalues %s %s' % (p.slot, lst(['UInt64:%d' % k for k in range(n)])))
        elif dt is not None:
            out.append('pvalues %s %s' % (p.slot, lst(['String:' + S('v%d' % k) for k in range(n)])))
            out.append('pvalues %s %s' % (p.slot, lst(['Bool:%d' % (k % 2) for k in range(n)])))
            other = 'Double' if dt != 'Double' else 'Int32'
            out.append('pvalues %s %s' % (p.slot, lst([('Double:' + f64(float(k))) if other == 'Double' else 'Int32:%d' % k for k in range(n)])))
    # createProperty(name, values) without a value
    for s_ in w.alive('S')[:3]:
        out.append('mkpv $x %s %s []' % (s_.slot, S('fresh-empty')))
    for t in w.alive(['T', 'M'])[:2]:
        out.append('set %s units %s' % (t.slot, lst([S('m/s')])))
    for p in w.alive('P')[:3]:
        out.append('pvalues %s %s' % (p.slot, lst(['Double:' + f64(5.0), 'String:' + S('x')])))
        out.append('pvalues %s %s' % (p.slot, lst(['Int32:1', 'Int64:2'])))
        out.append('pvalues %s %s' % (p.slot, lst(['String:' + S('x'), 'String:' + S('y'), 'Int32:3'])))
    rng.shuffle(out)
    return out

def history(rng, tier):
    # mostly plain names; a third of the histories draw from the adversarial pool (UUID-shaped names, twins, names of internal
    # containers): a refused duplicate must leave no trace there either
    w = World(rng, names=NAMES if rng.random() < 0.33 else PLAIN)
    w.open('ow')
    for _ in range(rng.randint(25, 50)):
        w.random_step()
    for b in w.alive('B')[:2]:
        for k in ('A', 'T', 'M', 'G', 'O', 'D'):
            if not w.alive(k, block=b.slot): w.mk(k, b)
    if len(w.alive('B')) < 2:
        b = w.mk('B', None); w.mk('A', b); w.mk('O', b)
    if not w.alive('S'): w.mk('S', None)
    for s_ in w.alive('S')[:2]:
        if not w.alive('P', parent=s_.slot): w.mk('P', s_)
    if rng.random() < 0.5: C04.twins(w, rng)       # entities of different parents that share a name
    C04.dense_links(w, rng)
    # multi-tags with extents (an array of the shape of the positions): a later change of the positions has something to disagree with
    for m in w.alive('M')[:3]:
        pos = getattr(m, 'pos', None)
        if pos is None or not pos.alive or not pos.shape: continue
        same = [a for a in w.alive('A', block=m.block) if a.shape == pos.shape and a is not pos]
        ext = same[0] if same else w.mk('A', next(b for b in w.alive('B') if b.slot == m.block), extra=list(pos.shape))
        if ext is not None and ext.alive: w.emit('single extents %s handle %s' % (m.slot, ext.slot))
    # a few dimensions and property values to be disturbed
    for a in w.alive('A')[:3]:
        w.emit('adim %s sampled %s ~ ~ ~' % (a.slot, f64(0.5)))
    for p in w.alive('P')[:3]:
        w.emit('pvalues %s %s' % (p.slot, '[]'))
    calls = rejected_calls(w, rng)
    calls = calls[: (55 if tier == 'quick' else 150)]
    for c in calls:
        w.emit('dump')
        w.emit(c)
    w.emit('dump')
    return w.lines

def cases(tier, seed, rng):
    from vlib.runner import Case
    n = 30 if tier == 'quick' else 800
    return [Case(with_hdump(history(rng, tier), rng, 0.3), 'gen:reject') for _ in range(n)]

def nontrivial(case, tags):
    return any(t.startswith('dump.after_reject') for t in tags)
def signature(f):
    return '%s:%s:%s' % (f.kind, f.tag(), f.rule())
