"""generator for the store family: random entity-tree histories with light tracking of what exists"""
from vlib.tok import f64, s as S, lst

NAMES = ['a', 'b', 'c', 'A', 'a ', ' a', '..', 'x.y', 'ümlaut €', 'data_arrays', 'metadata', 'name with spaces', 'n' * 120,
         'L' * 255, 'M' * 256, 'long ' * 80,       # link names at and beyond 255 / 256 bytes
         'aaaaaaaa-bbbb-cccc-dddd-eeeeeeeeeeee', '12345678-1234-1234-1234-123456789abc', 'tab\there',
         # dashes where a UUID has them, but longer / shorter than one: names, not ids
         '20240131-1530-rat7-ses2-hippocampus_CA1_lfp', '20240131-1530-rat7-ses2-hippocampus', 'abcdefgh-ijkl-mnop-qrst-uvwxyzabcdef', '0', 'sources', 'e1', 'e2', 'e3', 'e4']
PLAIN = ['a', 'b', 'c', 'A', 'x.y', 'e1', 'e2', 'e3', 'e4', 'e5', 'e6', 'name with spaces', 'ümlaut €', '..', 'a ']
BAD_NAMES = ['', 'a/b', '/']
TYPES = ['t', 'nix.type', 'ü']
BLOCK_KINDS = ['A', 'D', 'T', 'M', 'G', 'O']
REL_OF = {'A': 'mA', 'D': 'mD', 'T': 'mT', 'M': 'mM'}

class Ent:
    def __init__(self, slot, kind, parent, name, block):
        self.slot, self.kind, self.parent, self.name, self.block = slot, kind, parent, name, block
        self.alive = True
        self.id = None

class World:
    def __init__(self, rng, names=None, uuid_names=True):
        self.rng = rng
        self.lines = []
        self.ents = []          # all entities ever created (Ent)
        self.n = 0
        self.names = [n for n in (names or NAMES) if uuid_names or len(n) != 36]
        self.readonly = False

    # -- helpers -----------------------------------------------------------------------------------------------
    def emit(self, l): self.lines.append(l)
    def fresh(self):
        self.n += 1
        return '$%d' % self.n
    def alive(self, kind=None, parent=None, block=None):
        return [e for e in self.ents if e.alive and (kind is None or e.kind in kind) and (parent is None or e.parent == parent)
                and (block is None or e.block == block)]
    def pick(self, kind=None, parent=None, block=None):
        c = self.alive(kind, parent, block)
        return self.rng.choice(c) if c else None
    def taken(self, kind, parent):
        return {e.name for e in self.alive(kind, parent)}
    def kill(self, e):
        e.alive = False
        for c in self.ents:
            if c.alive and (c.parent == e.slot):
                self.kill(c)

    def open(self, mode='ow'):
        self.emit('fopen %s %s' % (mode, self.rng.choice(['auto', 'auto', 'deflate', 'none'])))

    # -- creation ----------------------------------------------------------------------------------------------
    def mk(self, kind, parent, name=None, typ=None, allow_dup=False, extra=None):
        r = self.rng
        pslot = parent.slot if parent else '$F'
        if name is None:
            free = [n for n in self.names if allow_dup or n not in self.taken(kind, pslot)]
            name = r.choice(free or ['z%d' % self.n])
        typ = typ if typ is not None else r.choice(TYPES)
        slot = self.fresh()
        block = parent.block if parent and parent.kind != 'B' else (parent.slot if parent else None)
        if kind in ('B', 'S') and parent is None:
            block = None
        line = 'mk %s %s %s %s %s' % (slot, kind, pslot, S(name), S(typ))
        shape = pos = dt = da = None
        if kind == 'A':
            dt = r.choice(['Double', 'Int32', 'String', 'UInt8', 'Float'])
            shape = extra if extra is not None else [r.choice([1, 2, 3, 5]) for _ in range(r.choice([1, 1, 2]))]
            line += ' %s %s' % (dt, lst([str(x) for x in shape]))
            if extra is None and len(shape) == 1 and r.random() < 0.15:
                # the templated createDataArray(name, type, data, dtype): made and filled in one call
                line += ' s' if dt == 'String' else ' d'
        elif kind == 'D':
            cols = [('c%d' % i, r.choice(['', 'mV', 's']), r.choice(['Double', 'Int32', 'String', 'Bool'])) for i in range(r.randint(1, 3))]
            line += ' ' + lst(['%s:%s:%s' % (S(c[0]), S(c[1]), c[2]) for c in cols])
        elif kind == 'T':
            line += ' ' + lst([f64(r.choice([0.0, 1.5, 2.0])) for _ in range(r.randint(1, 2))])
        elif kind == 'M':
            pos = extra or self.pick('A', block=block)
            if pos is None:
                pos = self.mk('A', parent)
            line += ' ' + pos.slot
        elif kind == 'P':
            dt = r.choice(['Int32', 'Double', 'String', 'Bool', 'Int64', 'UInt32', 'UInt64'])
            line += ' ' + dt
        elif kind == 'R':
            da = extra or self.pick('A', block=block)
            if da is None:
                return None
            line += ' %s %s' % (da.slot, r.choice(['tagged', 'untagged', 'indexed']))
        self.emit(line)
        dup = (not allow_dup) or name not in self.taken(kind, pslot)
        e = Ent(slot, kind, pslot, name, block if kind != 'B' else slot)
        e.shape = shape          # arrays: the extent they were created with
        e.dtype = dt             # arrays: the element type
        e.pos = pos              # multi-tags: the positions array
        e.data = da if kind == 'R' else None     # features: the data array
        if kind == 'B':
            e.block = slot
        if name in self.taken(kind, pslot) or name in BAD_NAMES or typ == '':
            e.alive = False        # expected to be refused; not tracked as existing
        self.ents.append(e)
        return e

    def key_of(self, e, how=None):
        """a way of naming e: (how, token)"""
        how = how or self.rng.choice(['name', 'handle', 'handle', 'idx0'])
        if how == 'name' and e.kind != 'R':
            return 'name', S(e.name)
        return 'handle', e.slot

    def delete(self, e, how=None):
        how, key = self.key_of(e, how)
        self.emit('del %s %s %s %s' % (e.kind, e.parent, how, key))
        self.kill(e)

    # -- a random mutation ----------------------------------------------------------------------------------------
    def random_step(self):
        r = self.rng
        q = r.random()
        blocks = self.alive('B')
        if q < 0.08 or not blocks:
            return self.mk('B', None)
        b = r.choice(blocks)
        if q < 0.40:
            kind = r.choice(BLOCK_KINDS)
            if kind == 'O' and r.random() < 0.5:
                parent = self.pick('O', block=b.slot) or b
                if self.depth(parent) >= 4: parent = b
                return self.mk('O', parent)
            return self.mk(kind, b)
        if q < 0.50:
            parent = self.pick('S') if r.random() < 0.6 else None
            if parent and self.depth(parent) >= 4: parent = None
            return self.mk('S', parent)
        if q < 0.56:
            sec = self.pick('S')
            if sec: return self.mk('P', sec)
        if q < 0.62:
            t = self.pick(['T', 'M'], block=b.slot)
            if t: return self.mk('R', t, name='x')
        if q < 0.72:
            return self.random_link(b)
        if q < 0.80:
            return self.random_set()
        if q < 0.88:
            e = self.pick()
            if e and e.kind != 'B' or (e and len(blocks) > 1):
                return self.delete(e)
        if q < 0.93:
            return self.random_unlink(b)
        return self.mk(r.choice(BLOCK_KINDS), b)

    def depth(self, e):
        d = 0
        while e is not None and e.parent != '$F':
            e = next((x for x in self.ents if x.slot == e.parent), None)
            d += 1
        return d

    def random_bulk(self, b):
        """a bulk setter: the whole list of references / sources / members of one kind replaced in one call"""
        r = self.rng
        q = r.random()
        if q < 0.35:
            h = self.pick(['T', 'M'], block=b.slot); rel = 'ref'; pool = self.alive('A', block=b.slot)
        elif q < 0.6:
            h = self.pick(['A', 'D', 'T', 'M', 'G'], block=b.slot); rel = 'src'; pool = self.alive('O', block=b.slot)
        else:
            h = self.pick('G', block=b.slot); k = r.choice('ADTM'); rel = REL_OF[k]; pool = self.alive(k, block=b.slot)
        if not h: return
        pool = list(pool); r.shuffle(pool)
        sel = pool[:r.choice([0, 1, 1, 2, 3, 5])]
        if sel and r.random() < 0.25: sel.append(r.choice(sel))     # an entity named twice
        self.emit('setlinks %s %s %s' % (rel, h.slot, lst([e.slot for e in sel])))

    def random_link(self, b):
        r = self.rng
        q = r.random()
        if r.random() < 0.12: return self.random_bulk(b)
        if q < 0.3:
            t = self.pick(['T', 'M'], block=b.slot); a = self.pick('A', block=b.slot)
            if t and a: self.emit('link ref %s %s' % (t.slot, self.link_key(a)))
        elif q < 0.55:
            h = self.pick(['A', 'D', 'T', 'M', 'G'], block=b.slot); s = self.pick('O', block=b.slot)
            if h and s: self.emit('link src %s %s' % (h.slot, 'handle ' + s.slot if r.random() < 0.7 else 'idof ' + s.slot))
        elif q < 0.75:
            g = self.pick('G', block=b.slot); m = self.pick(['A', 'D', 'T', 'M'], block=b.slot)
            if g and m: self.emit('link %s %s %s' % (REL_OF[m.kind], g.slot, self.link_key(m)))
        elif q < 0.9:
            h = self.pick(['B', 'A', 'D', 'T', 'M', 'G', 'O']); s = self.pick('S')
            if h and s: self.emit('single metadata %s handle %s' % (h.slot, s.slot))
        else:
            s1 = self.pick('S'); s2 = self.pick('S')
            if s1 and s2 and s1 is not s2: self.emit('single seclink %s handle %s' % (s1.slot, s2.slot))

    def link_key(self, e):
        return 'handle ' + e.slot if self.rng.random() < 0.6 else 'name ' + S(e.name)

    def random_unlink(self, b):
        r = self.rng
        q = r.random()
        if q < 0.3:
            t = self.pick(['T', 'M'], block=b.slot); a = self.pick('A', block=b.slot)
            if t and a: self.emit('unlink ref %s handle %s' % (t.slot, a.slot))
        elif q < 0.6:
            g = self.pick('G', block=b.slot); m = self.pick(['A', 'D', 'T', 'M'], block=b.slot)
            if g and m: self.emit('unlink %s %s handle %s' % (REL_OF[m.kind], g.slot, m.slot))
        elif q < 0.8:
            h = self.pick(['B', 'A', 'T', 'M', 'G', 'O'])
            if h: self.emit('single metadata %s none ~' % h.slot)
        else:
            h = self.pick(['A', 'D', 'T', 'M', 'G'], block=b.slot); s = self.pick('O', block=b.slot)
            if h and s: self.emit('unlink src %s handle %s' % (h.slot, s.slot))

    def random_set(self):
        r = self.rng
        e = self.pick(['B', 'S', 'O', 'A', 'D', 'T', 'M', 'G'])
        if not e: return
        q = r.random()
        if q < 0.4:
            self.emit('set %s definition %s' % (e.slot, r.choice([S('a definition'), S('ü'), '~'])))
        elif q < 0.6:
            self.emit('set %s type %s' % (e.slot, S(r.choice(TYPES))))
        elif e.kind == 'A':
            self.emit('set %s %s' % (e.slot, r.choice(['label ' + S('lbl'), 'unit ' + S('mV'), 'unit ~', 'label ~'])))
        elif e.kind == 'S':
            self.emit('set %s repository %s' % (e.slot, r.choice([S('http://x'), '~'])))
        elif e.kind == 'T':
            self.emit('set %s %s' % (e.slot, r.choice(['units ' + lst([S('mV')]), 'extent ' + lst([f64(1.0)]), 'units ~'])))
        elif q < 0.9 and e.kind != 'S' and not getattr(self, 'keep_created', False):
            # any creation time is a creation time: the epoch itself, times before it, the far future
            self.emit('fm_ent %s forcecreated %d' % (e.slot, r.choice([0, 0, 1, -1, -86400, 1000, 2 ** 31, 4102444800, 1000000000 + r.randrange(100000)])))
        else:
            self.emit('set %s definition %s' % (e.slot, S('d')))

    def random_content_step(self):
        """what the entities CONTAIN (the store model does not carry it; the library's dumps are compared with one another): dimension
        descriptors, the extent and the data of arrays, property values / unit / uncertainty"""
        r = self.rng
        q = r.random()
        a = self.pick('A')
        if a and r.random() < 0.5: self.emit('xdim %s' % a.slot)      # dimension handles kept from before against fresh ones
        if q < 0.3 and a:
            k = r.random()
            if k < 0.3: self.emit('adim %s sampled %s %s %s %s' % (a.slot, f64(r.choice([0.5, 1.0, 0.1])), r.choice(['~', S('time')]), r.choice(['~', S('ms')]), r.choice(['~', f64(-1.5), f64(2.0)])))
            elif k < 0.55: self.emit('adim %s range %s %s %s' % (a.slot, lst([f64(x) for x in sorted(r.sample([-2.0, 0.0, 1.0, 2.5, 7.0, 9.0], r.randint(1, 4)))]), r.choice(['~', S('l')]), r.choice(['~', S('mV')])))
            elif k < 0.8: self.emit('adim %s set %s' % (a.slot, lst([S(x) for x in r.sample(['p', 'q', 'r', 'ü'], r.randint(0, 3))])))
            elif k < 0.9: self.emit('adim %s alias' % a.slot)
            else:
                d = self.pick('D', block=a.block)
                if d: self.emit('adim %s frame %s %d' % (a.slot, d.slot, r.randint(0, 1)))
        elif q < 0.45 and a:
            f = r.choice(['interval', 'offset', 'unit', 'label', 'ticks', 'labels'])
            v = {'interval': f64(r.choice([0.25, 2.0])), 'offset': r.choice(['~', f64(3.0)]), 'unit': r.choice(['~', S('s'), S('mV')]), 'label': r.choice(['~', S('lab')]),
                 'ticks': lst([f64(x) for x in sorted(r.sample([0.0, 1.0, 4.0, 5.5], r.randint(1, 3)))]), 'labels': lst([S('u'), S('v')])}[f]
            self.emit('sdim %s %d %s %s' % (a.slot, r.randint(1, 2), f, v))
        elif q < 0.5 and a:
            self.emit('ddims %s' % a.slot)
        elif q < 0.65 and a:
            rank = len(a.shape) if getattr(a, 'shape', None) else 1
            self.emit('da_setext %s %s' % (a.slot, lst([str(r.choice([1, 2, 4, 6])) for _ in range(rank)])))
        elif q < 0.8 and a and r.random() < 0.3:
            self.emit('set %s %s' % (a.slot, r.choice(['origin ' + f64(2.5), 'origin ~', 'poly ' + lst([f64(1.0), f64(3.0)]), 'poly ~'])))
        elif q < 0.75 and a:
            self.emit('da_fill %s %s' % (a.slot, lst([f64(float(r.randint(-5, 5))) for _ in range(r.randint(1, 6))])))
        else:
            p = self.pick('P')
            if not p: return
            k = r.random()
            if k < 0.5:
                t = r.choice(['Double', 'Int32', 'String', 'Bool', 'Int64'])
                mkv = {'Double': lambda: 'Double:' + f64(r.choice([1.0, -2.5, 1e300])), 'Int32': lambda: 'Int32:%d' % r.randint(-9, 9), 'String': lambda: 'String:' + S(r.choice(['', 'v', 'ü'])),
                       'Bool': lambda: 'Bool:%d' % r.randint(0, 1), 'Int64': lambda: 'Int64:%d' % r.choice([-2 ** 40, 7])}[t]
                self.emit('pvalues %s %s' % (p.slot, lst([mkv() for _ in range(r.randint(0, 4))])))
            elif k < 0.6: self.emit('pvalues %s ~' % p.slot)
            else: self.emit('pset %s %s' % (p.slot, r.choice(['unit ' + S('mV'), 'unit ~', 'uncertainty ' + f64(0.5), 'uncertainty ~', 'definition ' + S('d'), 'definition ~'])))

    def xcheck_all(self):
        """cross-check every container of every alive parent"""
        self.emit('xcheck B $F')
        self.emit('xcheck S $F')
        for b in self.alive('B'):
            for k in BLOCK_KINDS:
                self.emit('xcheck %s %s' % (k, b.slot))
        for e in self.alive(['O']):
            self.emit('xcheck O %s' % e.slot)
        for e in self.alive(['S']):
            self.emit('xcheck S %s' % e.slot)
            self.emit('xcheck P %s' % e.slot)
        for e in self.alive(['T', 'M']):
            self.emit('xcheck R %s' % e.slot)
            self.emit('xfeat %s' % e.slot)
            self.emit('xlinks ref %s' % e.slot)
        for e in self.alive(['A', 'D', 'T', 'M', 'G']):
            self.emit('xlinks src %s' % e.slot)
        for e in self.alive(['G']):
            for rel in ('mA', 'mD', 'mT', 'mM'):
                self.emit('xlinks %s %s' % (rel, e.slot))

    def reopen(self, mode=None):
        mode = mode or self.rng.choice(['rw', 'rw', 'ro'])
        self.emit('fdrop')
        self.emit('fopen %s auto' % mode)
        self.readonly = mode == 'ro'
        self.rebind()

    def rebind(self):
        """after a reopen every handle is gone: fetch the alive entities again, parents first"""
        for e in self.ents:
            if e.alive and e.kind != 'R':
                self.emit('get %s %s %s name %s' % (e.slot, e.kind, e.parent, S(e.name)))
            elif e.alive:
                e.alive = False      # features are not re-fetched (they have no name)


def with_hdump(lines, rng, p=0.6):
    """after a dump, also ask every held handle (and its twin) for its entity's record: `hdump`"""
    out = []
    for l in lines:
        out.append(l)
        if l == 'dump' and rng.random() < p:
            out.append('hdump')
    return out
