"""C19 — the validator accepts every rule-conforming file and flags every hard-rule breach; soft rules only warn."""
from vlib.tok import f64, s as S, lst
from checks.storegen import World, Ent, PLAIN, TYPES

ID = 'C19'
FLAVOUR = {'quick': 'plain', 'thorough': 'asan'}
LEAN_MODULES = ['NixModel.Props.C19', 'NixModel.Props.C19Source', 'NixModel.ValidSource', 'NixModel.Gen.ValidRules']
TECHNIQUE = "Lean 4 proof over a model whose rule tables are translated from the validator's source on every run (proved equal to the hand-written skeletons) + differential correspondence (trace validation) with the built library"
THEOREMS = ['Nix.Validate.dataArray_source', 'Nix.Validate.tag_source', 'Nix.Validate.multiTag_source', 'Nix.Validate.property_source', 'Nix.Validate.rangeDimension_source', 'Nix.Validate.sampledDimension_source', 'Nix.Validate.setDimension_source', 'Nix.Validate.feature_source', 'Nix.Validate.entity_source', 'Nix.Validate.named_source', 'Nix.Validate.base_tables',
            'Nix.Validate.validateArray_is_the_source_table', 'Nix.Validate.validateNamed_is_the_source_table', 'Nix.Validate.validateTag_is_the_source_table', 'Nix.Validate.validateProp_is_the_source_table', 'Nix.Validate.validateRange_is_the_source_table', 'Nix.Validate.validateSampled_is_the_source_table', 'Nix.Validate.validateSet_is_the_source_table', 'Nix.Validate.validateFeature_is_the_source_table',
            'Nix.C19.validator_sound', 'Nix.C19.validator_sound_conforming', 'Nix.C19.validator_complete', 'Nix.C19.validator_complete_count',
            'Nix.C19.complete_rank', 'Nix.C19.complete_ticks', 'Nix.C19.complete_labels', 'Nix.C19.complete_rows', 'Nix.C19.complete_unsorted',
            'Nix.C19.complete_interval', 'Nix.C19.complete_tag_units', 'Nix.C19.complete_positions', 'Nix.C19.complete_feature_data',
            'Nix.C19.soft_rules_only_warn', 'Nix.C19.soft_breach_is_warned', 'Nix.C19.soft_breach_count', 'Nix.C19.warning_only_for_soft_breach',
            'Nix.C19.holds', 'Nix.C19.unsorted_iff',
            'Nix.Validate.validateFile_errors', 'Nix.Validate.validateFile_warnings', 'Nix.Validate.tagUnitsMatchRefsUnits_eq',
            'Nix.Validate.dimsLoop_true', 'Nix.Validate.dimsLoop_false', 'Nix.Validate.isSorted_eq_not_unsorted']
RULE = ('files built through the public API to conform to every rule by construction (1-3 blocks; arrays of rank 1-3 with range / sampled / set / '
        'data-frame descriptors of matching length, unit families per dimension position; tags and multi-tags with 0-3 references and units '
        'convertible to every referenced dimension; features; nested sources; nested sections with properties; groups, metadata links), then '
        '0-3 soft breaches (non-SI array unit, coefficients without origin and vice versa, offset without unit, values without unit) and 0-7 hard '
        'breaches at random entities, through the API where it allows (extra / missing descriptor, data extent or tick / label / row count changed, '
        'tag units of another dimension, empty position, property unit) and with raw HDF5 on the open file where it does not (unsorted ticks, '
        'sampling interval 0 / -0 / negative / NaN / deleted, positions link or feature data link deleted, name / type / entity_id blanked, type '
        'deleted, tag units or dimension unit rewritten to a non-unit), validated after every stage and again after close + reopen (rw / ro); plus a '
        'malformed stream (20 %): empty and closed file, descriptors beyond the rank, more units than dimensions, zero extents, deleted name / ticks / '
        'dimension_type, many breaches with two blank ids. Per validation: the description (every getter the rules read, for every entity the walk '
        'visits, plus an enumeration of all sources / sections by index) is parsed, the Lean validator model must predict the same multiset of '
        '(id, severity, message class), and C19.Rel is evaluated on the implementation\'s own answer. non-trivial = a validation with a parsed '
        'description; distinct = distinct op text.')
TRUSTED = ['the getters themselves (id, name, type, createdAt, dataType, dimensionCount, dataExtent, dimensions, ticks, labels, size, unit, '
           'samplingInterval, offset, columnIndex, position(s), units, references, data, linkType, valueCount, findSources, findSections): '
           'the model starts from what they answer, as printed by the harness op vl_desc',
           'lean/NixModel/Units.lean as a model of util::isSIUnit / isCompoundSIUnit / isScalable (tied to the library by C18 and by every unit the generator uses here)',
           'harness raw-HDF5 breach injection (H5Ldelete, attribute / dataset rewrite on the file nix has open)']
ASSUMPTIONS = ['getters the C++ evaluates outside a try-block (id, name, dataExtent, tag.units, everything the check functors and the walk call) do not throw; '
               'when one does File::validate itself throws and the run only records it (tag no_description)',
               'WF: a dimension descriptor\'s index is its position and dimensionCount() is the number of descriptors (holds by construction of the HDF5 backend; '
               'checked on every description as rule getters_are_consistent)']
# units: convertible families (same base, same power), further SI / compound units, and strings that are not units
BASES = {'s': ['s', 'ms', 'us', 'ks'], 'V': ['V', 'mV', 'uV', 'kV'], 'Hz': ['Hz', 'kHz', 'MHz'], 'A': ['A', 'mA', 'nA', 'pA'],
         'm': ['m', 'mm', 'cm', 'km'], 'K': ['K', 'mK'], 'm^2': ['m^2', 'cm^2', 'mm^2'], 'mol': ['mol', 'mmol'], 'S': ['S', 'mS', 'uS']}
COMPOUND = ['mV/s', 'm*s', 'kg*m/s^2', 'mV*cm', 's/cm']
NONSI = ['foo', 'sec', 'volts', 'mVV', 'ümlaut', 'Vm', 'm s', '1', 'ms^', 'mV/', 'kk']
NAMES = PLAIN + ['data', 'positions', 'dimensions', 'e7', 'e8', 'e9', 'n' * 60]

def tick_values(rng, n):
    """n non-decreasing doubles: negatives, duplicates, signed zeros, huge and tiny values"""
    pool = rng.choice([
        lambda i: float(i), lambda i: -5.0 + 0.5 * i, lambda i: 1e300 * (i + 1) / (n + 1), lambda i: 5e-324 * i,
        lambda i: float(i // 2), lambda i: -1e-9 + 1e-10 * i, lambda i: [-0.0, 0.0][i % 2] if i < 2 else float(i)])
    return [pool(i) for i in range(n)]

class Arr:
    def __init__(self, ent, shape):
        self.ent, self.shape = ent, shape
        self.dims = []          # per appended descriptor: (kind, base unit family or None)

class Gen:
    """one history: builds a file that conforms to every rule by construction, then breaks it"""
    def __init__(self, rng, tier):
        self.rng, self.tier = rng, tier
        self.w = World(rng, names=NAMES)
        self.arrs, self.frames, self.tags, self.feats, self.props = [], [], [], [], []
        self.template = {}       # block slot -> unit family per dimension position
        self.applied = []        # names of the breaches injected (for the case origin)

    # ---- creation ---------------------------------------------------------------------------------------------
    def mk(self, kind, parent, extra='', name=None):
        w, r = self.w, self.rng
        pslot = parent.slot if parent else '$F'
        free = [n for n in w.names if n not in w.taken(kind, pslot)]
        name = name if name is not None else r.choice(free or ['z%d' % w.n])
        slot = w.fresh()
        w.emit(('mk %s %s %s %s %s %s' % (slot, kind, pslot, S(name), S(r.choice(TYPES)), extra)).strip())
        block = None if parent is None else (parent.slot if parent.kind == 'B' else parent.block)
        e = Ent(slot, kind, pslot, name, slot if kind == 'B' else block)
        w.ents.append(e)
        return e

    def unit_of(self, base):
        return self.rng.choice(BASES[base])

    def array(self, b, rank=None, conform=True):
        r = self.rng
        rank = rank or r.choice([1, 1, 2, 2, 3])
        shape = [r.choice([1, 2, 3, 4]) for _ in range(rank)]
        e = self.mk('A', b, '%s %s' % (r.choice(['Double', 'Double', 'Int32', 'Float', 'UInt8', 'String', 'Int64', 'Bool']),
                                       lst([str(x) for x in shape])))
        a = Arr(e, shape)
        self.arrs.append(a)
        for i in range(rank):
            self.dim(a, i)
        q = r.random()
        if q < 0.25: self.w.emit('set %s unit %s' % (e.slot, S(self.unit_of(r.choice(list(BASES))))))
        elif q < 0.33: self.w.emit('set %s unit %s' % (e.slot, S(r.choice(COMPOUND))))
        if r.random() < 0.15:
            self.w.emit('vl_set %s poly %s' % (e.slot, lst([f64(1.0), f64(2.0)])))
            self.w.emit('vl_set %s origin %s' % (e.slot, f64(r.choice([0.0, 1.5]))))
        return a

    def dim(self, a, i, n=None):
        """append a descriptor for data dimension i (its length matching the data unless n is given)"""
        r, w = self.rng, self.w
        n = a.shape[i] if n is None and i < len(a.shape) else (n if n is not None else 2)
        base = self.template[a.ent.block][i % 3]
        unit = S(self.unit_of(base)) if base and r.random() < 0.8 else '~'
        q = r.random()
        if q < 0.3:
            w.emit('adim %s range %s %s %s' % (a.ent.slot, lst([f64(x) for x in tick_values(r, n)]), r.choice(['~', S('lbl')]), unit))
            a.dims.append(('range', base if unit != '~' else None))
        elif q < 0.55:
            off = r.choice(['~', '~', f64(0.25), f64(100.0)]) if unit != '~' else '~'
            w.emit('adim %s sampled %s %s %s %s' % (a.ent.slot, f64(r.choice([1.0, 0.1, 5e-324, 1e300, 2.5])), r.choice(['~', S('time')]), unit, off))
            a.dims.append(('sampled', base if unit != '~' else None))
        elif q < 0.8 or not self.frames_of(a.ent.block):
            labels = [S(r.choice(['l%d' % k, 'ü', 'a b'])) for k in range(n)] if r.random() < 0.6 else []
            w.emit('adim %s set %s' % (a.ent.slot, lst(labels)))
            a.dims.append(('set', None))
        else:
            df = r.choice(self.frames_of(a.ent.block))
            if df.rows != n:
                # a data frame describes one length only: give it its own frame
                df = self.frame(next(x for x in w.ents if x.slot == a.ent.block), n)
            ci = r.randrange(len(df.cols))
            w.emit('adim %s frame %s %d' % (a.ent.slot, df.ent.slot, ci))
            a.dims.append(('frame', {'mV': 'V', 's': 's'}.get(df.cols[ci][1])))      # the column's unit is the dimension's unit

    def frames_of(self, bslot):
        return [f for f in self.frames if f.ent.block == bslot and f.ent.alive]

    def frame(self, b, rows=None):
        r = self.rng
        cols = [('c%d' % i, r.choice(['', 'mV', 's']), r.choice(['Double', 'Int32', 'String'])) for i in range(r.randint(1, 3))]
        e = self.mk('D', b, lst(['%s:%s:%s' % (S(c[0]), S(c[1]), c[2]) for c in cols]))
        class F: pass
        f = F(); f.ent, f.cols, f.rows = e, cols, rows if rows is not None else r.choice([1, 2, 3, 4])
        self.w.emit('vl_set %s rows %d' % (e.slot, f.rows))
        self.frames.append(f)
        return f

    def tag_units(self, refs, n):
        """units for the first n dimensions, convertible to every referenced array's dimension units"""
        us = []
        for i in range(n):
            bases = {a.dims[i][1] for a in refs if i < len(a.dims) and a.dims[i][1]}
            if len(bases) > 1:
                return None
            base = bases.pop() if bases else self.rng.choice(list(BASES))
            us.append(self.unit_of(base))
        return us

    def tag(self, b, multi):
        r, w = self.rng, self.w
        arrs = [a for a in self.arrs if a.ent.block == b.slot and a.ent.alive]
        if not arrs: return None
        first = r.choice(arrs)
        refs = [first] + [a for a in arrs if a is not first and r.random() < 0.35]
        refs = refs if r.random() < 0.85 else []
        rank = len(first.shape)
        if multi:
            e = self.mk('M', b, r.choice(arrs).ent.slot)
            if r.random() < 0.4: w.emit('single extents %s handle %s' % (e.slot, r.choice(arrs).ent.slot))
        else:
            e = self.mk('T', b, lst([f64(r.choice([0.0, 1.5, -2.0])) for _ in range(rank)]))
            if r.random() < 0.4: w.emit('set %s extent %s' % (e.slot, lst([f64(1.0)] * rank)))
        for a in refs:
            w.emit('link ref %s %s' % (e.slot, r.choice(['handle ' + a.ent.slot, 'name ' + S(a.ent.name)])))
        if r.random() < 0.7:
            us = self.tag_units(refs, r.randint(1, rank))
            if us: w.emit('set %s units %s' % (e.slot, lst([S(u) for u in us])))
        class T: pass
        t = T(); t.ent, t.refs, t.multi = e, refs, multi
        self.tags.append(t)
        for _ in range(r.choice([0, 0, 1, 2])):
            f = self.mk('R', e, '%s %s' % (r.choice(arrs).ent.slot, r.choice(['tagged', 'untagged', 'indexed'])), name='x')
            self.feats.append(f)
        return t

    def sources(self, parent, depth):
        for _ in range(self.rng.choice([0, 1, 1, 2])):
            s = self.mk('O', parent)
            if depth < 3: self.sources(s, depth + 1)

    def sections(self, parent, depth):
        r = self.rng
        for _ in range(r.choice([0, 1, 2])):
            s = self.mk('S', parent)
            for _ in range(r.choice([0, 1, 2])):
                self.prop(s)
            if depth < 3: self.sections(s, depth + 1)

    def prop(self, sec, with_unit=True):
        r, w = self.rng, self.w
        slot = w.fresh()
        free = [n for n in w.names if n not in w.taken('P', sec.slot)]
        name = r.choice(free or ['z%d' % w.n])
        if r.random() < 0.7:
            w.emit('mkpv %s %s %s %s' % (slot, sec.slot, S(name), lst(['Double:' + f64(1.5)] * r.randint(1, 2))))
            if with_unit: w.emit('pset %s unit %s' % (slot, S(r.choice(['mV', 's', 'mV/s', 'kHz']))))
        else:
            w.emit('mk %s P %s %s %s %s' % (slot, sec.slot, S(name), S('t'), r.choice(['Double', 'String', 'Int32'])))
        e = Ent(slot, 'P', sec.slot, name, None)
        w.ents.append(e); self.props.append(e)
        return e

    def build(self):
        r, w = self.rng, self.w
        w.open('ow')
        for _ in range(r.choice([1, 1, 2, 3])):
            b = self.mk('B', None)
            self.template[b.slot] = [r.choice(list(BASES) + [None]) for _ in range(3)]
            for _ in range(r.choice([0, 1, 1])): self.frame(b)
            for _ in range(r.randint(1, 4)): self.array(b)
            for _ in range(r.choice([0, 1, 2])): self.tag(b, False)
            for _ in range(r.choice([0, 1, 2])): self.tag(b, True)
            self.sources(b, 1)
            if r.random() < 0.3:
                g = self.mk('G', b)
                for a in self.arrs:
                    if a.ent.block == b.slot and r.random() < 0.5: w.emit('link mA %s handle %s' % (g.slot, a.ent.slot))
        self.sections(None, 1)
        secs = w.alive('S')
        for h in w.alive(['B', 'A', 'T', 'M', 'O']):
            if secs and r.random() < 0.2: w.emit('single metadata %s handle %s' % (h.slot, r.choice(secs).slot))

    def delete_some(self):
        """delete entities through the API: holders lose their links (a multi-tag whose positions array goes is then in breach)"""
        r, w = self.rng, self.w
        for _ in range(r.randint(1, 2)):
            c = [e for e in w.alive(['A', 'T', 'M', 'O', 'S'])]
            if not c: return
            e = r.choice(c)
            w.delete(e, r.choice(['name', 'handle']))
            for f in self.feats:
                if f.alive and not any(x.slot == f.parent and x.alive for x in w.ents): f.alive = False
            for p in self.props:
                if p.alive and not any(x.slot == p.parent and x.alive for x in w.ents): p.alive = False
        for t in self.tags:
            t.refs = [a for a in t.refs if a.ent.alive]

    def check(self):
        self.w.emit('vl_desc')
        self.w.emit('vl_validate')

    # ---- soft breaches ----------------------------------------------------------------------------------------
    def soft(self):
        r, w = self.rng, self.w
        q = r.randrange(5)
        arrs = [a for a in self.arrs if a.ent.alive]
        if q == 0 and arrs:
            w.emit('set %s unit %s' % (r.choice(arrs).ent.slot, S(r.choice(NONSI)))); return 'soft:unit'
        if q == 1 and arrs:
            a = r.choice(arrs); w.emit('vl_set %s origin ~' % a.ent.slot); w.emit('vl_set %s poly %s' % (a.ent.slot, lst([f64(0.5)] * r.randint(1, 3)))); return 'soft:poly'
        if q == 2 and arrs:
            a = r.choice(arrs); w.emit('vl_set %s poly ~' % a.ent.slot); w.emit('vl_set %s origin %s' % (a.ent.slot, f64(r.choice([0.0, -1.0])))); return 'soft:origin'
        if q == 3:
            c = [(a, i) for a in arrs for i, d in enumerate(a.dims) if d[0] == 'sampled']
            if c:
                a, i = r.choice(c)
                w.emit('sdim %s %d unit ~' % (a.ent.slot, i + 1)); w.emit('sdim %s %d offset %s' % (a.ent.slot, i + 1, f64(r.choice([0.0, 3.0]))))
                a.dims[i] = ('sampled', None); return 'soft:offset'
        secs = w.alive('S')
        if secs:
            self.prop(r.choice(secs), with_unit=False); return 'soft:prop'
        return None

    # ---- hard breaches ----------------------------------------------------------------------------------------
    def raw(self, what, ent, rel, *more):
        if ent.slot in self.no_more_raw: return        # the harness finds an entity's HDF5 group by its entity_id
        self.w.emit('vl_raw %s %s %s %s' % (what, ent.slot, S(rel), ' '.join(more)))

    def hard(self):
        r, w = self.rng, self.w
        arrs = [a for a in self.arrs if a.ent.alive]
        tags = [t for t in self.tags if t.ent.alive]
        kinds = ['rank', 'rank', 'size', 'size', 'size', 'unsorted', 'unsorted', 'interval', 'interval', 'units', 'units', 'units',
                 'positions', 'positions', 'featdata', 'featdata', 'blank', 'blank', 'tagunit', 'dimunit', 'position', 'propunit', 'notype', 'nointerval',
                 'rows', 'rows', 'noticks']
        k = r.choice(kinds)
        if k == 'rank' and arrs:
            a = r.choice(arrs)
            if r.random() < 0.5 or len(a.dims) < 1:
                self.dim(a, len(a.dims), n=r.choice([1, 2, 3]))         # one descriptor too many
            else:
                w.emit('ddims %s' % a.ent.slot); keep = r.randrange(len(a.dims)); a.dims = []
                for i in range(keep): self.dim(a, i)                       # too few
            return k
        if k == 'size' and arrs:
            a = r.choice(arrs); q = r.random()
            c = [i for i, d in enumerate(a.dims) if d[0] in ('range', 'set', 'frame') and i < len(a.shape)]
            if q < 0.4 or not c:
                ns = list(a.shape); i = r.randrange(len(ns)); ns[i] = ns[i] + r.choice([1, 2]) if r.random() < 0.6 else max(1, ns[i] - 1)
                w.emit('da_setext %s %s' % (a.ent.slot, lst([str(x) for x in ns]))); a.shape = ns
            else:
                i = r.choice(c); n = a.shape[i] + r.choice([1, 2, -1]) if a.shape[i] > 1 else a.shape[i] + 1
                if a.dims[i][0] == 'range': w.emit('sdim %s %d ticks %s' % (a.ent.slot, i + 1, lst([f64(x) for x in tick_values(r, n)])))
                elif a.dims[i][0] == 'set': w.emit('sdim %s %d labels %s' % (a.ent.slot, i + 1, lst([S('q%d' % j) for j in range(n)])))
                else:
                    fs = self.frames_of(a.ent.block)
                    if fs:
                        for f in fs: w.emit('vl_set %s rows %d' % (f.ent.slot, n)); f.rows = n
            return k
        if k == 'rows':
            c = [(a, i) for a in arrs for i, d in enumerate(a.dims) if d[0] == 'frame' and i < len(a.shape)]
            fs = [f for f in self.frames if f.ent.alive]
            if c and fs:
                a, i = r.choice(c)
                for f in self.frames_of(a.ent.block):
                    if f.rows == a.shape[i]:
                        f.rows = a.shape[i] + r.choice([1, 2, -1]) if a.shape[i] > 1 else a.shape[i] + 1
                        w.emit('vl_set %s rows %d' % (f.ent.slot, f.rows))
                return k
        if k == 'noticks':
            c = [(a, i) for a in arrs for i, d in enumerate(a.dims) if d[0] == 'range']
            if c:
                a, i = r.choice(c); self.raw('setvec', a.ent, 'dimensions/%d/ticks' % (i + 1), '[]'); return k
        if k == 'unsorted':
            c = [(a, i) for a in arrs for i, d in enumerate(a.dims) if d[0] == 'range']
            if c:
                a, i = r.choice(c)
                n = a.shape[i] if i < len(a.shape) else 2
                t = tick_values(r, max(n, 2)); j = r.randrange(len(t) - 1)
                t[j + 1] = t[j] - r.choice([1.0, 1e-12 + abs(t[j]) * 1e-15, 1e300])
                if r.random() < 0.3: t = [3.0, 1.0] + t[2:]
                self.raw('setvec', a.ent, 'dimensions/%d/ticks' % (i + 1), lst([f64(x) for x in t]))
                return k
        if k in ('interval', 'nointerval'):
            c = [(a, i) for a in arrs for i, d in enumerate(a.dims) if d[0] == 'sampled']
            if c:
                a, i = r.choice(c)
                if k == 'nointerval': self.raw('rmattr', a.ent, 'dimensions/%d' % (i + 1), S('sampling_interval'))
                else: self.raw('setf64', a.ent, 'dimensions/%d' % (i + 1), S('sampling_interval'), f64(r.choice([0.0, -0.0, -1.0, -5e-324, float('nan'), -1e300])))
                return k
        if k == 'units' and tags:
            c = [t for t in tags if t.refs and any(d[1] for a in t.refs for d in a.dims)]
            if c:
                t = r.choice(c); a = r.choice([x for x in t.refs if any(d[1] for d in x.dims)])
                i = r.choice([j for j, d in enumerate(a.dims) if d[1]])
                n = r.randint(i + 1, max(i + 1, len(a.dims)) + (1 if r.random() < 0.2 else 0))
                us = self.tag_units(t.refs, n) or [self.unit_of(r.choice(list(BASES))) for _ in range(n)]
                us[i] = self.unit_of(r.choice([b for b in BASES if b != a.dims[i][1]]))
                w.emit('set %s units %s' % (t.ent.slot, lst([S(u) for u in us])))
                return k
        if k == 'positions':
            c = [t for t in tags if t.multi]
            if c: self.raw('rmlink', r.choice(c).ent, 'positions'); return k
        if k == 'featdata':
            c = [f for f in self.feats if f.alive]
            if c: self.raw('rmlink', r.choice(c), 'data'); return k
        if k == 'blank':
            c = [e for e in w.alive(['B', 'A', 'T', 'M', 'O', 'S']) ] + [f for f in self.feats if f.alive] + [p for p in self.props if p.alive]
            if c:
                e = r.choice(c)
                attr = r.choice(['name', 'type', 'entity_id'])
                if e.kind == 'R': attr = 'entity_id'
                if e.kind == 'P' and attr == 'type': attr = 'name'
                if attr == 'name' and self.reopen_later: attr = 'type'      # a blank name cannot be fetched again after a reopen
                self.raw('setstr', e, '.', S(attr), S(''))
                if attr == 'entity_id' : self.no_more_raw.add(e.slot)
                return k + ':' + attr
        if k == 'notype':
            c = w.alive(['B', 'A', 'T', 'M', 'O', 'S'])
            if c: self.raw('rmattr', r.choice(c), '.', S('type')); return k
        if k == 'tagunit' and tags:
            t = r.choice(tags)
            self.raw('setstrs', t.ent, 'units', lst([S(u) for u in r.choice([['foo'], ['mV', ''], ['none'], ['mV', 'sec', 's']])]))
            return k
        if k == 'dimunit':
            c = [(a, i) for a in arrs for i, d in enumerate(a.dims) if d[0] in ('range', 'sampled')]
            if c:
                a, i = r.choice(c); self.raw('setstr', a.ent, 'dimensions/%d' % (i + 1), S('unit'), S(r.choice(NONSI))); return k
        if k == 'position':
            c = [t for t in tags if not t.multi]
            if c: w.emit('set %s position []' % r.choice(c).ent.slot); return k
        if k == 'propunit':
            c = [p for p in self.props if p.alive]
            if c: w.emit('pset %s unit %s' % (r.choice(c).slot, S(r.choice(NONSI)))); return k
        return None

def history(rng, tier):
    g = Gen(rng, tier)
    g.no_more_raw = set()
    g.reopen_later = rng.random() < 0.35
    g.build()
    g.check()                                     # conforming by construction
    if rng.random() < 0.05:
        g.w.emit('vl_validate_doc')
    origin = ['conforming']
    if rng.random() < 0.2:
        g.delete_some(); origin.append('delete')
        g.check()
    if rng.random() < 0.45:
        for _ in range(rng.randint(1, 3)):
            s = g.soft()
            if s: origin.append(s)
        g.check()
    if rng.random() < 0.8:
        for _ in range(rng.randint(1, 4)):
            h = g.hard()
            if h: origin.append(h)
        g.check()
        if rng.random() < 0.3:
            for _ in range(rng.randint(1, 3)):
                h = g.hard() if rng.random() < 0.7 else g.soft()
                if h: origin.append(h)
            g.check()
    if g.reopen_later:
        g.w.reopen(rng.choice(['rw', 'ro']))
        g.check()
    return g.w.lines, 'gen:file[' + ','.join(origin) + ']'

def malformed(rng, tier):
    """histories outside the rules' assumptions: getters that throw, descriptors beyond the rank, units without dimensions,
    empty and zero-extent arrays, validation of an empty or closed file"""
    g = Gen(rng, tier)
    g.no_more_raw = set(); g.reopen_later = False
    w = g.w
    q = rng.randrange(8)
    if q == 0:
        w.open('ow'); g.check(); w.emit('fdrop'); g.check()
        return w.lines, 'gen:malformed[empty,closed]'
    g.build()
    arrs = [a for a in g.arrs if a.ent.alive]
    what = 'none'
    if q == 1 and arrs:
        a = rng.choice(arrs)
        for _ in range(rng.randint(2, 4)): g.dim(a, len(a.dims), n=rng.choice([1, 5]))
        c = [i for i, d in enumerate(a.dims) if d[0] == 'range']
        if c: w.emit('sdim %s %d ticks %s' % (a.ent.slot, c[-1] + 1, lst([f64(x) for x in tick_values(rng, 7)])))
        what = 'descriptors-beyond-rank'
    elif q == 2 and g.tags:
        t = rng.choice(g.tags)
        w.emit('set %s units %s' % (t.ent.slot, lst([S(rng.choice(['mV', 's', 'Hz', 'none', ''])) for _ in range(rng.randint(3, 6))])))
        what = 'more-units-than-dimensions'
    elif q == 3:
        b = w.alive('B')[0]
        g.template.setdefault(b.slot, [None, None, None])
        e = g.mk('A', b, 'Double [0]'); a = Arr(e, [0]); g.arrs.append(a)
        w.emit('adim %s set []' % e.slot)
        e2 = g.mk('A', b, 'Double []')
        e3 = g.mk('A', b, 'Double [2,0,3]'); a3 = Arr(e3, [2, 0, 3]); g.arrs.append(a3)
        w.emit('adim %s sampled %s ~ ~ ~' % (e3.slot, f64(1.0))); w.emit('adim %s set []' % e3.slot); w.emit('adim %s range %s ~ ~' % (e3.slot, lst([f64(1), f64(2), f64(3)])))
        t = g.mk('T', b, '[]')
        w.emit('link ref %s handle %s' % (t.slot, e3.slot)); w.emit('set %s units %s' % (t.slot, lst([S('mV')])))
        what = 'zero-extents'
    elif q == 4 and arrs:
        e = rng.choice(w.alive(['B', 'A', 'T', 'M', 'O', 'S']))
        g.raw('rmattr', e, '.', S('name'))
        what = 'name-attribute-deleted'
    elif q == 5:
        c = [(a, i) for a in arrs for i, d in enumerate(a.dims) if d[0] == 'range']
        if c:
            a, i = rng.choice(c); g.raw('rmlink', a.ent, 'dimensions/%d/ticks' % (i + 1)); what = 'ticks-deleted'
    elif q == 6 and arrs:
        a = rng.choice(arrs)
        if a.dims: g.raw('setstr', a.ent, 'dimensions/%d' % (rng.randrange(len(a.dims)) + 1), S('dimension_type'), S(rng.choice(['set', 'range', 'sample', 'bogus'])))
        what = 'dimension-type-rewritten'
    elif q == 7:
        for _ in range(6):
            g.hard(); g.soft()
        ids = w.alive(['A', 'T', 'M'])
        for e in rng.sample(ids, min(2, len(ids))): g.raw('setstr', e, '.', S('entity_id'), S(''))
        what = 'many-breaches-two-blank-ids'
    g.check()
    return w.lines, 'gen:malformed[%s]' % what

def cases(tier, seed, rng):
    from vlib.runner import Case
    n = 170 if tier == 'quick' else 600
    out = []
    for _ in range(n):
        lines, origin = history(rng, tier)
        out.append(Case(lines, origin))
    for _ in range(n // 5):
        lines, origin = malformed(rng, tier)
        out.append(Case(lines, origin))
    return out

def nontrivial(case, tags):
    return any(t.startswith('vl_validate.') and not t.startswith('vl_validate.no_description') for t in tags)

def signature(f):
    return '%s:%s:%s' % (f.kind, f.tag().split('.')[0], f.rule())

LEVEL_TEXT = ('Lean 4 theorems about an executable model of the validator (must / should / could incl. "getter threw => failed", the check functors of '
              'checks.cpp with their loops, early exits and accumulators, every rule table of validate.cpp, the walk of File::validate): for every file '
              'description — any number and nesting of entities, ranks, descriptors, references, units, ticks, any scalar order — every error is attributed '
              'to an entity that breaches a hard rule (so a conforming file has none, whatever soft rules it breaches); every entity that breaches a hard '
              'rule, wherever it sits and whatever else is wrong, gets at least one error (counted per id; one lemma per breach kind of the property text); '
              'soft breaches give exactly the warnings. The same decidable relation is evaluated on what the real File::validate() answers for generated '
              'files with API-level and raw-HDF5 breaches, and the model must predict the implementation\'s message multiset exactly.')
LEVEL_NOTE = ('Trusted: Lean kernel; the public getters (the model\'s input is what they answer); the unit-grammar model of C18; harness and raw-HDF5 injection. '
              'Not modelled: getters throwing outside a try-block (File::validate then throws; recorded, not judged); valid::validate(File); DataFrame, Group and '
              'data-frame-dimension entities are not visited by File::validate and carry no rules in the property. Known finding K3: a DataArray without unit '
              'gets no warning although the documentation calls it a soft-rule breach (pinned by TestValidate).')
