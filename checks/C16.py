"""C16 — no undefined behaviour: misuse throws, valid use never crashes (always on the ASan + UBSan build)."""
import random
from vlib.tok import f64, s as S, lst
from checks.storegen import World, PLAIN, NAMES, BLOCK_KINDS, REL_OF
from checks import C01, C04, C05, C06, C07, C08, C13, C14, C15, C17, C19, C20
ID = 'C16'
FLAVOUR = {'quick': 'asan', 'thorough': 'asan'}
NEEDS_PLAIN = True      # the memcheck cases (meta valgrind) run on the plain build under valgrind
THEOREMS = ['Nix.C16Typed.single_value_transfers_one_element', 'Nix.C16Typed.vector_holds_the_transfer', 'Nix.C16.tag_accesses_in_bounds', 'Nix.C16.slice_accesses_in_bounds', 'Nix.C16.slice_arg_no_raw_overrun',
            'Nix.C16.maximumExtents_length', 'Nix.C16.mtag_accesses_in_bounds',
            'Nix.St.createMultiTag_uninitialised', 'Nix.St.createFeature_uninitialised', 'Nix.St.validHandle_none', 'Nix.SizeVec.flat_access_in_bounds', 'Nix.SizeVec.flat_access_refused', 'Nix.Chunk.guess_loop_terminates', 'Nix.Chunk.loop_breaks', 'Nix.Chunk.iter_bounds', 'Nix.SizeVec.typed_access_in_bounds', 'Nix.SizeVec.typed_access_refused', 'Nix.SizeVec.sub_access_in_bounds', 'Nix.SizeVec.idx_in_bounds', 'Nix.SizeVec.idx_refused', 'Nix.SizeVec.div_divisors_nonzero', 'Nix.SizeVec.positionInData_sound']
LEAN_MODULES = ['NixModel.Props.C16Typed', 'NixModel.Props.C16', 'NixModel.Props.C16Sizes', 'NixModel.Props.C16Chunk']
RULE = ('abuse programs on the ASan + UBSan build of the library: (a) entity-tree histories in which every kind of call is also made through stale '
        'handles (entities deleted directly or with their parent), through never-initialised handles ($-), with indices at / past the end, '
        'with names of deleted entities, on features whose data array is gone, after close; (b) the tag / multi-tag / slice retrieval inputs '
        '(position / extent / start / end vectors of 0..rank+2 entries, wrong ranks, zero-sized dimensions, index lists past the positions), '
        '(c) array I/O with counts / offsets outside the data, rank mismatches, appends along missing axes, reads of never-written data, (d) the '
        'rejected calls of C08. Verdict: the harness process must survive every op — any signal, sanitizer report or abort is a violation, '
        'the trace up to the fatal op is the replay. (Whether a misuse throws rather than returns is judged by the home family of the op.) '
        'non-trivial = a program in which at least one op was answered with an exception and at least one succeeded.')
TRUSTED = ['AddressSanitizer / UndefinedBehaviorSanitizer (clang/gcc runtime) as the observer of memory errors in libnixio; HDF5 itself is not instrumented',
           'lean/NixModel/Region.lean: every raw C++ vector access of the retrieval loops is an optional access (validated bit-exactly by C05 / C06 / C17)']
ASSUMPTIONS = ['use-after-free inside HDF5, uninitialised reads (no MSan build of HDF5) and allocator behaviour are beyond both parts']
LEVEL_TEXT = ('Lean 4 theorems for every rank, every argument-vector length and every dimension index: the raw vector accesses of the three retrieval loops '
              '(getOffsetAndCount for Tag and MultiTag, dataSlice after fillPositionsExtentsAndUnits) are inside their vectors — the model writes each such '
              'access as an optional access and the theorems show the none case unreachable (for dataSlice this is the statement that was false of the '
              'pinned tree, D3); an uninitialised or stale array handle is refused with UninitializedEntity before anything is touched; in the bounds-checked '
              'layer underneath (size vectors, the NDArray buffer, the position tests; NixModel/SizeVec.lean, replayed call by call) an accepted element '
              'access lies inside the allocated bytes, operator[] refuses every index >= rank, a division that is carried out has no zero divisor and an '
              'accepted position lies inside the data (each of the first three was false of the pinned tree: D35, D37, D36). PARTIAL for the '
              'property as a whole: memory safety of the compiled library is a runtime fact no model exhibits; it is observed, not proved, by running '
              'abuse programs (stale / uninitialised handles, indices past the end, wrong ranks, counts and offsets outside the data, never-written data, '
              'rejected calls) on the ASan + UBSan build in both tiers: any signal or sanitizer report is a violation with the trace prefix as replay.')
LEVEL_NOTE = ('Trusted: Lean kernel; Region.lean as a transcription of the loops (validated bit-exactly on every C05/C06/C17 run); the sanitizer runtimes; '
              'HDF5 is not instrumented. Not modelled: Hydra / DataSet buffer arithmetic, StringWriter/Janus buffers — covered by the sanitizer runs only.')

def abuse_history(rng, tier):
    """an entity tree, then every kind of call through handles that are stale, uninitialised or out of range"""
    w = World(rng, names=PLAIN)
    w.open('ow')
    for _ in range(rng.randint(20, 40)):
        w.random_step()
    for b in w.alive('B')[:2]:
        for k in ('A', 'T', 'M', 'G', 'O', 'D'):
            if not w.alive(k, block=b.slot): w.mk(k, b)
    if not w.alive('S'): w.mk('S', None)
    for s_ in w.alive('S')[:2]:
        if not w.alive('P', parent=s_.slot): w.mk('P', s_)
    C04.dense_links(w, rng)
    for t in w.alive(['T', 'M'])[:3]:
        w.mk('R', t, name='x')
    L = w.emit
    # indices at / past the end, names that do not exist
    for b in w.alive('B')[:2]:
        for k in BLOCK_KINDS:
            n = len(w.alive(k, parent=b.slot))
            for i in (n, n + 1, 10 ** 6):
                L('get $x %s %s idx %d' % (k, b.slot, i))
            L('get $x %s %s name %s' % (k, b.slot, S('no such entity')))
            L('has %s %s name %s' % (k, b.slot, S('')))
            L('del %s %s name %s' % (k, b.slot, S('no such entity')))
    for t in w.alive(['T', 'M'])[:3]:
        L('getlink ref %s idx 99' % t.slot)
        L('get $x R %s idx 99' % t.slot)
        L('get $x R %s name %s' % (t.slot, S('zzz')))
        L('mk $y R %s %s %s $- tagged' % (t.slot, S('x'), S('x')))
        L('link ref %s handle $-' % t.slot) if False else None
    for g in w.alive('G')[:2]:
        for rel in ('mA', 'mD', 'mT', 'mM'):
            L('getlink %s %s idx 7' % (rel, g.slot))
    # never-initialised handles as arguments
    for b in w.alive('B')[:1]:
        L('mk $z M %s %s %s $-' % (b.slot, S('fresh-mtag-uninit'), S('t')))
    # delete targets that holders point to, then look things up through the holders
    for a in w.alive('A')[:3]:
        w.delete(a, rng.choice(['name', 'handle']))
        L('valid %s' % a.slot)
        L('set %s label %s' % (a.slot, S('on a deleted array')))
        L('set %s definition ~' % a.slot)
        L('da_setext %s [3]' % a.slot)
        L('da_fill %s %s' % (a.slot, lst([f64(1.0), f64(2.0)])))
        L('da_read1 %s' % a.slot)
        L('dims %s' % a.slot)
        L('adim %s sampled %s ~ ~ ~' % (a.slot, f64(1.0)))
        for t in w.alive(['T', 'M'])[:3]:
            L('link ref %s handle %s' % (t.slot, a.slot))
            L('unlink ref %s handle %s' % (t.slot, a.slot))
            L('haslink ref %s handle %s' % (t.slot, a.slot))
            L('get $x R %s name %s' % (t.slot, S('zzz')))
            L('has R %s name %s' % (t.slot, S(a.name)))
            L('del R %s name %s' % (t.slot, S(a.name)))
            L('mk $y R %s %s %s %s tagged' % (t.slot, S('x'), S('x'), a.slot))
            L('xcheck R %s' % t.slot)
            L('xlinks ref %s' % t.slot)
        for m in w.alive('M')[:2]:
            L('single positions %s handle %s' % (m.slot, a.slot))
            L('single extents %s handle %s' % (m.slot, a.slot))
        for g in w.alive('G')[:2]:
            L('link mA %s handle %s' % (g.slot, a.slot))
            L('unlink mA %s handle %s' % (g.slot, a.slot))
            L('xlinks mA %s' % g.slot)
        L('dump')
    # delete parents, then use the children's handles
    for parent_kind, child_kinds in (('B', ['A', 'T', 'M', 'G', 'O', 'D']), ('S', ['S', 'P']), ('O', ['O'])):
        p = w.pick(parent_kind)
        if p is None or (parent_kind == 'B' and len(w.alive('B')) < 2): continue
        kids = [e for e in w.alive(child_kinds) if e.parent == p.slot]
        w.delete(p, rng.choice(['name', 'handle']))
        for e in kids[:4] + [p]:
            L('valid %s' % e.slot)
            L('idof %s' % e.slot)
            L('set %s definition %s' % (e.slot, S('through a stale handle')))
            if e.kind in ('B', 'A', 'T', 'M', 'G', 'O', 'D'):
                sec = w.pick('S')
                if sec: L('single metadata %s handle %s' % (e.slot, sec.slot))
                L('single metadata %s none ~' % e.slot)
            if e.kind == 'B':
                L('mk $q A %s %s %s Double [2]' % (e.slot, S('in-a-deleted-block'), S('t')))
                L('xcheck A %s' % e.slot)
                L('count T %s' % e.slot)
            if e.kind in ('S',):
                L('mk $q P %s %s %s Int32' % (e.slot, S('p-in-deleted'), S('x')))
                L('xcheck P %s' % e.slot)
                L('xcheck S %s' % e.slot)
            if e.kind == 'O':
                L('xcheck O %s' % e.slot)
                L('mk $q O %s %s %s' % (e.slot, S('o-in-deleted'), S('t')))
            if e.kind in ('T', 'M'):
                L('xlinks ref %s' % e.slot)
                L('xcheck R %s' % e.slot)
            if e.kind == 'S':
                L('mkpv $pe %s %s []' % (e.slot, S('no-values')))       # createProperty(name, {}) — an empty container
            if e.kind == 'P':
                L('pvalues %s %s' % (e.slot, lst(['Int32:3'])))
                L('pget %s' % e.slot)
        L('dump')
    # after close: every handle is stale
    L('fclose')
    for e in w.alive()[:12]:
        L('valid %s' % e.slot)
        L('idof %s' % e.slot)
        L('set %s definition %s' % (e.slot, S('after close')))
    L('dump')
    L('fisopen')
    return [l for l in w.lines if l]

def cases(tier, seed, rng):
    from vlib.runner import Case
    r2 = random.Random(seed * 7919 + 16)
    out = []
    n = 8 if tier == 'quick' else 250
    out += [Case(abuse_history(r2, tier), 'gen:abuse-store') for _ in range(n)]
    # the inputs of the retrieval, array and reject families under the sanitizers, with a seed of their own
    sub = 'quick'
    for mod, frac in ((C05, 0.3), (C06, 0.25), (C17, 0.15), (C01, 0.3), (C08, 0.12), (C13, 0.04), (C14, 0.08), (C15, 0.1), (C19, 0.15), (C20, 0.15)):
        cs = mod.cases(sub if tier == 'quick' else 'thorough', seed + 1600, random.Random(seed * 104729 + int(mod.ID[1:])))
        k = max(3, int(len(cs) * frac)) if tier == 'quick' else max(3, int(len(cs) * 0.25))
        # evenly spread over the family's case list (which is grouped by generator), the last case included
        step = max(1, len(cs) // k)
        pick = cs[::step][:k] + ([cs[-1]] if cs else [])
        for c in pick:
            c.origin = 'abuse:' + mod.ID + ':' + c.origin
        out += pick
    # the index conversions at the edge of the number format (intervals +inf / denormal, offsets and positions whose difference
    # overflows: the index estimate is inf or NaN) and on a range axis without ticks, under the sanitizers (float-cast-overflow included)
    for c in C07.cases('quick', seed + 1607, random.Random(seed * 104729 + 7)):
        if c.origin in ('gen:sampled-extreme', 'gen:range-empty', 'gen:count-extreme'):
            c.origin = 'abuse:C07:' + c.origin
            out.append(c)
    # token-level abuse of the programs of every family (checks/abuse_dims.py): harness only, survival only
    from checks import abuse_dims
    ab = abuse_dims.cases(tier, seed + 1616, random.Random(seed * 31337 + 16))
    if tier == 'quick':
        ab = ab[:max(10, len(ab) // 3)]
    for c in ab:
        c.origin = 'abuse_dims:' + c.origin
        c.meta['no_driver'] = True
    # corners of the public API no other family reaches (checks/abuse_api.py): size-vector arithmetic, NDArray element access,
    # position tests, per-column getters of a data-frame dimension; answers predicted by NixModel/SizeVec.lean
    from checks import abuse_api
    api = abuse_api.cases(tier, seed + 1617, random.Random(seed * 7919 + 17))
    return out + api + ab + wrong_class_reads(tier, seed) + frame_count_abuse(tier, seed) + memcheck_cases(tier, seed, ab)

def wrong_class_reads(tier, seed):
    """reads and writes with a buffer of the wrong element class — strings asked of a numeric array and numbers of a string array —
    with and without a calibration (expansion origin alone, polynomial alone, both): refused before anything is written into the
    caller's strings (harness only: the answers are not this property's)"""
    from vlib.runner import Case
    from vlib.tok import f64, lst
    rng = random.Random(seed * 48611 + 5)
    out = []
    for k in range(6 if tier == 'quick' else 60):
        dt = rng.choice(['Double', 'Int32', 'Float', 'String', 'UInt8', 'Bool'])
        n = rng.choice([2, 3, 5])
        L = ['da_new %s [%d] none none' % (dt, n)]
        for _ in range(rng.randint(3, 8)):
            q = rng.random()
            if q < 0.25: L.append('da_origin %s' % rng.choice([f64(1.5), f64(0.0), '~']))
            elif q < 0.45: L.append('da_poly %s' % rng.choice([lst([f64(1.0), f64(2.0)]), lst([f64(0.0)]), '~', '[]']))
            else:
                rdt = rng.choice(['String', 'String', 'Double', 'Int32', 'Bool', 'UInt8'])
                cnt = rng.choice([1, n, n])
                op = rng.choice(['da_rd', 'da_rd', 'da_rdd', 'da_one vec', 'da_one rd3'])
                if op == 'da_one vec' and rdt != 'Bool': L.append('da_one vec %s [%d] [0]' % (rdt, cnt))
                elif op == 'da_one rd3': L.append('da_one rd3 %s [1] [0]' % rdt)
                else: L.append('%s %s [%d] [0] %d' % (op if op.startswith('da_rd') else 'da_rd', rdt, cnt, cnt))
        c = Case(L, 'gen:wrong-class-reads'); c.meta['no_driver'] = True
        out.append(c)
    # a calibrated array asked for EVERY element type (the calibrated values are doubles converted for the caller: whatever the
    # element size of the requested type, nothing may be written beyond `count` elements of it), whole and in part, raw and typed
    for cal in (['da_origin ' + f64(1.5)], ['da_poly ' + lst([f64(1.0), f64(2.0)])], ['da_origin ' + f64(0.5), 'da_poly ' + lst([f64(0.0), f64(1.0), f64(0.5)])]):
        for dt in (('Double', 'Int16', 'Bool') if tier == 'quick' else C01.A.DTYPES):
            if dt == 'String': continue
            n = rng.choice([3, 5, 9])
            L = ['da_new %s [%d] none none' % (dt, n)] + cal
            for rdt in C01.A.DTYPES:
                L.append('da_rd %s [%d] [0] %d' % (rdt, n, n))
                L.append('da_rd %s [1] [%d] 1' % (rdt, n - 1))
                if rdt not in ('String', 'Bool'): L.append('da_one vec %s [%d] [0]' % (rdt, n))
                L.append('da_one rd3 %s [1] [0]' % rdt)
            c = Case(L, 'gen:calibrated-read-as-every-type'); c.meta['no_driver'] = True
            out.append(c)
    return out

def frame_count_abuse(tier, seed):
    """column transfers of a data frame whose count is larger than the vector handed in (while offset + count stays within the rows),
    whose offset or count lies outside the rows, with empty vectors — numeric and String columns, writes and reads: refused, never
    served from beyond the vector"""
    from vlib.runner import Case
    rng = random.Random(seed * 92821 + 9)
    out = []
    for k in range(4 if tier == 'quick' else 40):
        cols = ['%s:%s:%s' % (S('c%d' % i), S(''), t) for i, t in enumerate(rng.sample(['Double', 'Int32', 'String', 'Int64', 'Bool', 'UInt64'], 3))]
        rows = rng.choice([8, 64, 600])
        L = ['df_new ' + lst(cols), 'df_rows %d' % rows]
        for i, c in enumerate(cols):
            t = c.rsplit(':', 1)[1]
            val = {'Double': f64(1.5), 'Int32': '7', 'String': S('some text that is longer than a small-string buffer'), 'Int64': '-9', 'Bool': '1', 'UInt64': '3'}[t]
            for nvals, off, cnt in ((4, rows // 2, rows // 2), (1, 0, rows), (0, 0, 5), (3, rows - 2, 2), (3, rows - 2, 3), (2, rows + 5, 1), (4, 0, 2 ** 40), (4, 2 ** 63, 4)):
                L.append('df_wcol i%d %s %s %d %d' % (i, t, lst([val] * nvals), off, cnt))
            L.append('df_rcolc i%d %s 2 %d 0 0' % (i, t, rows))
            L.append('df_rcolc i%d %s 2 5 0 %d' % (i, t, rows - 2))
            L.append('df_rcol i%d %s 0 0 0' % (i, t))
        L.append('df_rrow %d' % (rows - 1))
        c_ = Case(L, 'gen:frame-count-abuse'); c_.meta['no_driver'] = True
        out.append(c_)
    return out

def memcheck_cases(tier, seed, ab):
    """programs for valgrind's memcheck on the PLAIN build (meta valgrind): what the sanitizer build cannot see — reads and writes
    outside allocated blocks INSIDE libhdf5, which is not instrumented (the library hands it caller-supplied count / offset / shape
    arrays).  Hand-written rank abuse of the raw data API of arrays and views, plus a slice of the token-level abuse programs of
    the array, dimension and index families."""
    from vlib.runner import Case
    from vlib.tok import f64, lst
    rng = random.Random(seed * 65537 + 43)
    out = []
    for k in range(3 if tier == 'quick' else 40):
        rank = 1 + k % 3
        shape = [rng.choice([2, 3, 4]) for _ in range(rank)]
        L = ['da_new %s %s none none' % (rng.choice(['Double', 'Int32', 'String', 'UInt8']), lst([str(x) for x in shape]))]
        def vec(n, pool): return lst([str(rng.choice(pool)) for _ in range(n)])
        for _ in range(10 if tier == 'quick' else 25):
            nc, no = rng.randint(0, rank + 1), rng.randint(0, rank + 1)
            q = rng.random()
            if rng.random() < 0.25:
                # typed transfers of ONE value (a heap cell of one element) and of a vector the library sizes
                how = rng.choice(['rd3', 'rd2', 'wr2', 'vec'])
                arg = {'rd3': vec(nc, [1, 1, 2]), 'vec': vec(nc, [1, 1, 2, 3]), 'rd2': '~', 'wr2': f64(4.0)}[how]
                L.append('%s_one %s Double %s %s' % (rng.choice(['da', 'dv']), how, arg, vec(no, [0, 0, 1])))
                continue
            if q < 0.35: L.append('da_rd Double %s %s 1' % (vec(nc, [1, 1, 2]), vec(no, [0, 0, 1])))
            elif q < 0.6: L.append('da_wr Double %s %s %s' % (vec(nc, [1, 1, 2]), vec(no, [0, 0, 1]), lst([f64(1.0)])))
            elif q < 0.7: L.append('da_ext %s' % vec(rng.randint(0, rank + 1), [1, 2, 5]))
            elif q < 0.8: L.append('da_app Double %s %d %s' % (vec(nc, [1, 2]), rng.randint(0, rank), lst([f64(2.0)])))
            elif q < 0.9:
                L.append('dv_new %s %s' % (vec(nc, [1, 2]), vec(no, [0, 1])))
                L.append('dv_rd Double %s %s 1' % (vec(rng.randint(0, rank + 1), [1, 1, 2]), vec(rng.randint(0, rank + 1), [0, 0, 1])))
            else:
                L.append('dv_wr Double %s %s %s' % (vec(rng.randint(0, rank + 1), [1, 1]), vec(rng.randint(0, rank + 1), [0, 0, 1]), lst([f64(3.0)])))
        out.append(Case(L, 'memcheck:rank-abuse', meta={'valgrind': True}))
    pick = [c for c in ab if c.origin.split(':')[-1] in ('array', 'dimdesc', 'region-index')]
    step = max(1, len(pick) // (10 if tier == 'quick' else 120))
    for c in pick[::step]:
        out.append(Case(c.lines, 'memcheck:' + c.origin, meta={'valgrind': True}))
    return out

def relevant(f):
    # memory errors, crashes, hangs — and harness/driver mismatches of this family's own ops
    # (the answers of the `ab_*` ops are this property's own: an index past the end must be refused, not answered)
    return f.kind in ('FATAL', 'MALFORMED', 'UNKNOWN') or (f.kind == 'DIFF' and f.tag().startswith('ab_'))

def nontrivial(case, tags):
    return any('err' in t.lower() or t.endswith('.0') for t in tags) and any(t.endswith('ok') or '.ok' in t for t in tags)
def signature(f):
    return '%s:%s:%s' % (f.kind, f.tag(), f.rule())
