"""generator pieces for the array family (C01) and DataView (C17)"""
import math, struct
from vlib.tok import f64, lst

DTYPES = ['Bool', 'Int8', 'Int16', 'Int32', 'Int64', 'UInt8', 'UInt16', 'UInt32', 'UInt64', 'Float', 'Double', 'String']
RANGES = {'Int8': (-128, 127), 'Int16': (-32768, 32767), 'Int32': (-2 ** 31, 2 ** 31 - 1), 'Int64': (-2 ** 63, 2 ** 63 - 1),
          'UInt8': (0, 255), 'UInt16': (0, 65535), 'UInt32': (0, 2 ** 32 - 1), 'UInt64': (0, 2 ** 64 - 1), 'Bool': (0, 1)}

def f32(x):
    return 'f%08x' % struct.unpack('<I', struct.pack('<f', x))[0]

def prod(l):
    n = 1
    for x in l: n *= x
    return n

def value(dt, rng):
    if dt in RANGES:
        lo, hi = RANGES[dt]
        r = rng.random()
        if r < 0.15: return str(lo)
        if r < 0.3: return str(hi)
        if r < 0.4: return '0'
        return str(rng.randint(max(lo, -1000), min(hi, 1000)))
    if dt == 'Float':
        r = rng.random()
        if r < 0.1: return 'f7fc00001'      # NaN with payload
        if r < 0.15: return 'f7f800000'
        if r < 0.2: return 'f80000000'
        return f32(rng.choice([0.5, -1.25, 3.0, 1e-30, 123456.0, rng.uniform(-10, 10)]))
    if dt == 'Double':
        r = rng.random()
        if r < 0.1: return 'd7ff8000000000abc'
        if r < 0.15: return 'dfff0000000000000'
        if r < 0.2: return 'd8000000000000000'
        return f64(rng.choice([0.1, -2.5, 1e300, 5e-324, rng.uniform(-1e3, 1e3)]))
    # String
    r = rng.random()
    s = rng.choice(['', 'a', 'hello world', 'äöü€', 'x' * rng.randint(1, 300), 'tab\tnew\nline', 'nul-free \x01 byte'])
    return 'x' + s.encode('utf-8').hex()

def small_value(dt, rng):
    """a value exactly representable in every numeric type (for reads as another type and calibration)"""
    v = rng.randint(0, 100) if dt in ('Bool',) or dt.startswith('U') else rng.randint(-100, 100)
    if dt == 'Bool': v = rng.randint(0, 1)
    if dt in RANGES: return str(v)
    if dt == 'Float': return f32(float(v))
    if dt == 'Double': return f64(float(v))
    return 'x' + str(v).encode().hex()

def shape_for(rng, rank=None):
    rank = rank or rng.choice([1, 1, 2, 2, 3, 4])
    return [rng.choice([1, 2, 3, 4, 6]) for _ in range(rank)]

def sub_box(shape, rng, may_exceed=0.0):
    off, cnt = [], []
    for n in shape:
        o = rng.randrange(0, n)
        c = rng.randint(1, n - o)
        if rng.random() < may_exceed:
            c += rng.randint(1, 2)
        off.append(o); cnt.append(c)
    return off, cnt

def idx(l): return lst([str(x) for x in l])
