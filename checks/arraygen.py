"""generator pieces for the array family (C01) and DataView (C17)"""
import math, struct
from vlib.tok import f64, lst

DTYPES = ['Bool', 'Int8', 'Int16', 'Int32', 'Int64', 'UInt8', 'UInt16', 'UInt32', 'UInt64', 'Float', 'Double', 'String']
RANGES = {'Int8': (-128, 127), 'Int16': (-32768, 32767), 'Int32': (-2 ** 31, 2 ** 31 - 1), 'Int64': (-2 ** 63, 2 ** 63 - 1),
          'UInt8': (0, 255), 'UInt16': (0, 65535), 'UInt32': (0, 2 ** 32 - 1), 'UInt64': (0, 2 ** 64 - 1), 'Bool': (0, 1)}

def f32(x):
    return 'f%08x' % struct.unpack('<I', struct.pack('<f', x))[0]

def prod(l):
    n = 1
    for x in l: n *= x
    return n

def value(dt, rng):
    if dt in RANGES:
        lo, hi = RANGES[dt]
        r = rng.random()
        if r < 0.15: return str(lo)
        if r < 0.3: return str(hi)
        if r < 0.4: return '0'
        return str(rng.randint(max(lo, -1000), min(hi, 1000)))
    if dt == 'Float':
        r = rng.random()
        if r < 0.1: return 'f7fc00001'      # NaN with payload
        if r < 0.15: return 'f7f800000'
        if r < 0.2: return 'f80000000'
        return f32(rng.choice([0.5, -1.25, 3.0, 1e-30, 123456.0, rng.uniform(-10, 10)]))
    if dt == 'Double':
        r = rng.random()
        if r < 0.1: return 'd7ff8000000000abc'
        if r < 0.15: return 'dfff0000000000000'
        if r < 0.2: return 'd8000000000000000'
        return f64(rng.choice([0.1, -2.5, 1e300, 5e-324, rng.uniform(-1e3, 1e3)]))
    # String
    r = rng.random()
    s = rng.choice(['', 'a', 'hello world', 'äöü€', 'x' * rng.randint(1, 300), 'tab\tnew\nline', 'nul-free \x01 byte'])
    return 'x' + s.encode('utf-8').hex()

def small_value(dt, rng):
    """a value exactly representable in every numeric type (for reads as another type and calibration)"""
    v = rng.randint(0, 100) if dt in ('Bool',) or dt.startswith('U') else rng.randint(-100, 100)
    if dt == 'Bool': v = rng.randint(0, 1)
    if dt in RANGES: return str(v)
    if dt == 'Float': return f32(float(v))
    if dt == 'Double': return f64(float(v))
    return 'x' + str(v).encode().hex()

def shape_for(rng, rank=None):
    rank = rank or rng.choice([1, 1, 2, 2, 3, 4])
    return [rng.choice([1, 2, 3, 4, 6]) for _ in range(rank)]

def sub_box(shape, rng, may_exceed=0.0):
    off, cnt = [], []
    for n in shape:
        o = rng.randrange(0, n)
        c = rng.randint(1, n - o)
        if rng.random() < may_exceed:
            c += rng.randint(1, 2)
        off.append(o); cnt.append(c)
    return off, cnt

def idx(l): return lst([str(x) for x in l])


def typed_op(rng, prefix, dt, shape, readonly=False, abuse=0.15, val=None):
    """one typed transfer of a single value / of a vector the library sizes (ops da_one / dv_one): the count the library works
    with is derived, not given — a single value is one element, a vector has the length of the one count entry above 1.
    shape = the extent of the data set (the window for a view). Mostly well-formed, sometimes another rank / outside / empty."""
    rank = len(shape)
    off = [rng.randrange(0, max(1, n)) for n in shape]
    q = rng.random()
    if q < abuse / 3: off = off[:-1]
    elif q < 2 * abuse / 3: off = off + [0]
    elif q < abuse: off = []
    elif q < abuse + 0.05 and off: off[rng.randrange(len(off))] += 7
    how = rng.choice(['rd3', 'rd3', 'rd2', 'rd2', 'vec', 'vec'] + ([] if readonly else ['wr2', 'wr2']))
    if dt == 'Bool' and how == 'vec': how = 'rd3'
    if how == 'rd3':
        cnt = rng.choice([[], [1] * rank, [1] * rank, [1] * (rank + 1), [1] * max(0, rank - 1), [2] + [1] * (rank - 1)])
        return '%s_one rd3 %s %s %s' % (prefix, dt, idx(cnt), idx(off))
    if how == 'rd2':
        return '%s_one rd2 %s ~ %s' % (prefix, dt, idx(off))
    if how == 'wr2':
        return '%s_one wr2 %s %s %s' % (prefix, dt, val() if val else small_value(dt, rng), idx(off))
    # a vector along one axis (row, column, …), sometimes with two long axes (refused), an empty count, a zero entry
    cnt = [1] * rank
    ax = rng.randrange(rank)
    cnt[ax] = rng.randint(1, max(1, shape[ax] - (off[ax] if ax < len(off) else 0)))
    q = rng.random()
    if q < 0.08 and rank > 1: cnt[(ax + 1) % rank] = 2
    elif q < 0.12: cnt = []
    elif q < 0.16: cnt[rng.randrange(rank)] = 0
    elif q < 0.2: cnt = cnt + [1]
    elif q < 0.24: cnt[ax] += 5
    return '%s_one vec %s %s %s' % (prefix, dt, idx(cnt), idx(off))
