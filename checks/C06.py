"""C06 — MultiTag retrieval returns exactly region i for position index i."""
from vlib.tok import f64, s as S, lst
from checks import regiongen as G
ID = 'C06'
HARNESS_ENV = {'NIXDRV_DOOR_MOD': '1'}      # every retrieval is asked through every entry point of the public API (harness/fam_region.cpp)
THEOREMS = ['Nix.C06.mtagOffsetCount_rows', 'Nix.C06.prepare_ok', 'Nix.C06.prepare_indep', 'Nix.C06.mtag_list_eq_map_single', 'Nix.C06.mtag_single_of_list', 'Nix.C06.mtag_index_oob', 'Nix.C06.mtag_all_of_none', 'Nix.C06.mtag_feature_all_of_none', 'Nix.C06.mtag_region_spec', 'Nix.C06.mtag_feature_tagged', 'Nix.C06.mtag_feature_untagged', 'Nix.C06.mtag_feature_indexed_single', 'Nix.C05.mtagDim_spec']
RULE = ('random multi-tags: N<=8 positions; 1-D positions tagging 1-D data, N x D tagging D-dimensional data, D2 != D; with / without extents; '
        'all descriptor kinds as in C05; default (Exclusive) and Inclusive; single indices, index lists with repeats, the empty list (= all), '
        'indices beyond N; all link types. non-trivial = the model returned at least one region; distinct = distinct op line.')
TRUSTED = ['lean/NixModel/Region.lean: hand-written model of getOffsetAndCount(MultiTag)/taggedData/featureData tied by element-exact correspondence',
           'C07 index kernels and C18 unit scaling (their own theorems)', 'HDF5 hyperslab reads']
ASSUMPTIONS = ['positions and extents arrays have the same shape', 'shapes >= 1 in every dimension', 'index lists passed to getOffsetAndCount are non-empty']

def matrix(rows):
    return lst([';'.join(f64(x) for x in r) for r in rows])

def mline(op, shape, dims, pos, flat, ext, units, sel, rm, extra=''):
    return '%s %s %s %s %d %s %s %s %s%s' % (op, lst([str(n) for n in shape]), lst([d.tok() for d in dims]), matrix(pos), 1 if flat else 0,
                                              '~' if ext is None else matrix(ext), lst([S(u) for u in units]), sel, rm, extra)

def rounding_axis(d):
    """an axis whose end cannot be recomputed from its start: first + (last - first) != last"""
    if d.kind not in 'SR' or d.n < 2: return False
    first, last = d.coords[0], d.coords[d.n - 1] if d.kind == 'S' else d.coords[min(d.n, len(d.coords)) - 1]
    return first + (last - first) != last

def gen_mtag(rng, short=False):
    shape, dims = G.make_array(rng)
    if short:
        # positions with fewer columns than the data has dimensions, the unspecified axis being one whose end does not survive
        # a round trip through (last - first)
        for _ in range(200):
            shape, dims = G.make_array(rng, rank=rng.choice([2, 2, 3]))
            if rounding_axis(dims[-1]): break
    rank = len(shape)
    n = rng.choice([1, 2, 3, 5, 8])
    r = rng.random()
    cols = rank if r < 0.75 else max(1, rank - 1) if r < 0.9 else rank + 1
    if short: cols = rank - 1
    flat = rank == 1 and cols == 1 and rng.random() < 0.6
    if rank > 1 and rng.random() < 0.05:
        flat, cols = True, 1          # 1-D positions for n-d data: the library rejects this
    pos, ext = [], []
    for _ in range(n):
        prow, erow = [], []
        for c in range(cols):
            d = dims[c] if c < rank else dims[-1]
            p = G.pick_position(d, rng)
            prow.append(p); erow.append(G.pick_extent(d, p, rng))
        pos.append(prow); ext.append(erow)
    r = rng.random()
    extm = None if r < 0.3 else ext
    if r > 0.92:
        extm = [[0.0] * cols for _ in range(n)]
    r = rng.random()
    if r < 0.5:
        units = []
    else:
        units = [dims[c].own_unit() if c < rank else 'none' for c in range(min(cols, rank))]
        if r > 0.8:
            # rescale whole columns into another prefix where that is exact
            for c in range(len(units)):
                u = units[c]
                if u in G.TIME_UNITS + G.VOLT_UNITS:
                    fam = G.TIME_UNITS if u in G.TIME_UNITS else G.VOLT_UNITS
                    v = rng.choice(fam)
                    newp = [G.rescale(row[c], u, v) for row in pos]
                    newe = [G.rescale(row[c], u, v) for row in ext] if extm is not None else []
                    if all(x is not None for x in newp + newe):
                        for i in range(n):
                            pos[i][c] = newp[i]
                            if extm is not None and extm is ext: ext[i][c] = newe[i]
                        units[c] = v
    return shape, dims, pos, flat, extm, units, n

def cases(tier, seed, rng):
    from vlib.runner import Case
    n = 700 if tier == 'quick' else 20000
    out, batch = [], []
    for k in range(n):
        shape, dims, pos, flat, ext, units, npos = gen_mtag(rng, short=(k % 10 == 9))
        rms = ('excl', 'incl') if k % 3 else ('excl',)
        for rm in rms:
            i = rng.randrange(npos)
            batch.append(mline('mtag_data1', shape, dims, pos, flat, ext, units, str(i), rm))
            sel = [rng.randrange(npos) for _ in range(rng.choice([1, 2, 3]))]
            if rng.random() < 0.15: sel = []
            if rng.random() < 0.08: sel.append(npos + rng.randrange(2))
            batch.append(mline('mtag_data', shape, dims, pos, flat, ext, units, lst([str(x) for x in sel]), rm))
        if k % 4 == 0:
            batch.append(mline('mtag_oc', shape, dims, pos, flat, ext, units, str(rng.randrange(npos + 1)), 'excl'))
        if k % 5 == 0:
            for ltype in ('tagged', 'untagged', 'indexed'):
                if ltype == 'indexed':
                    fshape = [rng.choice([npos, npos, npos + 1, npos + 3, max(1, npos - 1)]), rng.choice([1, 3])]
                    fd = [G.Dim('T', fshape[0], rng, False), G.Dim('S', fshape[1], rng, False)]
                else:
                    fshape, fd = G.make_array(rng, rank=len(shape) if rng.random() < 0.7 else None)
                sel = [rng.randrange(npos) for _ in range(rng.choice([1, 2]))]
                # a position index that does not exist (also where the feature itself has that many rows), alone or in a list
                if rng.random() < 0.3: sel.insert(rng.randrange(len(sel) + 1), npos + rng.randrange(3))
                if rng.random() < 0.15: sel = [npos + rng.randrange(3)]
                if rng.random() < 0.1: sel = []          # the feature data of ALL positions
                batch.append(mline('mtag_feat', shape, dims, pos, flat, ext, units, lst([str(x) for x in sel]), rng.choice(['excl', 'incl']),
                                   ' %s %s %s' % (ltype, lst([str(x) for x in fshape]), lst([d.tok() for d in fd]))))
        if len(batch) >= 150:
            out.append(Case(batch, 'gen:mtag')); batch = []
    if batch: out.append(Case(batch, 'gen:mtag'))
    # multi-tags WITHOUT positions (an empty positions array): "all positions" is no region at all, any index is out of bounds —
    # for references and for features of every link type
    batch = []
    for k in range(6 if tier == 'quick' else 120):
        shape, dims = G.make_array(rng)
        flat = len(shape) == 1 and rng.random() < 0.7
        for rm in ('excl', 'incl'):
            for sel in ([], [0], [1, 0]):
                batch.append(mline('mtag_data', shape, dims, [], flat, None, [], lst([str(x) for x in sel]), rm))
                for ltype in ('tagged', 'untagged', 'indexed'):
                    fshape, fd = G.make_array(rng, rank=len(shape) if ltype == 'tagged' else None)
                    batch.append(mline('mtag_feat', shape, dims, [], flat, None, [], lst([str(x) for x in sel]), rm,
                                       ' %s %s %s' % (ltype, lst([str(x) for x in fshape]), lst([d.tok() for d in fd]))))
    out.append(Case(batch, 'gen:mtag-without-positions'))
    # requests in a unit that differs from the axis unit but scales to it, several positions to a request (exact dyadic values, built
    # by the units family): every entry of the batch is rescaled, not only the first
    from checks import C18
    scaled = [l for l in C18.retrieval_lines(tier, rng) if l.startswith(('mtag_data ', 'mtag_data1 '))]
    rng.shuffle(scaled)
    scaled = scaled[: (400 if tier == 'quick' else 6000)]
    for k in range(0, len(scaled), 200):
        out.append(Case(scaled[k:k + 200], 'gen:mtag-scaled-units'))
    return out

def nontrivial(case, tags):
    return any(t.endswith('.ok') for t in tags)
def signature(f):
    op = f.tag().split('.')[0]
    if f.rule() == 'row_unspecified_dimensions_in_full_in_exclusive_mode':
        op = 'mtag'      # one defect, reached through every multi-tag entry point
    return '%s:%s:%s' % (f.kind, op, f.rule())
def minimal(f):
    return [f.case.lines[f.line_no]]

LEVEL_TEXT = ('Lean 4 theorems for every positions/extents matrix, index list and descriptor combination: region i obeys the Tag rule on row i of positions/extents (same theorem as C05, with zero extent read as end == start); the j-th region of a list retrieval is the region of the single retrieval of its j-th index and vice versa; an index beyond the number of positions raises OutOfBounds; indexed features are slice i of the first dimension, untagged whole, tagged cut like references. Model tied by element-exact correspondence incl. the default Exclusive mode; every answer judged by the coordinate-level evaluator. Unspecified dimensions in Exclusive mode: known finding K2.')
LEVEL_NOTE = ('Trusted: as C05; positions and extents of equal shape; non-empty index lists for getOffsetAndCount.')
