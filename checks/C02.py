"""C02 — close and reopen preserves the complete entity tree."""
from checks.storegen import World, NAMES, PLAIN
from checks import C04
ID = 'C02'
THEOREMS = []
RULE = ('random create / modify / link / unlink / delete histories over all entity kinds (sources and sections nested up to depth 4); at random '
        'points and at the end: dump, close, reopen read-only or read-write (in the same process, and in a freshly started harness process for the '
        'second half), dump; flushes in between. The two dumps of the real library are compared with each other. non-trivial = the dump holds at '
        'least 6 entities; distinct = distinct op text.')
TRUSTED = ['harness dump: ids, names, types, definitions, labels, units, positions/extents, dimension descriptors, all link structure, creation times, data digests',
           'what HDF5 does between H5Fclose and the bytes on disk']
ASSUMPTIONS = []

def history(rng, tier):
    w = World(rng, names=NAMES if rng.random() < 0.5 else PLAIN)
    w.open('ow')
    n = rng.randint(25, 60 if tier == 'quick' else 120)
    for i in range(n):
        w.random_step()
        if rng.random() < 0.05:
            C04.dense_links(w, rng)
        if rng.random() < 0.06:
            w.emit('fflush')
        if rng.random() < 0.07:
            w.emit('dump')
            mode = rng.choice(['ro', 'rw'])
            w.emit('fdrop'); w.emit('fopen %s auto' % mode)
            w.emit('dump')
            if mode == 'ro':
                w.emit('fdrop'); w.emit('fopen rw auto')
            w.rebind()
    # end of history, deliberately WITHOUT looking at the tree first: read-only session, another process with its own
    # time zone, read-write session — all three must show the same tree
    w.emit('fdrop'); w.emit('fopen ro auto')
    w.emit('dump')
    w.emit('fdrop')
    w.emit('dumpx %s' % rng.choice(['JST-9', 'EST5', 'UTC0', 'CET-1CEST']))
    w.emit('fopen rw auto')
    w.emit('dump')
    return w.lines

def cases(tier, seed, rng):
    from vlib.runner import Case
    n = 50 if tier == 'quick' else 1200
    return [Case(history(rng, tier), 'gen:tree') for _ in range(n)]

def nontrivial(case, tags):
    return any(t.startswith('dump.after_reopen') for t in tags)
def signature(f):
    return '%s:%s:%s' % (f.kind, f.tag(), f.rule())
