"""C02 — close and reopen preserves the complete entity tree."""
from checks.storegen import World, NAMES, PLAIN, with_hdump
from vlib.tok import f64, s as S, lst
from checks import C04
ID = 'C02'
TECHNIQUE = "Lean 4 proof over a hand-written store model + tables translated from the source on every run (container groups of the backend constructors; the attribute names of every accessor: getter, setter and reset agree; enum <-> string conversions are round trips) + differential correspondence (trace validation) with the built library"
THEOREMS = ['Nix.Enums.dimension_type_roundtrip', 'Nix.Enums.dimension_type_strings_agree', 'Nix.Enums.link_type_roundtrip', 'Nix.Enums.link_type_strings_agree', 'Nix.Enums.link_type_vector_covers_the_enum', 'Nix.Enums.data_type_roundtrip', 'Nix.Enums.data_type_names_distinct', 'Nix.Fields.accessor_overloads_name_one_field', 'Nix.Fields.every_written_field_is_read', 'Nix.Fields.every_read_field_is_written', 'Nix.Fields.reset_removes_what_the_setter_writes', 'Nix.Fields.getter_has_a_setter', 'Nix.Fields.model_field_names', 'Nix.Containers.constructors_agree', 'Nix.Containers.opened_by_both_constructors', 'Nix.Containers.model_container_names', 'Nix.St.newFile_rootOK', 'Nix.St.reopenRW_id', 'Nix.St.reopen_observe_eq', 'Nix.St.reopen_then_continue', 'Nix.St.setAttr_rootOK',
            'Nix.St.newFile_sys', 'Nix.St.apply_sys', 'Nix.St.run_sys', 'Nix.St.Sys.rootOK', 'Nix.St.reopen_after_any_history', 'Nix.St.reopen_inside_any_history']
LEAN_MODULES = ['NixModel.Props.C13Enums', 'NixModel.Gen.Enums', 'NixModel.Props.C02Fields', 'NixModel.Gen.Fields', 'NixModel.Props.C02Containers', 'NixModel.Gen.Containers', 'NixModel.Props.C02', 'NixModel.Proofs.SysInv', 'NixModel.Proofs.SysOps', 'NixModel.Proofs.SysHistory']
RULE = ('random create / modify / link / unlink / delete histories over all entity kinds (sources and sections nested up to depth 4); at random '
        'points and at the end: dump, close, reopen read-only or read-write (in the same process, and in a freshly started harness process for the '
        'second half), dump; flushes in between. The two dumps of the real library are compared with each other. non-trivial = the dump holds at '
        'least 6 entities; distinct = distinct op text.')
TRUSTED = ['harness dump: ids, names, types, definitions, labels, units, positions/extents, dimension descriptors, all link structure, creation times, data digests',
           'what HDF5 does between H5Fclose and the bytes on disk']
LEVEL_TEXT = ("Lean 4 theorems about the store model: the observable tree is a function of the store alone (no session state enters observe), closing writes nothing, a read-only open writes nothing and a read-write open of a file that has its two root groups and its creation time writes nothing — so the tree after close + reopen in either mode is the tree before, and a history with reopen steps inside equals the history without them. That premise is itself proved for every reachable state: the system invariant Sys (root = exactly metadata -> 1, data -> 2 plus the creation time; no other link reaches the root objects) holds for a new file and is preserved by every one of the 30 entry points of the store model (apply_sys) and hence by every history (run_sys), so reopen_after_any_history and reopen_inside_any_history carry no hypothesis on the state. These theorems are thin by nature (they say that nix has no write-back cache, which the model has by construction); what decides the property on the code is the correspondence: on every generated history (all entity kinds, nesting <= 4, interior flush / reopen) the library's dump before close, after reopen read-only, from a freshly started reader process in another time zone, and after reopen read-write must be identical, and the model must predict each of them.")
LEVEL_NOTE = ("Trusted: Lean kernel; the abstract HDF5 store of lean/NixModel/Store.lean (objects, attributes, ordered hard links, removeAllLinks = every link to the object goes, creation-order index) and the hand-written entity layer lean/NixModel/Entities.lean, both validated on every run: the model replays every op of every generated history and must predict the library's answer (result / exception class, looked-up ids, counts, enumerations, cross-checks) and, at every dump, the whole observable tree (observe); ids and creation times are taken from the trace; fields the store model does not carry (array data, dimension descriptors, calibration, property values, row counts) are compared between dumps of the library only; harness dump = every public getter of every entity. What HDF5 does between H5Fclose and the bytes on disk is trusted.")
ASSUMPTIONS = []

def stale_route(w, rng):
    """an entity fetched THROUGH a holder (tag reference, attached source, group member), and the holder's link removed again: the
    handle's remembered route is gone while the entity lives on; it is then asked whether it is valid / still in its block.
    Half of the time the link is removed through ANOTHER route to the holder (the holder itself fetched through a tag or a group):
    then HDF5 does not notice that the name it remembers for the first handle is stale."""
    for rel, holders, kind in (('src', ['A', 'T', 'G'], 'O'), ('ref', ['T', 'M'], 'A'), ('mA', ['G'], 'A'), ('mT', ['G'], 'T')):
        h = w.pick(holders)
        if not h or rng.random() < 0.5: continue
        x = w.pick(kind, block=h.block)
        if not x: continue
        slot = w.fresh()
        w.emit('link %s %s handle %s' % (rel, h.slot, x.slot))
        w.emit('getlinkh %s %s %s idof %s' % (slot, rel, h.slot, x.slot))
        via = h.slot
        if rng.random() < 0.6:
            # a second route to the holder
            if h.kind == 'A':
                t = w.pick(['T', 'M'], block=h.block); r2 = 'ref'
            elif h.kind in ('T', 'M'):
                t = w.pick('G', block=h.block); r2 = 'mT' if h.kind == 'T' else 'mM'
            else:
                t = None
            if t:
                via = w.fresh()
                w.emit('link %s %s handle %s' % (r2, t.slot, h.slot))
                w.emit('getlinkh %s %s %s idof %s' % (via, r2, t.slot, h.slot))
        w.emit('unlink %s %s handle %s' % (rel, via, slot))
        w.emit('valid %s' % slot); w.emit('valid %s' % slot)       # through the handle that came by the vanished route, and through its twin
        if x.parent == x.block:
            w.emit('has %s %s handle %s' % (kind, x.block, slot)); w.emit('has %s %s handle %s' % (kind, x.block, slot))

def readonly_interlude(w, rng):
    """a read-only session in which mutators are attempted (all refused); what it shows before its close is what the next session shows"""
    w.emit('dump')
    w.emit('fdrop'); w.emit('fopen ro auto')
    w.rebind()
    for _ in range(rng.randint(2, 6)):
        q = rng.random()
        if q < 0.35: w.random_set()
        elif q < 0.75: w.random_content_step()
        elif q < 0.85:
            b = w.pick('B')
            if b: w.random_link(b)
        else:
            a = w.pick('A')
            if a: w.emit('set %s %s' % (a.slot, rng.choice(['origin ' + f64(2.5), 'poly ' + lst([f64(1.0), f64(3.0)])])))
    w.emit('dump')
    w.emit('fdrop'); w.emit('fopen rw auto')
    w.emit('dump')
    w.rebind()

def readonly_setters_case(rng):
    """a file whose entities carry every kind of stored value (strings, doubles, vectors, links); a read-only session tries to
    overwrite each of them; what that session shows before it is closed is what the next session — and another process — shows"""
    w = World(rng, names=PLAIN)
    w.open('ow')
    b = w.mk('B', None, name='b')
    sec = w.mk('S', None, name='s'); p = w.mk('P', sec, name='p')
    arrs = [w.mk('A', b, name='arr%d' % i, extra=[3]) for i in range(3)]
    t = w.mk('T', b, name='t'); src = w.mk('O', b, name='o')
    for a in arrs:
        w.emit('adim %s sampled %s %s %s %s' % (a.slot, f64(rng.choice([0.5, 0.1])), S('time'), S('ms'), f64(rng.choice([1.5, -2.0]))))
        w.emit('set %s origin %s' % (a.slot, f64(1.25)))
        w.emit('set %s poly %s' % (a.slot, lst([f64(0.0), f64(2.0)])))
        w.emit('set %s label %s' % (a.slot, S('lbl'))); w.emit('set %s unit %s' % (a.slot, S('mV')))
        w.emit('da_fill %s %s' % (a.slot, lst([f64(1.0), f64(2.0), f64(3.0)])))
    w.emit('adim %s range %s ~ %s' % (arrs[1].slot, lst([f64(1.0), f64(2.0)]), S('s')))
    w.emit('pset %s uncertainty %s' % (p.slot, f64(0.5))); w.emit('pset %s unit %s' % (p.slot, S('mV')))
    w.emit('set %s extent %s' % (t.slot, lst([f64(1.0)]))); w.emit('link ref %s handle %s' % (t.slot, arrs[0].slot))
    w.emit('single metadata %s handle %s' % (arrs[0].slot, sec.slot))
    w.emit('dump')
    w.emit('fdrop'); w.emit('fopen ro auto'); w.rebind()
    tries = []
    for a in arrs:
        tries += ['sdim %s 1 interval %s' % (a.slot, f64(0.25)), 'sdim %s 1 offset %s' % (a.slot, f64(7.0)), 'sdim %s 1 offset ~' % a.slot,
                  'sdim %s 1 unit %s' % (a.slot, S('s')), 'sdim %s 1 label %s' % (a.slot, S('other')),
                  'set %s origin %s' % (a.slot, f64(9.0)), 'set %s origin ~' % a.slot, 'set %s poly %s' % (a.slot, lst([f64(5.0)])),
                  'set %s label %s' % (a.slot, S('x')), 'set %s unit %s' % (a.slot, S('kV')), 'set %s definition %s' % (a.slot, S('d')),
                  'set %s type %s' % (a.slot, S('other')), 'da_fill %s %s' % (a.slot, lst([f64(9.0), f64(9.0), f64(9.0)])), 'da_setext %s [5]' % a.slot,
                  'adim %s set %s' % (a.slot, lst([S('q')])), 'ddims %s' % a.slot, 'single metadata %s none ~' % a.slot]
    tries += ['sdim %s 2 ticks %s' % (arrs[1].slot, lst([f64(3.0), f64(4.0)])),
              'pset %s uncertainty %s' % (p.slot, f64(0.75)), 'pset %s uncertainty ~' % p.slot, 'pset %s unit %s' % (p.slot, S('s')), 'pset %s definition %s' % (p.slot, S('d')),
              'pvalues %s ~' % p.slot, 'set %s extent %s' % (t.slot, lst([f64(4.0)])), 'set %s position %s' % (t.slot, lst([f64(4.0)])), 'set %s units %s' % (t.slot, lst([S('mV')])),
              'unlink ref %s handle %s' % (t.slot, arrs[0].slot), 'link ref %s handle %s' % (t.slot, arrs[2].slot), 'link src %s handle %s' % (t.slot, src.slot),
              'set %s repository %s' % (sec.slot, S('http://x')), 'set %s definition %s' % (b.slot, S('d')), 'del A %s handle %s' % (b.slot, arrs[2].slot)]
    rng.shuffle(tries)
    for l in tries[:rng.randint(4, 14)]: w.emit(l)
    w.emit('dump')
    w.emit('fdrop')
    if rng.random() < 0.5: w.emit('dumpx %s' % rng.choice(['JST-9', 'UTC0']))
    w.emit('fopen %s auto' % rng.choice(['ro', 'rw']))
    w.emit('dump')
    return w.lines

def many_handles_case(rng, n):
    """a session that is closed while hundreds of entity handles are alive (each has looked at its dimensions and sources, which opens
    further HDF5 objects): close() has to release every one of them — straight afterwards another process reads the file"""
    w = World(rng, names=PLAIN)
    w.open('ow')
    b = w.mk('B', None, name='b')
    src = w.mk('O', b, name='o')
    arrs = [w.mk('A', b, name='arr%d' % i, extra=[2]) for i in range(n)]
    for a in arrs:
        w.emit('adim %s set %s' % (a.slot, lst([S('p')]))); w.emit('link src %s handle %s' % (a.slot, src.slot))
    for a in arrs:
        w.emit('dims %s' % a.slot); w.emit('countlink src %s' % a.slot); w.emit('dims %s' % a.slot); w.emit('countlink src %s' % a.slot)
    w.emit('dump')
    w.emit('fclose')                       # NOT fdrop: the handles stay alive across the close
    w.emit('dumpx %s' % rng.choice(['UTC0', 'JST-9']))
    w.emit('fopen rw auto'); w.emit('dump')
    return w.lines

def history(rng, tier):
    w = World(rng, names=NAMES if rng.random() < 0.5 else PLAIN)
    w.open('ow')
    n = rng.randint(25, 60 if tier == 'quick' else 120)
    for i in range(n):
        w.random_step()
        if rng.random() < 0.3:
            w.random_content_step()
        if rng.random() < 0.05:
            C04.dense_links(w, rng)
        if rng.random() < 0.04:
            stale_route(w, rng)
        if rng.random() < 0.025:
            readonly_interlude(w, rng)
        if rng.random() < 0.06:
            # an entity deleted and another one of the same kind and NAME created in its place, the parent asked about the name before
            # and after: what the parent shows now (and what the new entity is given) is what the reopened file shows
            v = w.pick(['A', 'T', 'G', 'D', 'O', 'S'])
            if v is not None:
                par = next((e for e in w.ents if e.slot == v.parent and e.alive), None)
                if par is not None or v.parent == '$F':
                    for _ in range(2): w.emit('has %s %s name %s' % (v.kind, v.parent, S(v.name)))
                    w.emit('get $pre %s %s name %s' % (v.kind, v.parent, S(v.name)))
                    name = v.name
                    w.delete(v)
                    nw = w.mk(v.kind, par, name=name)
                    if nw is not None and nw.alive:
                        w.emit('set %s definition %s' % (nw.slot, S('the second of that name')))
                        w.emit('get $post %s %s name %s' % (v.kind, v.parent, S(name)))
                        w.emit('xcheck %s %s' % (v.kind, v.parent))
                        if v.kind == 'A':
                            for t in w.alive(['T', 'M'], block=nw.block)[:1]: w.emit('link ref %s name %s' % (t.slot, S(name)))
        if rng.random() < 0.06:
            w.emit('fflush')
        if rng.random() < 0.07:
            w.emit('dump')
            mode = rng.choice(['ro', 'rw'])
            w.emit('fdrop'); w.emit('fopen %s auto' % mode)
            w.emit('dump')
            if mode == 'ro':
                w.emit('fdrop'); w.emit('fopen rw auto')
            w.rebind()
    # churn on the multi-valued links through ONE retained handle: add, remove all, add again; then what that handle shows
    # (before the close) must be what a re-fetched handle shows after the reopen
    watched = []
    for b in w.alive('B')[:2]:
        srcs = w.alive('O', block=b.slot); arrs = w.alive('A', block=b.slot)
        for h in w.alive(['A', 'T', 'G'], block=b.slot)[:2]:
            if len(srcs) >= 1:
                picks = rng.sample(srcs, min(len(srcs), 2))
                for s_ in picks: w.emit('link src %s handle %s' % (h.slot, s_.slot))
                for s_ in srcs: w.emit('unlink src %s handle %s' % (h.slot, s_.slot))
                for s_ in picks[:1]: w.emit('link src %s handle %s' % (h.slot, s_.slot))
                watched.append('listlink src %s' % h.slot)
        for t in w.alive(['T', 'M'], block=b.slot)[:2]:
            if arrs:
                a = rng.choice(arrs)
                w.emit('link ref %s handle %s' % (t.slot, a.slot))
                for x in arrs: w.emit('unlink ref %s handle %s' % (t.slot, x.slot))
                w.emit('link ref %s handle %s' % (t.slot, a.slot))
                watched.append('listlink ref %s' % t.slot)
        for g in w.alive('G', block=b.slot)[:1]:
            for x in w.alive('D', block=b.slot)[:2]:
                w.emit('link mD %s handle %s' % (g.slot, x.slot))
            watched.append('listlink mD %s' % g.slot)
            watched.append('listlink mA %s' % g.slot)
    for q in watched: w.emit(q)
    # end of history, deliberately WITHOUT looking at the tree first: read-only session, another process with its own
    # time zone, read-write session — all three must show the same tree
    # (in either order: straight after the writing session's close nothing has had a chance to tidy up after it)
    w.emit('fdrop')
    tz = rng.choice(['JST-9', 'EST5', 'UTC0', 'CET-1CEST'])
    if rng.random() < 0.5:
        w.emit('dumpx %s' % tz)
        w.emit('fopen ro auto'); w.emit('dump'); w.emit('fdrop')
    else:
        w.emit('fopen ro auto'); w.emit('dump'); w.emit('fdrop')
        w.emit('dumpx %s' % tz)
    w.emit('fopen rw auto')
    w.emit('dump')
    w.rebind()
    for q in watched: w.emit(q)
    return w.lines

def kept_dimension_case(rng):
    """dimension handles kept while the descriptors change through OTHER routes — another handle of the same dimension, the array of
    an alias dimension (its data are the ticks, its label and unit the dimension's), the array's extent — and the file is closed and
    reopened: a kept handle shows what a fresh one shows, and the dump before the close is the dump after it"""
    from vlib.tok import f64, lst
    w = World(rng, names=PLAIN)
    w.open('ow')
    b = w.mk('B', None)
    arrs = [w.mk('A', b, extra=[rng.choice([3, 4, 6])]) for _ in range(3)]
    for a in arrs:
        kinds = rng.sample(['range', 'sampled', 'set', 'alias'], rng.randint(1, 3))
        if 'alias' in kinds: kinds = ['alias']           # an alias descriptor is the only one of its array
        for k in kinds:
            if k == 'range': w.emit('adim %s range %s %s %s' % (a.slot, lst([f64(x) for x in (1.0, 2.0, 3.0)]), S('l'), S('mV')))
            elif k == 'sampled': w.emit('adim %s sampled %s %s %s %s' % (a.slot, f64(0.5), S('time'), S('ms'), f64(1.0)))
            elif k == 'set': w.emit('adim %s set %s' % (a.slot, lst([S('p'), S('q')])))
            else: w.emit('adim %s alias' % a.slot)
        w.emit('xdim %s' % a.slot)
    for _ in range(rng.randint(6, 14)):
        a = rng.choice(arrs)
        q = rng.random()
        if q < 0.45:
            f = rng.choice(['ticks', 'ticks', 'unit', 'label', 'interval', 'offset', 'labels'])
            v = {'interval': f64(rng.choice([0.25, 2.0])), 'offset': rng.choice(['~', f64(3.0)]), 'unit': rng.choice(['~', S('s'), S('mV')]), 'label': rng.choice(['~', S('lab')]),
                 'ticks': lst([f64(x) for x in sorted(rng.sample([0.0, 1.0, 4.0, 5.5, 10.0, 20.0, 30.0, 40.0], rng.randint(1, 4)))]), 'labels': lst([S('u'), S('v')])}[f]
            w.emit('sdim %s %d %s %s' % (a.slot, rng.randint(1, 3), f, v))
        elif q < 0.7:
            w.emit('da_fill %s %s' % (a.slot, lst([f64(float(x)) for x in sorted(rng.sample(range(-5, 40), rng.randint(1, 6)))])))
        elif q < 0.8:
            w.emit('set %s %s' % (a.slot, rng.choice(['unit ' + S('mV'), 'unit ~', 'label ' + S('other'), 'label ~'])))
        elif q < 0.9:
            w.emit('da_setext %s %s' % (a.slot, lst([str(rng.choice([1, 2, 4, 6]))])))
        w.emit('xdim %s' % a.slot)
        if rng.random() < 0.3: w.emit('xdim %s' % rng.choice(arrs).slot)
    w.emit('dump')
    w.reopen(rng.choice(['ro', 'rw']))
    w.emit('dump')
    for a in arrs: w.emit('xdim %s' % a.slot)
    return w.lines

def cases(tier, seed, rng):
    from vlib.runner import Case
    n = 50 if tier == 'quick' else 1200
    out = [Case(with_hdump(history(rng, tier), rng), 'gen:tree') for _ in range(n)]
    out += [Case(many_handles_case(rng, k), 'gen:many-handles-at-close') for k in ((150,) if tier == 'quick' else (70, 150, 300))]
    out += [Case(kept_dimension_case(rng), 'gen:kept-dimension-handles') for _ in range(8 if tier == 'quick' else 200)]
    out += [Case(with_hdump(readonly_setters_case(rng), rng), 'gen:readonly-setters') for _ in range(12 if tier == 'quick' else 300)]
    return out

def nontrivial(case, tags):
    return any(t.startswith('dump.after_reopen') for t in tags)
def signature(f):
    return '%s:%s:%s' % (f.kind, f.tag(), f.rule())
