"""C05 — Tag retrieval returns exactly the tagged region."""
from vlib.tok import f64, s as S, lst
from checks import regiongen as G
ID = 'C05'
HARNESS_ENV = {'NIXDRV_DOOR_MOD': '1'}      # every retrieval is asked through every entry point of the public API (harness/fam_region.cpp)
THEOREMS = ['Nix.C05.pair_region', 'Nix.C05.pair_none_empty', 'Nix.C05.ge_index_first', 'Nix.C05.axisOf_strictMono', 'Nix.C05.index_spec', 'Nix.C05.pair_spec', 'Nix.C05.dimOffsetCount_spec', 'Nix.C05.mapExcept_ok', 'Nix.C05.tagRegion_cells', 'Nix.C05.tag_region_spec', 'Nix.C05.tag_region_inside_data', 'Nix.C05.tag_cell_oob_empty', 'Nix.C05.tag_unspecified_dims_full', 'Nix.C05.tag_feature_dispatch']
RULE = ('random tags over arrays of rank 1-3 with every combination of descriptor kinds (sampled: decimal/binary intervals, offsets; range: '
        'ascending ticks, sometimes more or fewer ticks than data; set with/without labels; data-frame), positions on / one ulp beside / between / '
        'outside coordinates, extents present / absent / zero / negative / ending exactly on a coordinate, 0..rank+1 position entries, units absent / '
        'own / rescaled, both RangeMatch modes, every link type. Arrays hold their own linear index, so returned elements identify the region. '
        'non-trivial = the model returned a region (not an error); distinct = distinct op line.')
TRUSTED = ['lean/NixModel/Region.lean: hand-written model of getOffsetAndCount(Tag)/taggedData/featureData, tied by element-exact correspondence',
           'C07 index kernels and C18 unit scaling (their own theorems)',
           'HDF5 hyperslab reads of the arrays built by the harness']
ASSUMPTIONS = ['x * 1.0 == x (IEEE) where no unit conversion applies', 'shapes >= 1 in every dimension']

def tag_line(op, shape, dims, pos, ext, units, rm, extra=''):
    return '%s %s %s %s %s %s %s%s' % (op, lst([str(n) for n in shape]), lst([d.tok() for d in dims]),
                                        lst([f64(p) for p in pos]), '~' if ext is None else lst([f64(e) for e in ext]),
                                        lst([S(u) for u in units]), rm, extra)

def gen_tag(rng):
    shape, dims = G.make_array(rng)
    rank = len(shape)
    npos = rng.choice([rank] * 6 + [max(0, rank - 1)] * 3 + [rank + 1, 1, 0])
    pos, ext = [], []
    for i in range(npos):
        d = dims[i] if i < rank else dims[-1]
        p = G.pick_position(d, rng)
        pos.append(p)
        ext.append(G.pick_extent(d, p, rng))
    r = rng.random()
    if r < 0.25:
        extv = None
    elif r < 0.32:
        extv = [0.0] * npos
    else:
        extv = ext
    # units: none / own units / rescaled
    r = rng.random()
    units = []
    if r < 0.45:
        units = []
    elif r < 0.7:
        units = [dims[i].own_unit() if i < rank else 'none' for i in range(npos)]
    else:
        units = []
        for i in range(npos):
            d = dims[i] if i < rank else dims[-1]
            u = d.own_unit()
            if u in G.TIME_UNITS + G.VOLT_UNITS and rng.random() < 0.8:
                fam = G.TIME_UNITS if u in G.TIME_UNITS else G.VOLT_UNITS
                v = rng.choice(fam)
                np_ = G.rescale(pos[i], u, v)
                ne = G.rescale(ext[i], u, v) if extv is not None else 0.0
                if np_ is not None and ne is not None:
                    pos[i] = np_
                    if extv is not None: extv[i] = ne
                    units.append(v)
                    continue
            units.append(u)
        if rng.random() < 0.2 and units:
            units = units[:-1]
    units = [u for u in units]
    return shape, dims, pos, extv, units

# (interval, offset, sample count) where the last coordinate (n-1)*interval + offset is sensitive to HOW it is rounded (a fused
# multiply-add lands one ulp lower): the end of an unspecified sampled dimension is computed from it
ROUNDING_SENSITIVE = [(0.1, 0.3, 4), (0.1, 0.3, 7), (0.1, 0.3, 13), (0.1, -0.2, 12), (0.1, 0.5, 8), (0.1, -0.7, 8), (0.1, 0.1, 13), (0.001, 0.2, 18),
                      (0.001, 0.1, 10), (1.0 / 3.0, 0.2, 7), (1.0 / 3.0, -0.7, 12), (7.3, 0.2, 6), (7.3, 0.1, 8), (0.05, 0.1, 8), (0.05, -0.1, 12)]

def gen_padded_tag(rng):
    """fewer position entries than dimensions; the unspecified dimensions are sampled ones whose last coordinate is sensitive to
    rounding, set dimensions after a sampled / range dimension that does not start at 0, range dimensions with spare ticks"""
    rank = rng.choice([2, 2, 3])
    kinds = [rng.choice(['S', 'R', 'T', 'F']) for _ in range(rank)]
    kinds[-1] = rng.choice(['S', 'S', 'S', 'T', 'F', 'R'])
    shape, dims = G.make_array(rng, rank=rank, kinds=kinds, unit_prob=0.3)
    for i, d in enumerate(dims):
        if d.kind == 'S' and rng.random() < 0.8:
            d.si, d.off, n = rng.choice(ROUNDING_SENSITIVE)
            d.n = shape[i] = n
            d.coords = [k * d.si + d.off for k in range(n + 6)]
    npos = rng.randint(0, rank - 1)
    pos = [G.pick_position(dims[i], rng) for i in range(npos)]
    ext = [G.pick_extent(dims[i], pos[i], rng) for i in range(npos)]
    extv = rng.choice([None, ext, ext])
    units = [] if rng.random() < 0.6 else [dims[i].own_unit() for i in range(npos)]
    return shape, dims, pos, extv, units

def cases(tier, seed, rng):
    from vlib.runner import Case
    n = 1200 if tier == 'quick' else 30000
    out = []
    batch = []
    for k in range(150 if tier == 'quick' else 3000):
        shape, dims, pos, ext, units = gen_padded_tag(rng)
        for rm in ('incl', 'excl'):
            batch.append(tag_line('tag_data', shape, dims, pos, ext, units, rm))
        if len(batch) >= 200:
            out.append(Case(batch, 'gen:padded-tag')); batch = []
    if batch:
        out.append(Case(batch, 'gen:padded-tag')); batch = []
    for k in range(n):
        shape, dims, pos, ext, units = gen_tag(rng)
        for rm in ('incl', 'excl'):
            batch.append(tag_line('tag_data', shape, dims, pos, ext, units, rm))
        if k % 4 == 0:
            batch.append(tag_line('tag_oc', shape, dims, pos, ext, units, rng.choice(['incl', 'excl'])))
        if k % 5 == 0:
            # features: the feature array is cut like a reference (tagged) or returned whole (untagged, indexed)
            fshape, fdims = G.make_array(rng, rank=len(shape) if rng.random() < 0.7 else None)
            for ltype in ('tagged', 'untagged', 'indexed'):
                batch.append(tag_line('tag_feat', shape, dims, pos, ext, units, rng.choice(['incl', 'excl']),
                                      ' %s %s %s' % (ltype, lst([str(n) for n in fshape]), lst([d.tok() for d in fdims]))))
        if len(batch) >= 200:
            out.append(Case(batch, 'gen:tag')); batch = []
    if batch:
        out.append(Case(batch, 'gen:tag'))
    return out

def nontrivial(case, tags):
    return any(t.endswith('.ok') for t in tags)

def signature(f):
    t = f.tag().split('.')
    op = 'tag_data' if f.rule() == 'unspecified_dimensions_in_full_in_exclusive_mode' else t[0]   # one defect, reached by two entry points
    return '%s:%s:%s' % (f.kind, op, f.rule())

def minimal(f):
    return [f.case.lines[f.line_no]]

LEVEL_TEXT = ('Lean 4 theorems for every rank, every combination of well-formed descriptors, every position/extent/unit vector: a successful retrieval returns, per specified dimension, exactly the indices whose coordinate lies in [p, p+e] / [p, p+e) (as converted to the dimension unit) or, only for a zero extent with no coordinate in the interval, the first index at or after p; the block lies inside the data; an OutOfBounds cell means an empty interval; unspecified dimensions are returned in full in Inclusive mode (Exclusive: known finding K2, with a kernel-checked witness). Independent of floating-point rounding (no law of + - * / is used). Model tied to getOffsetAndCount/taggedData/featureData by element-exact correspondence; a brute-force coordinate-level evaluator judges every answer of the library.')
LEVEL_NOTE = ('Trusted: Lean kernel; IEEE order facts as hypotheses (C07); hand-written model lean/NixModel/Region.lean validated each run; C18 unit model; x*1.0 == x; descriptors that describe the data; HDF5 reads.')
