"""abuse_dims — an `abuse` program generator for C16 (no API call sequence causes undefined behaviour; misuse throws).

NOT a check module of its own (checks/C16.py on main owns the property): use `cases(tier, seed, rng)` from there, run the programs on the
ASan+UBSan flavour and judge only FATAL (`judge`).  `NO_DRIVER` / `HARNESS_TIMEOUT` are hints for a runner that honours them (a model replay of
abused programs is not meaningful; a hang is a finding).

Programs over the ops of every harness family (array / view, index, region, store incl. dimension descriptors on slots,
dimdesc) are taken from the generators of the other checks and then ABUSED token by token: numbers become boundary / past-the-end
values, lists lose or gain entries (0 .. rank+2 position / extent / count / offset entries), doubles become NaN / ±inf / huge,
strings empty / long / invalid UTF-8, element types are swapped, slots are replaced by `$-` (uninitialised) or by the slot of a
deleted entity.  Both tiers run on the ASan+UBSan flavour.  Verdict rule: no FATAL (signal, sanitizer abort, timeout); what the
calls answer (ok / err) is not judged here — the other checks do that on well-formed programs.

Not claimed (CLAIMED = False): the index-safety theorems of DESIGN §3 C16 are not delivered on this branch."""
import re
from vlib.tok import f64, s as S, lst
ID = 'abuse_dims'
CLAIMED = False
NA_REASON = ('abuse family (sanitizer correspondence) is in place and runs in both tiers on the ASan+UBSan flavour; the index-safety theorems of '
             'DESIGN.md §3 C16 (op_total, uninit_handle_throws, stale_handle_safe, nelms_wrap_guard) are not yet delivered, so the property is not claimed')
FLAVOUR = {'quick': 'asan', 'thorough': 'asan'}
THEOREMS = []
HARNESS_TIMEOUT = 600    # seconds per harness batch: a hang is a finding (reported as FATAL TIMEOUT)
NO_DRIVER = True          # abused programs are not replayed on the Lean model; only FATAL is judged
RULE = ('programs of the array/view, index, region (tag, multi-tag, slice), store (entity tree, links, dimension descriptors and property values on '
        'slots) and dimdesc families, produced by the generators of C01 C04 C05 C06 C07 C13 C17 and then abused: ~35 % of the op lines get 1-2 tokens '
        'replaced by a boundary or invalid value of the same lexical type (integers 0 / n±1 / n+2 / 65536 / 10^6, lists with an entry dropped / one or '
        'two added / emptied / one entry abused, doubles NaN / ±inf / -0.0 / 1e308 / 5e-324 / 2^53, strings empty / 300 chars / invalid UTF-8, another '
        'element type, another / uninitialised ($-) / deleted slot); store programs additionally call getters, setters, links, dimension and data '
        'ops on the slots of deleted entities. Executed on the ASan+UBSan build. Verdict: no signal, sanitizer report or timeout. '
        'non-trivial = a program with at least one abused line that the library answered (ok or err); distinct = distinct op text.')
TRUSTED = ['AddressSanitizer / UndefinedBehaviorSanitizer (g++ 12) as the oracle for memory errors and UB inside libnixio; HDF5 itself is not instrumented']
ASSUMPTIONS = ['sizes are kept below 10^6 elements so that a refused giant allocation (std::bad_alloc without sanitizer, an abort with it) is not mistaken for UB',
               'what an abused call answers (ok / which exception) is not judged']

NAN = 'd7ff8000000000000'
DTYPES = ['Bool', 'Int8', 'Int16', 'Int32', 'Int64', 'UInt8', 'UInt16', 'UInt32', 'UInt64', 'Float', 'Double', 'String']
HEX = re.compile(r'^[0-9a-f]*$')

def abuse_token(tok, rng, slots=None, depth=0):
    """a boundary / invalid value of the same lexical type; None = leave alone"""
    if re.fullmatch(r'\d+', tok):
        n = int(tok)
        if depth > 0:         # an entry of a shape / count / offset / index list: the product of a list must stay allocatable
            return str(rng.choice([0, 1, max(0, n - 1), n + 1, n + 2, 2 * n + 3, 255, 1000]))
        return str(rng.choice([0, 1, max(0, n - 1), n + 1, n + 2, 2 * n + 3, 255, 65536, 10 ** 6]))
    if re.fullmatch(r'-\d+', tok):
        return str(rng.choice([0, -1, int(tok) - 1, -2 ** 31, -2 ** 63]))
    if len(tok) == 17 and tok[0] == 'd' and HEX.match(tok[1:]):
        return rng.choice([NAN, f64(float('inf')), f64(float('-inf')), f64(-1.0), f64(0.0), f64(-0.0), f64(1e308), f64(5e-324),
                           f64(2.0 ** 53), f64(1e18), f64(-1e18), f64(0.5)])
    if len(tok) == 9 and tok[0] == 'f' and HEX.match(tok[1:]):
        return rng.choice(['f7fc00000', 'f7f800000', 'fff800000', 'f00000000', 'f7f7fffff'])
    if tok.startswith('[') and tok.endswith(']') and depth == 0:
        el = tok[1:-1].split(',') if len(tok) > 2 else []
        q = rng.random()
        filler = el[-1] if el else rng.choice(['0', '1', f64(1.0)])
        if q < 0.22 and el: el = el[:-1]                                  # one entry fewer
        elif q < 0.44: el = el + [filler]                                 # rank + 1
        elif q < 0.58: el = el + [filler, filler]                         # rank + 2
        elif q < 0.68: el = []                                            # none
        elif q < 0.76 and el: el = el[:1]                                 # only the first
        elif el:
            i = rng.randrange(len(el))
            m = abuse_token(el[i], rng, slots, depth + 1)
            if m is not None: el[i] = m
        out = '[' + ','.join(el) + ']'
        p = prod_of(out)
        if p is not None and p > 10 ** 6: return None          # the harness itself fills arrays of that shape: keep it allocatable
        return out
    if tok.startswith('x') and HEX.match(tok[1:]) and len(tok) % 2 == 1:
        return rng.choice(['x', 'x' + '61' * 300, tok + 'ff', 'x2f', 'x2e2e', 'x20'])
    if tok.startswith('$') and slots:
        return rng.choice(['$-', rng.choice(slots), rng.choice(slots)])
    if tok in DTYPES:
        return rng.choice(DTYPES)
    if tok in ('incl', 'excl'): return rng.choice(['incl', 'excl'])
    if tok in ('tagged', 'untagged', 'indexed'): return rng.choice(['tagged', 'untagged', 'indexed'])
    if tok in ('ro', 'rw'): return rng.choice(['ro', 'rw'])
    if tok == '~': return None
    return None

def abuse_line(line, rng, slots=None):
    toks = line.split(' ')
    if len(toks) < 2: return line, False
    changed = False
    for _ in range(rng.choice([1, 1, 2])):
        i = rng.randrange(1, len(toks))
        if toks[0] == 'mk' and i == 1: continue           # keep the slot a creation binds
        m = abuse_token(toks[i], rng, slots)
        if m is not None and m != toks[i]:
            toks[i] = m; changed = True
    return ' '.join(toks), changed

def prod_of(tok):
    try:
        n = 1
        for x in (tok[1:-1].split(',') if len(tok) > 2 else []): n *= int(x)
        return n
    except ValueError:
        return None

def fixup(line):
    """the harness refuses to hand the library a buffer shorter than the request (that would be the CALLER's overflow): after an
    abuse, make the buffer of a read / the value list of a write long enough again, so that the abused request reaches the library"""
    t = line.split(' ')
    if t[0] in ('da_rd', 'dv_rd', 'da_rdd') and len(t) == 5:
        need = prod_of(t[2])
        if need is not None and need <= 10 ** 6 and t[4].isdigit():
            t[4] = str(max(int(t[4]), need, 64))
    elif t[0] in ('da_wr', 'dv_wr', 'da_wrd') and len(t) == 5 or t[0] == 'da_app' and len(t) == 5:
        vi = 4
        need = prod_of(t[2])
        vals = t[vi][1:-1].split(',') if len(t[vi]) > 2 else []
        if need is not None and need <= 10 ** 5 and vals and len(vals) < need:
            t[vi] = '[' + ','.join(vals + [vals[-1]] * (need - len(vals))) + ']'
    return ' '.join(t)

def abuse_program(lines, rng, rate=0.35, slots=None, keep_first=1):
    out = []
    for k, l in enumerate(lines):
        if k >= keep_first and rng.random() < rate:
            l2, ch = abuse_line(l, rng, slots)
            out.append(fixup(l2))
        else:
            out.append(l)
    return out

# ---- base programs -------------------------------------------------------------------------------------------------------------
def base_array(rng, tier):
    from checks import C01, C17
    return C01.history(rng, tier) if rng.random() < 0.6 else C17.view_history(rng, tier)

def base_dimdesc(rng, tier):
    from checks import C13
    return C13.history(rng, tier)

_pool = {}
def pooled(name, maker):
    if name not in _pool: _pool[name] = maker()
    return _pool[name]

def base_region(rng, tier, seed):
    """a handful of self-contained region / index cases strung together"""
    import random
    from checks import C05, C06, C07, C17
    def mk():
        r = random.Random(seed * 7919 + 5)
        cs = []
        for mod, fn in ((C05, 'cases'), (C06, 'cases'), (C17, 'slice_cases'), (C07, 'cases')):
            try: cs.append([c.lines for c in getattr(mod, fn)('quick', seed, r)])
            except Exception: cs.append([])
        return cs
    pools = pooled('region%d' % seed, mk)
    lines = []
    for _ in range(rng.randint(2, 5)):
        p = rng.choice([p for p in pools if p] or [[['da_shape']]])
        c = rng.choice(p)
        lines.extend(c[:rng.randint(4, 14)] if len(c) > 14 else c)
    return lines

def base_store(rng, tier):
    """an entity tree with links, then dimension / data / property ops on slots, deletions, and the same ops on the deleted slots"""
    from checks.storegen import World, PLAIN
    from checks import C04
    w = World(rng, names=PLAIN)
    w.open('ow')
    C04.build(w, rng, rng.randint(10, 22))
    for b in w.alive('B')[:2]:
        if not w.alive(['A'], block=b.slot): w.mk('A', b)
        if not w.alive(['D'], block=b.slot): w.mk('D', b)
        if not w.alive(['T'], block=b.slot): w.mk('T', b)
    C04.dense_links(w, rng)
    def slot_ops(e):
        s = e.slot; r = rng; out = []
        if e.kind == 'A':
            df = w.pick('D', block=e.block)
            out += [r.choice(['adim %s sampled %s ~ ~ ~' % (s, f64(0.5)), 'adim %s range %s ~ ~' % (s, lst([f64(1.0), f64(2.0)])),
                              'adim %s set %s' % (s, lst([S('a')])), 'adim %s alias' % s] +
                             (['adim %s frame %s 0' % (s, df.slot)] if df else [])),
                    'dims %s' % s, 'gdim %s %d' % (s, r.choice([0, 1, 2, 3])), 'sdim %s 1 %s' % (s, r.choice(['label ' + S('l'), 'unit ' + S('mV'), 'ticks ' + lst([f64(1.0)]), 'interval ' + f64(2.0), 'labels []', 'offset ~'])),
                    r.choice(['da_fill %s %s' % (s, lst([f64(1.0), f64(2.0), f64(3.0)])), 'da_read1 %s' % s, 'da_setext %s [4]' % s, 'ddims %s' % s])]
        elif e.kind == 'P':
            out += ['pget %s' % s, 'pvalues %s %s' % (s, r.choice(['~', '[Int32:1,Int32:2]', '[Double:%s]' % f64(1.5), '[String:%s]' % S('v'), '[]']))]
        elif e.kind in 'TM':
            out += ['xlinks ref %s' % s, 'xcheck R %s' % s]
        out += [r.choice(['valid %s' % s, 'idof %s' % s, 'set %s definition %s' % (s, S('d')), 'xlinks src %s' % s if e.kind in 'ADTMG' else 'valid %s' % s])]
        return out
    for _ in range(rng.randint(4, 10)):
        e = w.pick(['A', 'A', 'P', 'T', 'M', 'D', 'G', 'O', 'S'])
        if e:
            for l in slot_ops(e): w.emit(l)
    victims = []
    for _ in range(rng.randint(1, 4)):
        cands = [e for e in w.alive() if e.kind != 'R' and not (e.kind == 'B' and len(w.alive('B')) == 1)]
        if not cands: break
        v = rng.choice(cands)
        sub = [e for e in w.alive() if e is v or e.parent == v.slot]
        w.delete(v, rng.choice(['name', 'handle']))
        victims += sub
    for v in victims:                                    # the handles of deleted entities (and of their children)
        for l in slot_ops(v): w.emit(l)
    if rng.random() < 0.4:
        w.reopen(rng.choice(['rw', 'ro']))
        for e in rng.sample(w.alive(), min(4, len(w.alive()))):
            for l in slot_ops(e): w.emit(l)
    w.emit('dump')
    dead = [e.slot for e in w.ents if not e.alive]
    alive = [e.slot for e in w.ents if e.alive]
    return w.lines, dead + dead + alive

def program(rng, tier, seed):
    q = rng.random()
    if q < 0.3:
        base = base_array(rng, tier); return abuse_program(base, rng), 'abuse:array'
    if q < 0.5:
        base = base_dimdesc(rng, tier); return abuse_program(base, rng), 'abuse:dimdesc'
    if q < 0.72:
        base = base_region(rng, tier, seed); return abuse_program(base, rng, rate=0.5, keep_first=0), 'abuse:region-index'
    base, slots = base_store(rng, tier)
    return abuse_program(base, rng, rate=0.3, slots=slots), 'abuse:store'

def cases(tier, seed, rng):
    from vlib.runner import Case
    n = 300 if tier == 'quick' else 3000
    out = []
    for _ in range(n):
        lines, origin = program(rng, tier, seed)
        out.append(Case(lines, origin))
    return out

def judge(f):
    """only a crash / sanitizer report / timeout counts; model disagreement on abused programs is not a finding of this check"""
    return f.kind == 'FATAL'

def nontrivial(case, tags):
    return len(case.lines) > 1

def signature(f):
    v = (f.verdict or '')
    m = re.search(r'(heap-buffer-overflow|stack-buffer-overflow|heap-use-after-free|SEGV|runtime error: [a-z ]+|attempting double-free|TIMEOUT|signal \d+|exit \d+)', v)
    site = re.search(r'#\d+ 0x[0-9a-f]+ in (\S+) (\S+?):(\d+)', v)
    return 'FATAL:%s:%s:%s' % (f.line.split(' ')[0] if f.line else '?', m.group(1) if m else 'fatal', (site.group(1) if site else '?'))
