"""C04 — deleting an entity leaves no dangling reference and harms nothing else."""
from vlib.tok import s as S
from checks.storegen import World, PLAIN, BLOCK_KINDS, REL_OF, with_hdump
ID = 'C04'
TECHNIQUE = 'Lean 4 proof over a hand-written store model + a table translated from the source on every run (which accessor every by-entity overload forwards: all go by id) + differential correspondence (trace validation) with the built library'
THEOREMS = ['Nix.ByEntity.by_entity_overloads_forward_the_id', 'Nix.ByEntity.modelled_overloads_are_tabulated', 'Nix.St.deleted_handle_reports_invalid', 'Nix.St.deleted_handle_refused', 'Nix.St.unlinkAll_refCount', 'Nix.St.unlinkAll_frame', 'Nix.St.unlinkAll_no_incoming', 'Nix.St.unlinkAll_unreachable', 'Nix.St.unlinkAll_reach_mono', 'Nix.St.removeAllLinks_spec', 'Nix.St.deleteNested_unlinks', 'Nix.St.deleteNested_victim', 'Nix.St.removeEntity_spec', 'Nix.St.deleteBlock_spec', 'Nix.St.delete_only_unlinks', 'Nix.St.removeEntity_no_dangling', 'Nix.St.unlink_frame', 'Nix.St.deleteNested_fuel_indep', 'Nix.St.deleteSection_fuel_adequate', 'Nix.St.deleteSubSource_fuel_adequate', 'Nix.St.deleteBlockSource_fuel_adequate', 'Nix.St.delete_wt']
LEAN_MODULES = ['NixModel.Props.C04ByEntity', 'NixModel.Gen.ByEntity', 'NixModel.Props.C04', 'NixModel.Proofs.DeleteFuel', 'NixModel.Proofs.RolesHistory']
RULE = ('random entity graphs (every kind, one target linked from many holders: tag / multi-tag references, positions / extents, feature data, '
        'group members, attached sources, metadata, section links; links made before and after a reopen), then for a sequence of victims of every '
        'kind: dump, delete (by name, id or handle), dump, validity of the stale handle. The dumps are judged against each other: the victim and, '
        'for sources / sections, its whole subtree are gone, no field of any survivor mentions them, every survivor is otherwise identical and in '
        'the same order. non-trivial = a delete that removed an entity some holder pointed to or that had descendants; distinct = distinct op text.')
TRUSTED = ['harness dump (every public getter of every entity)', 'H5Iget_name keeps finding a remaining path (removeAllLinks)']
LEVEL_TEXT = ('Lean 4 theorems about the store model, for every store, every victim and every way of naming it: each delete entry point (blocks; sections and sources with their subtree, at every nesting depth by induction; data arrays, data frames, tags, multi tags, groups) removes exactly the links whose target lies in a set D of deleted objects, everywhere — so no object keeps a link to a deleted object and no path from anywhere reaches it (whatever held it: references, positions, extents, feature data, group membership, attached sources, metadata, section links are all hard links), while every object keeps its attributes, its kind and its other links in their order; the entity looked up is in D when the call answers true. Unlinking one name in one group (remove reference / source / member, unset metadata / link / extents) touches nothing else. The dumps around every delete of every generated graph are judged against each other (victim and subtree gone, no field mentions them, survivors identical and in order, stale handle invalid) and the model must predict the dump.')
LEVEL_NOTE = ("Trusted: Lean kernel; the abstract HDF5 store of lean/NixModel/Store.lean (objects, attributes, ordered hard links, removeAllLinks = every link to the object goes, creation-order index) and the hand-written entity layer lean/NixModel/Entities.lean, both validated on every run: the model replays every op of every generated history and must predict the library's answer (result / exception class, looked-up ids, counts, enumerations, cross-checks) and, at every dump, the whole observable tree (observe); ids and creation times are taken from the trace; fields the store model does not carry (array data, dimension descriptors, calibration, property values, row counts) are compared between dumps of the library only; harness dump = every public getter of every entity. The fuel of the recursive delete (number of objects + 1) is proved to suffice for every file that satisfies the schema (Proofs/DeleteFuel.lean: containment links grow in object index, so they form a forest; deleteNested_fuel_indep, deleteSection_fuel_adequate, deleteSubSource_fuel_adequate, deleteBlockSource_fuel_adequate).")
ASSUMPTIONS = []

def build(w, rng, n):
    for _ in range(n):
        w.random_step()

def dense_links(w, rng):
    """link one target from many holders"""
    for b in w.alive('B'):
        arrays = w.alive('A', block=b.slot)
        for t in w.alive(['T', 'M'], block=b.slot):
            for a in rng.sample(arrays, min(len(arrays), 2)):
                w.emit('link ref %s handle %s' % (t.slot, a.slot))
            if arrays and rng.random() < 0.6:
                w.mk('R', t, name='x', extra=rng.choice(arrays))
        for g in w.alive('G', block=b.slot):
            for m in w.alive(['A', 'D', 'T', 'M'], block=b.slot):
                if rng.random() < 0.5:
                    w.emit('link %s %s handle %s' % (REL_OF[m.kind], g.slot, m.slot))
        srcs = w.alive('O', block=b.slot)
        for h in w.alive(['A', 'D', 'T', 'M', 'G'], block=b.slot):
            for s in rng.sample(srcs, min(len(srcs), 2)):
                if rng.random() < 0.5:
                    w.emit('link src %s handle %s' % (h.slot, s.slot))
        for m in w.alive('M', block=b.slot):
            if arrays and rng.random() < 0.5:
                # extents must have the shape of the positions: prefer an array that has it (and is not the positions array itself)
                same = [a for a in arrays if m.pos is not None and a is not m.pos and a.shape == m.pos.shape]
                w.emit('single extents %s handle %s' % (m.slot, (rng.choice(same) if same and rng.random() < 0.8 else rng.choice(arrays)).slot))
    secs = w.alive('S')
    for h in w.alive(['B', 'A', 'D', 'T', 'M', 'G', 'O']):
        if secs and rng.random() < 0.4:
            w.emit('single metadata %s handle %s' % (h.slot, rng.choice(secs).slot))
    for s in secs:
        if len(secs) > 1 and rng.random() < 0.3:
            o = rng.choice([x for x in secs if x is not s])
            w.emit('single seclink %s handle %s' % (s.slot, o.slot))

def forest(w, rng, kind, parent):
    """a root with 2-4 children, each with 0-2 children of its own (sources under a block, sections under the file)"""
    root = w.mk(kind, parent)
    for _ in range(rng.randint(2, 4)):
        c = w.mk(kind, root)
        for _ in range(rng.randint(0, 2)):
            g = w.mk(kind, c)
            if rng.random() < 0.3:
                w.mk(kind, g)
    return root

def attach_subtree(w, rng, root):
    """make holders point at the descendants of root"""
    sub = [e for e in w.alive(root.kind) if e is not root and under(w, e, root)]
    for e in sub:
        if root.kind == 'O':
            for h in rng.sample(w.alive(['A', 'D', 'T', 'M', 'G'], block=root.block), min(2, len(w.alive(['A', 'D', 'T', 'M', 'G'], block=root.block)))):
                w.emit('link src %s handle %s' % (h.slot, e.slot))
        else:
            hs = w.alive(['B', 'A', 'T', 'O', 'G'])
            for h in rng.sample(hs, min(2, len(hs))):
                w.emit('single metadata %s handle %s' % (h.slot, e.slot))

def under(w, e, root):
    while e is not None and e.parent != '$F':
        if e.parent == root.slot: return True
        e = next((x for x in w.ents if x.slot == e.parent), None)
    return False

def long_name_history(rng, length, which):
    """entities whose HDF5 link paths are about 256 characters long"""
    w = World(rng, names=PLAIN)
    w.open('ow')
    b = w.mk('B', None, name='b')
    if which == 'array':
        a = w.mk('A', b, name='n' * length)
        t = w.mk('T', b, name='t'); g = w.mk('G', b, name='g')
    else:
        a = w.mk('A', b, name='a')
        t = w.mk('T', b, name='t' * length); g = w.mk('G', b, name='g' * length)
    w.emit('link ref %s handle %s' % (t.slot, a.slot))
    if rng.random() < 0.5: w.emit('link mA %s handle %s' % (g.slot, a.slot))
    w.emit('dump'); w.delete(a, rng.choice(['name', 'handle'])); w.emit('dump'); w.emit('valid %s deleted' % a.slot)
    return w.lines

def holder_case(rng):
    """a multi-tag with positions AND extents, features on two arrays: one of the arrays is deleted — every field of the holder
    that does not mention the victim must come through untouched (the extents when the positions go, the later feature when the
    array of an earlier one goes, and the other way round)"""
    w = World(rng, names=PLAIN)
    w.open('ow')
    b = w.mk('B', None, name='b')
    arrs = [w.mk('A', b, name='arr%d' % i, extra=[3]) for i in range(4)]
    m = w.mk('M', b, name='m', extra=arrs[0])
    t = w.mk('T', b, name='t')
    w.emit('single extents %s handle %s' % (m.slot, arrs[1].slot))
    for h in (m, t):
        for a in rng.sample(arrs, 3):
            w.mk('R', h, name='x', extra=a)
        for a in rng.sample(arrs, 2):
            w.emit('link ref %s handle %s' % (h.slot, a.slot))
    if rng.random() < 0.5: w.reopen('rw')
    # a feature deleted — by handle, by its id, by the name or the id of its data array (all of which has / get accept): the holder
    # does not list it any more, its handle is invalid, the other features and the arrays are untouched
    for h in (m, t):
        fs = [f for f in w.alive('R', parent=h.slot) if f.data is not None and f.data.alive]
        # (an array may carry two features of one holder: then the lookup by array finds the first only — one feature per array here)
        fs = [f for f in fs if sum(1 for g in fs if g.data is f.data) == 1]
        if fs and rng.random() < 0.8:
            f = rng.choice(fs)
            w.emit('dump'); w.emit('xfeat %s' % h.slot)
            w.emit('del R %s %s' % (h.slot, rng.choice(['handle ' + f.slot, 'idof ' + f.slot, 'name ' + S(f.data.name), 'idof ' + f.data.slot])))
            w.kill(f)
            w.emit('dump'); w.emit('valid %s deleted' % f.slot); w.emit('xfeat %s' % h.slot); w.emit('xcheck R %s' % h.slot)
    order = list(arrs); rng.shuffle(order)
    for v in order[:rng.randint(1, 3)]:
        w.emit('dump')
        w.emit('xcheck R %s' % m.slot); w.emit('xcheck R %s' % t.slot); w.emit('xfeat %s' % m.slot); w.emit('xfeat %s' % t.slot)
        w.delete(v, rng.choice(['name', 'handle']))
        w.emit('dump')
        w.emit('valid %s deleted' % v.slot)
        w.emit('xcheck R %s' % m.slot); w.emit('xcheck R %s' % t.slot); w.emit('xfeat %s' % m.slot); w.emit('xfeat %s' % t.slot)
    return w.lines

def source_chain_case(rng):
    """a chain of sources rig → probe → shank (→ site), only SOME of the links of the chain attached to holders — the unattached
    ones in between must not stop the cascade: the root deleted by name, id or handle through the block, or a middle one through
    its parent; every descendant goes, no holder lists any of them, their handles are invalid"""
    w = World(rng, names=PLAIN)
    w.open('ow')
    b = w.mk('B', None, name='b')
    holders = [w.mk('A', b, name='arr', extra=[2]), w.mk('T', b, name='tag'), w.mk('G', b, name='grp'), w.mk('D', b, name='frame')]
    depth = rng.randint(3, 5)
    chain = [w.mk('O', b, name='rig')]
    for k in range(1, depth):
        chain.append(w.mk('O', chain[-1], name='lvl%d' % k))
        if rng.random() < 0.4: w.mk('O', chain[-2], name='side%d' % k)
    keeper = w.mk('O', b, name='keeper')
    attached = [e for e in chain[1:] if rng.random() < 0.5] or [chain[-1]]
    if rng.random() < 0.7 and len(chain) > 2 and chain[1] in attached: attached.remove(chain[1])     # the direct child often unattached
    for e in attached + [keeper]:
        for h in rng.sample(holders, rng.randint(1, 3)):
            w.emit('link src %s %s' % (h.slot, rng.choice(['handle ' + e.slot, 'idof ' + e.slot])))
    if rng.random() < 0.5: w.reopen('rw')
    v = chain[0] if rng.random() < 0.7 else rng.choice(chain[1:-1])
    below, frontier = [], [v.slot]
    while frontier:
        nxt = [e for e in w.ents if e.alive and e.parent in frontier]
        below += nxt; frontier = [e.slot for e in nxt]
    for h in holders: w.emit('xlinks src %s' % h.slot)
    w.emit('dump')
    how = rng.choice(['name', 'handle', 'idof'])
    if how == 'idof':
        w.emit('del O %s idof %s' % (v.parent, v.slot)); w.kill(v)
    else:
        w.delete(v, how)
    w.emit('dump')
    w.emit('valid %s deleted' % v.slot)
    for e in below: w.emit('valid %s deleted' % e.slot)
    for h in holders:
        w.emit('xlinks src %s' % h.slot); w.emit('countlink src %s' % h.slot); w.emit('listlink src %s' % h.slot)
    w.reopen(rng.choice(['ro', 'rw']))
    w.emit('dump')
    return w.lines

UUIDISH = ['aaaaaaaa-bbbb-cccc-dddd-eeeeeeeeeeee', '12345678-1234-1234-1234-123456789abc', '0a1b2c3d-aaaa-bbbb-cccc-0123456789ab']

def uuid_named_case(rng):
    """entities whose legal NAME has the shape of an id (8-4-4-4-12), in the name-keyed containers — nested sources and sections at
    depth 2 and 3, root sources, arrays, tags, frames, groups of a block — attached to holders BY HANDLE and deleted BY NAME through
    their parent: the name is a name there, the victim and its subtree go, no holder lists them any more"""
    w = World(rng, names=PLAIN)
    w.open('ow')
    b = w.mk('B', None, name='b')
    holders = [w.mk('A', b, name='arr', extra=[2]), w.mk('T', b, name='tag'), w.mk('G', b, name='grp')]
    kind = rng.choice(['O', 'O', 'S', rng.choice(['A', 'D', 'T', 'G'])])
    U = UUIDISH[:]; rng.shuffle(U)
    if kind in ('O', 'S'):
        root = w.mk(kind, b if kind == 'O' else None, name=rng.choice([U[2], 'root']))
        child = w.mk(kind, root, name=U[0])
        grand = w.mk(kind, child, name=rng.choice([U[1], 'leaf']))
        sib = w.mk(kind, root, name=U[1])
        for e in (child, grand, sib, root):
            for h in rng.sample(holders, rng.randint(0, 2)):
                if kind == 'O': w.emit('link src %s handle %s' % (h.slot, e.slot))
                else: w.emit('single metadata %s handle %s' % (h.slot, e.slot))
        victims = [child, sib] + ([grand] if len(grand.name) == 36 else []) + ([root] if len(root.name) == 36 else [])
    else:
        es = [w.mk(kind, b, name=U[0]), w.mk(kind, b, name='plain'), w.mk(kind, b, name=U[1])]
        g = holders[2]
        for e in es:
            if kind in REL_OF and rng.random() < 0.7: w.emit('link %s %s handle %s' % (REL_OF[kind], g.slot, e.slot))
            if kind == 'A' and rng.random() < 0.7: w.emit('link ref %s handle %s' % (holders[1].slot, e.slot))
        victims = [es[0], es[2]]
    if rng.random() < 0.4: w.reopen('rw')
    rng.shuffle(victims)
    for v in victims[:rng.randint(1, 2)]:
        if not v.alive: continue
        below, frontier = [], [v.slot]
        while frontier:
            nxt = [e for e in w.ents if e.alive and e.parent in frontier]
            below += nxt; frontier = [e.slot for e in nxt]
        w.emit('has %s %s name %s' % (v.kind, v.parent, S(v.name)))
        w.emit('dump')
        w.delete(v, 'name')
        w.emit('dump')
        w.emit('has %s %s name %s' % (v.kind, v.parent, S(v.name)))
        w.emit('valid %s deleted' % v.slot)
        for e in below: w.emit('valid %s deleted' % e.slot)
    w.reopen(rng.choice(['ro', 'rw']))
    w.emit('dump')
    return w.lines

def frame_case(rng):
    """data frames that are used — as group members, as the frame of data-frame dimensions of several arrays, with sources and metadata —
    deleted by name, id or handle: no group lists them any more, no dimension hands them out, their handles are invalid"""
    w = World(rng, names=PLAIN)
    w.open('ow')
    b = w.mk('B', None, name='b')
    frames = [w.mk('D', b, name='frame%d' % i) for i in range(3)]
    arrs = [w.mk('A', b, name='arr%d' % i, extra=[3]) for i in range(3)]
    groups = [w.mk('G', b, name='g%d' % i) for i in range(2)]
    for g in groups:
        for d in frames:
            if rng.random() < 0.8: w.emit('link mD %s handle %s' % (g.slot, d.slot))
        for a in arrs[:2]: w.emit('link mA %s handle %s' % (g.slot, a.slot))
    for a in arrs:
        for d in rng.sample(frames, 2):
            w.emit('adim %s frame %s 0' % (a.slot, d.slot))
    if rng.random() < 0.5: w.reopen('rw')
    order = list(frames); rng.shuffle(order)
    for v in order[:rng.randint(1, 3)]:
        aliases = []
        for g in groups:
            sl = w.fresh()
            w.emit('getlinkh %s mD %s idof %s' % (sl, g.slot, v.slot)); aliases.append(sl)
        w.emit('dump')
        how = rng.choice(['name', 'handle', 'idof'])
        if how == 'idof':
            w.emit('del D %s idof %s' % (b.slot, v.slot)); w.kill(v)
        else:
            w.delete(v, how)
        w.emit('dump')
        w.emit('valid %s deleted' % v.slot)
        for sl in aliases: w.emit('valid %s deleted' % sl)
        for g in groups: w.emit('xlinks mD %s' % g.slot)
    return w.lines

def many_holders_case(rng, n):
    """ONE target linked from n holders (a source attached to n arrays, an array referenced by n tags and member of a group): after
    its deletion none of them exposes it — however many there are"""
    w = World(rng, names=PLAIN)
    w.open('ow')
    b = w.mk('B', None, name='b')
    src = w.mk('O', b, name='subject'); shared = w.mk('A', b, name='shared', extra=[3])
    arrs = [w.mk('A', b, name='a%d' % i, extra=[2]) for i in range(n)]
    tags = [w.mk('T', b, name='t%d' % i) for i in range(n)]
    g = w.mk('G', b, name='g')
    for a in arrs: w.emit('link src %s handle %s' % (a.slot, src.slot))
    for t in tags: w.emit('link ref %s handle %s' % (t.slot, shared.slot))
    w.emit('link mA %s handle %s' % (g.slot, shared.slot))
    if rng.random() < 0.5: w.reopen('rw')
    for v in (src, shared):
        w.emit('dump'); w.delete(v, rng.choice(['name', 'handle'])); w.emit('dump'); w.emit('valid %s deleted' % v.slot)
    return w.lines

def twins(w, rng):
    """entities of different parents that share a name: two blocks with an array / frame / tag / group / root source `twin` each, a
    nested source `twin`, two sections with a child `twin` each — material for deletes and unlinks BY HANDLE through the wrong parent"""
    bs = w.alive('B')[:2]
    while len(bs) < 2: bs.append(w.mk('B', None))
    made = []
    for b in bs:
        for k in rng.sample(['A', 'D', 'T', 'G', 'O'], 3):
            if 'twin' not in w.taken(k, b.slot): made.append(w.mk(k, b, name='twin'))
    root = w.pick('O', parent=bs[0].slot)
    if root and root.name != 'twin' and 'twin' not in w.taken('O', root.slot): made.append(w.mk('O', root, name='twin'))
    secs = w.alive('S', parent='$F')[:2]
    while len(secs) < 2: secs.append(w.mk('S', None))
    for s_ in secs:
        if 'twin' not in w.taken('S', s_.slot): made.append(w.mk('S', s_, name='twin'))
    if 'twin' not in w.taken('S', '$F'): made.append(w.mk('S', None, name='twin'))
    return [e for e in made if e is not None and e.alive]

def wrong_parent_deletes(w, rng, n):
    """delete / unlink by the handle of an entity that lives under ANOTHER parent (and has the name of a child of this one): refused
    with `false`, nothing changes"""
    for _ in range(n):
        v = w.pick(['A', 'D', 'T', 'G', 'O', 'S'])
        if v is None: continue
        same = [e for e in w.alive(v.kind) if e.name == v.name and e.parent != v.parent]
        if not same and rng.random() < 0.7: continue
        if same:
            par = rng.choice(same).parent
        else:
            pk = [e for e in w.alive('B' if v.kind != 'S' else 'S') if e.slot != v.parent and e.slot != v.slot]
            if not pk: continue
            par = rng.choice(pk).slot
        if v.kind == 'O' and not any(e.slot == par and e.kind in ('B', 'O') for e in w.ents): continue
        w.emit('dump')
        w.emit('del %s %s handle %s' % (v.kind, par, v.slot))
        w.emit('dump')
        w.emit('valid %s' % v.slot)
    # a reference / a member removed by the handle of a namesake of another block
    for t in w.alive(['T', 'M'])[:3]:
        for a in [x for x in w.alive('A') if x.block != t.block][:2]:
            w.emit('dump'); w.emit('unlink ref %s handle %s' % (t.slot, a.slot)); w.emit('dump')
    for g in w.alive('G')[:2]:
        for a in [x for x in w.alive(['A', 'D', 'T']) if x.block != g.block][:2]:
            w.emit('dump'); w.emit('unlink %s %s handle %s' % (REL_OF[a.kind], g.slot, a.slot)); w.emit('dump')

def history(rng, tier):
    w = World(rng, names=PLAIN)
    w.open('ow')
    build(w, rng, rng.randint(15, 35))
    tw = twins(w, rng) if rng.random() < 0.6 else []
    roots = []
    for b in w.alive('B')[:2]:
        if not w.alive(['A'], block=b.slot): w.mk('A', b)
        if not w.alive(['T'], block=b.slot): w.mk('T', b)
        roots.append(forest(w, rng, 'O', b))
    roots.append(forest(w, rng, 'S', None))
    for r_ in roots:
        attach_subtree(w, rng, r_)
    dense_links(w, rng)
    for _ in range(rng.randint(0, 8)):
        w.random_content_step()       # what the survivors contain (descriptors, extents, data, property values) must survive as well
    if rng.random() < 0.5:
        w.reopen('rw')
        dense_links(w, rng)
    if tw:
        # references / members / sources to the twins, so that a wrong delete or unlink has something to take
        for e in tw:
            if e.kind == 'A':
                for t in w.alive(['T', 'M'], block=e.block)[:2]: w.emit('link ref %s handle %s' % (t.slot, e.slot))
            if e.kind in REL_OF:
                for g in w.alive('G', block=e.block)[:1]: w.emit('link %s %s handle %s' % (REL_OF[e.kind], g.slot, e.slot))
            if e.kind == 'O':
                for h in w.alive(['A', 'T'], block=e.block)[:2]: w.emit('link src %s handle %s' % (h.slot, e.slot))
        wrong_parent_deletes(w, rng, rng.randint(3, 6))
    for _ in range(rng.randint(3, 7)):
        cands = [e for e in w.alive() if e.kind != 'R' and not (e.kind == 'B' and len(w.alive('B')) == 1)]
        if not cands: break
        # prefer victims that others point to or that have children
        rng.shuffle(cands)
        v = next((e for e in cands if e.kind in ('A', 'O', 'S')), cands[0]) if rng.random() < 0.7 else cands[0]
        live_roots = [r_ for r_ in roots if r_.alive]
        if live_roots and rng.random() < 0.35:
            v = rng.choice(live_roots)
        # second routes to the victim: handles obtained THROUGH holders (tag / multi-tag references, group members, attached
        # sources, metadata), fetched before the delete and asked for their validity afterwards
        aliases = []
        def alias(rel, holder):
            sl = '$al%d' % (len(w.lines))
            w.emit('getlinkh %s %s %s idof %s' % (sl, rel, holder.slot, v.slot) if rel != 'meta' else 'getlinkh %s meta %s idx 0' % (sl, holder.slot))
            aliases.append(sl)
        survivors = []
        if v.kind == 'A':
            for t in w.alive(['T', 'M'], block=v.block)[:3]: alias('ref', t)
            for g in w.alive('G', block=v.block)[:2]: alias('mA', g)
        # handles of entities that SURVIVE, fetched through the victim (its sources, its metadata — for an array also through a tag
        # that refers to it): the route goes with the victim, the entities stay, their handles stay valid
        if v.kind in ('A', 'D', 'T', 'M', 'G'):
            for via in [v.slot] + aliases[:2]:
                for k in range(2):
                    sl = '$sv%d' % len(w.lines)
                    w.emit('getlinkh %s src %s idx %d' % (sl, via, k)); survivors.append(sl)
                sl = '$sv%d' % len(w.lines)
                w.emit('getlinkh %s meta %s idx 0' % (sl, via)); survivors.append(sl)
        elif v.kind in ('T', 'M', 'D'):
            for g in w.alive('G', block=v.block)[:2]: alias(REL_OF[v.kind], g)
        elif v.kind == 'O':
            for h in w.alive(['A', 'T', 'G'], block=v.block)[:3]: alias('src', h)
        # everything below the victim goes with it (sub-sections and sub-sources at every depth, the children of a block):
        # their handles are asked as well
        below, frontier = [], [v.slot]
        while frontier:
            nxt = [e for e in w.ents if e.alive and e.parent in frontier]
            below += nxt
            frontier = [e.slot for e in nxt]
        # the id looked up through the parent before the delete (whatever the parent remembers about it must not outlive the entity)
        reborn = v.kind in ('A', 'D', 'T', 'G', 'O', 'S') and v.kind != 'B' and rng.random() < 0.5
        if reborn:
            for _ in range(3): w.emit('has %s %s idof %s' % (v.kind, v.parent, v.slot))
            w.emit('get $pre %s %s idof %s' % (v.kind, v.parent, v.slot))
        w.emit('dump')
        how = rng.choice(['name', 'handle', 'idof'])
        if how == 'idof':
            w.emit('del %s %s idof %s' % (v.kind, v.parent, v.slot))
            w.kill(v)
        else:
            w.delete(v, how)
        w.emit('dump')
        w.emit('valid %s deleted' % v.slot)
        if reborn:
            # an entity of the same kind and NAME is created in its place: the old id finds nothing, deletes nothing, links nothing
            par = next((e for e in w.ents if e.slot == v.parent and e.alive), None)
            if par is not None or v.parent == '$F':
                nw = w.mk(v.kind, par, name=v.name)
                for _ in range(2): w.emit('has %s %s idof %s' % (v.kind, v.parent, v.slot))
                w.emit('get $post %s %s idof %s' % (v.kind, v.parent, v.slot))
                w.emit('has %s %s name %s' % (v.kind, v.parent, S(v.name)))
                w.emit('xcheck %s %s' % (v.kind, v.parent))
                w.emit('valid %s deleted' % v.slot)
                if v.kind == 'A':
                    for t in w.alive(['T', 'M'], block=v.block)[:2]: w.emit('link ref %s idof %s' % (t.slot, v.slot))
                w.emit('dump')
                w.emit('del %s %s idof %s' % (v.kind, v.parent, v.slot))
                w.emit('dump')
                if nw is not None and nw.alive: w.emit('valid %s' % nw.slot)
        for sl in aliases:
            w.emit('valid %s deleted' % sl)
        for sl in survivors:
            w.emit('valid %s alive' % sl)
        for e in below[:12]:
            w.emit('valid %s deleted' % e.slot)
        if v.kind == 'A':
            # features whose array went are still listed (without data); the others are still found through their array
            for t in w.alive(['T', 'M'], block=v.block)[:4]:
                w.emit('xfeat %s' % t.slot)
    return w.lines

def cases(tier, seed, rng):
    from vlib.runner import Case
    n = 60 if tier == 'quick' else 1500
    out = [Case(with_hdump(history(rng, tier), rng, 0.5), 'gen:graph') for _ in range(n)]
    out += [Case(with_hdump(frame_case(rng), rng, 0.5), 'gen:frames-in-use') for _ in range(4 if tier == 'quick' else 80)]
    out += [Case(with_hdump(source_chain_case(rng), rng, 0.3), 'gen:source-chain') for _ in range(10 if tier == 'quick' else 200)]
    out += [Case(with_hdump(uuid_named_case(rng), rng, 0.3), 'gen:uuid-shaped-names') for _ in range(10 if tier == 'quick' else 150)]
    out += [Case(many_holders_case(rng, k), 'gen:many-holders') for k in ((40,) if tier == 'quick' else (33, 40, 64, 130))]
    out += [Case(with_hdump(holder_case(rng), rng, 0.5), 'gen:holder-fields') for _ in range(8 if tier == 'quick' else 150)]
    # link paths around 256 characters ("/data/b/data_arrays/<name>", "/data/b/tags/<name>/references/<id>", "/data/b/groups/<name>/data_arrays/<id>")
    for length in (range(228, 246) if tier == 'quick' else range(150, 300)):
        out.append(Case(long_name_history(rng, length, 'array'), 'gen:long-array-name'))
    for length in (list(range(186, 202)) + list(range(168, 184)) if tier == 'quick' else range(120, 260)):
        out.append(Case(long_name_history(rng, length, 'holder'), 'gen:long-holder-name'))
    return out

def nontrivial(case, tags):
    return any(t.startswith('dump.after_delete') for t in tags)
def signature(f):
    return '%s:%s:%s' % (f.kind, f.tag(), f.rule())
