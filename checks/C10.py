"""C10 — format-version gate and order."""
ID = 'C10'
THEOREMS = [
    'Nix.C10.lt_iff_specLt', 'Nix.C10.eq_iff', 'Nix.C10.gate_read_iff', 'Nix.C10.gate_write_iff',
    'Nix.C10.gate_read_iff_lib', 'Nix.C10.gate_write_iff_lib', 'Nix.C10.force_bypasses',
    'Nix.C10.overwrite_accepts', 'Nix.C10.lt_irrefl', 'Nix.C10.lt_trans', 'Nix.C10.lt_asymm',
    'Nix.C10.lt_trichotomous', 'Nix.C10.eq_iff_not_lt_not_gt', 'Nix.C10.le_iff_lt_or_eq',
    'Nix.C10.ge_iff_gt_or_eq', 'Nix.C10.ne_iff', 'Nix.C10.le_total',
]
RULE = ('exhaustive cube of version triples around the library version (from the generated table) plus int extremes; '
        'every triple is written into a real file with raw HDF5 and opened in every mode x Force; all six comparison '
        'operators on all pairs of the cube.  A case is non-trivial when the model path is not a parse error '
        '(every case here); distinct = distinct op line.')
EXHAUSTIVE = {'quick': True, 'thorough': True}
TRUSTED = ['model of FileHDF5::checkHeader / FormatVersion (lean/NixModel/Version.lean) tied by exhaustive correspondence on the cube',
           'HDF5 attribute I/O (H5Awrite/H5Aread of the version vector)']
ASSUMPTIONS = ['int components are compared only (no arithmetic), so Int models int',
               'header rewriting through raw HDF5 produces the same attribute layout nix reads']

LIB = (1, 2, 0)

def lib_version():
    import json, os
    p = os.path.join(os.path.dirname(os.path.dirname(__file__)), 'lean/NixModel/Gen/Tables.lean.json')
    try:
        return tuple(json.load(open(p))['libVersion'])
    except Exception:
        return LIB

def cases(tier, seed, rng):
    from vlib.runner import Case
    L = lib_version()
    r = 2 if tier == 'quick' else 3
    IMIN, IMAX = -2147483648, 2147483647
    cube = [(L[0] + i, L[1] + j, L[2] + k) for i in range(-r, r + 1) for j in range(-r, r + 1) for k in range(-r, r + 1)]
    ext = [IMIN, -1, 0, 100, 250, 10000, IMAX]
    extremes = [(a, b, c) for a in ext + [L[0]] for b in ext + [L[1]] for c in ext + [L[2]]]
    out = [Case(['probe_version'])]
    # gate: every triple x mode x force  (file operations: ~1.5 ms each)
    gate_triples = cube + (extremes if tier == 'thorough' else extremes[::7])
    for v in dict.fromkeys(gate_triples):
        for mode in ('ro', 'rw', 'ow'):
            # the flag word: Force alone, nothing, and Force together with / without other bits
            for force in (0, 1, 3, 2, 255, 254):
                if mode == 'ow' and (force != 0 or v not in cube[::9]):
                    continue
                if force > 1 and v not in cube[::2]:
                    continue
                out.append(Case(['vgate [%d,%d,%d] = = %s %d' % (v[0], v[1], v[2], mode, force)]))
                if mode != 'ow' and (abs(v[0] - L[0]) + abs(v[1] - L[1]) + abs(v[2] - L[2])) <= 2:
                    out.append(Case(['vgate2 [%d,%d,%d] = = %s %d' % (v[0], v[1], v[2], mode, force)]))
                if mode == 'rw' and force == 0 and v in cube:
                    out.append(Case(['vgate3 [%d,%d,%d] = = rw 0' % (v[0], v[1], v[2])]))
    # files without an id attribute: required from the id-gate version on
    for v in cube + [(L[0], L[1] - 1, 100), (L[0], L[1] - 1, 250), (L[0], 0, 0)]:
        for force in (0, 1):
            out.append(Case(['vgate [%d,%d,%d] = ~ ro %d' % (v[0], v[1], v[2], force)]))
    # operators on all pairs of the cube (+ extremes against the cube's corners)
    pool = cube if tier == 'thorough' else [(L[0] + i, L[1] + j, L[2] + k) for i in (-1, 0, 1) for j in (-1, 0, 1) for k in (-1, 0, 1)]
    pairs = [(a, b) for a in pool for b in pool]
    some_ext = extremes if tier == 'thorough' else extremes[::5]
    pairs += [(a, b) for a in some_ext for b in some_ext[::3]] + [(a, b) for a in some_ext for b in pool[::5]] + [(b, a) for a in some_ext for b in pool[::5]]
    for a, b in pairs:
        out.append(Case(['vcmp %d %d %d %d %d %d' % (a + b)]))
        out.append(Case(['vcan %d %d %d %d %d %d' % (a + b)]))
    return out

def nontrivial(case, tags):
    return True

LEVEL_TEXT = ('Lean 4 theorems (all version triples over Int, all modes): read gate iff same major and minor not newer, write gate iff '
              'identical, Force bypasses, strict total lexicographic order consistent with equality; the model is tied to the code by '
              'exhaustive correspondence over a cube of triples written into real files plus int extremes, and the library version is '
              're-extracted from the source on every run.')
LEVEL_NOTE = ('Trusted: Lean kernel (axioms propext/Classical.choice/Quot.sound), the hand-written model of FormatVersion/checkHeader '
              '(validated exhaustively on the cube each run), table extractor, harness, HDF5 attribute I/O.')
