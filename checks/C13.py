"""C13 — dimension descriptors are gap-free, faithful, and aliases mirror their array."""
from vlib.tok import f64, s as S, lst
ID = 'C13'
FLAVOUR = {'quick': 'plain', 'thorough': 'asan'}
LEAN_MODULES = ['NixModel.Props.C13Enums', 'NixModel.Gen.Enums', 'NixModel.Props.C02Fields', 'NixModel.Gen.Fields', 'NixModel.Props.C13', 'NixModel.Props.C13UnitChecks', 'NixModel.Gen.UnitChecks']
TECHNIQUE = "Lean 4 proof (refinement) over a hand-written model + tables translated from the source on every run (unit predicates of the entry points; attribute names of the accessors; the dimension-kind <-> string conversion is a round trip) + differential correspondence (trace validation) with the built library"
THEOREMS = ['Nix.Enums.dimension_type_roundtrip', 'Nix.Enums.dimension_type_strings_agree', 'Nix.Enums.link_type_roundtrip', 'Nix.Enums.link_type_strings_agree', 'Nix.Enums.link_type_vector_covers_the_enum', 'Nix.Enums.data_type_roundtrip', 'Nix.Enums.data_type_names_distinct', 'Nix.Fields.accessor_overloads_name_one_field', 'Nix.Fields.every_written_field_is_read', 'Nix.Fields.every_read_field_is_written', 'Nix.Fields.reset_removes_what_the_setter_writes', 'Nix.Fields.getter_has_a_setter', 'Nix.Fields.model_field_names', 'Nix.UnitChecks.entry_points_of_one_unit_agree', 'Nix.UnitChecks.unit_setting_entry_points_check', 'Nix.C13.step_refines', 'Nix.C13.rel_observe', 'Nix.C13.run_invariant',
            'Nix.C13.dims_gapfree_invariant', 'Nix.C13.createGroup_keeps_gapfree', 'Nix.C13.getDimension_defined_iff', 'Nix.C13.dimensions_indices',
            'Nix.C13.append_gets_next_index',
            'Nix.C13.dim_roundtrip_sampled', 'Nix.C13.dim_roundtrip_range', 'Nix.C13.dim_roundtrip_set', 'Nix.C13.dim_roundtrip_frame',
            'Nix.C13.dim_roundtrip_alias', 'Nix.C13.reopen_preserves',
            'Nix.C13.ticks_sorted_invariant', 'Nix.C13.ticks_sorted_pairwise', 'Nix.C13.interval_positive_invariant',
            'Nix.C13.alias_mirrors_array', 'Nix.C13.alias_write_through', 'Nix.C13.array_write_shows_in_alias', 'Nix.C13.alias_preconditions', 'Nix.C13.alias_only_first',
            'Nix.C13.deleteDimensions_none', 'Nix.C13.refused_iff_illegal', 'Nix.C13.history_roundtrip']
RULE = ('random histories on one data array (12 element types, rank 1-3, extents 0-5) with a data frame in its block (1-4 columns) and one '
        'in another block: 8-40 calls from {append Set / Range / Sampled / Alias / DataFrame dimension (by column index, by column name, whole '
        'frame), deprecated create*Dimension(id), deleteDimensions, every setter of every kind incl. unsetting with none, array label / unit / '
        'data / extent, ticks(start,count), close + reopen rw / ro}, an observation (dimensionCount, dimensions(), getDimension(0..n+1) with every '
        'getter, array label / unit / data) after every call; ~18 % of the calls carry illegal arguments (unsorted / empty / NaN ticks, interval '
        '0 / negative / NaN, non-SI units, empty strings, column index = / > columns, unknown column name, frame of another block, empty frame '
        'handle, index 0 / n+1 / n+2, field of another kind, alias on 2-d / String / Bool / already described arrays, alias with a non-SI array '
        'unit). Values: duplicates, -0.0, denormals, +-inf, 1e308, UTF-8 / blank / long labels, values outside the element type (clipped). '
        'C13.Rel (Lean) is evaluated on every observation the library returns; the Lean model is the oracle for DIFF. '
        'non-trivial = an observation with >= 1 descriptor after an accepted append; distinct = distinct op text.')
TRUSTED = ['lean/NixModel/DimDesc.lean: hand-written model of the dimension code (front-end checks in C++ order, HDF5 group of named links) — tied to the library by this run',
           'lean/NixModel/Units.lean isSIUnit / isCompoundSIUnit (tied to the library by C18)',
           'H5Tconvert double -> element type -> double for finite values (truncation, clipping, float rounding)']
ASSUMPTIONS = ['range ticks are judged ascending in the sense of the library check: no neighbours with !(a <= b) (duplicates allowed, a NaN next to anything refused)',
               'an offset of 0.0 given to appendSampledDimension reads back as "no offset" (the default)',
               'array data written into integer arrays is finite (NaN / inf -> integer conversion is platform-defined)',
               'in a read-only session only "nothing changes" is judged, not what the mutating call answers']

LABELS = ['time', 'x', 'äöü€', ' ', 'a b', 'L' * 70, 'label:with;sep', 'ticks']
UNITS_OK = ['mV', 's', 'ms', 'Hz', 'kHz', 'uA', 'm^2', 'mV/s', 'nA*s^-1', 'dB', 'Ohm', 'mol', 'K']
UNITS_BAD = ['parsec', 'furlong', 'm V', 'mVs', 'volt', '1', 'mV/', 's^0']
NUMERIC = ['Int8', 'Int16', 'Int32', 'Int64', 'UInt8', 'UInt16', 'UInt32', 'UInt64', 'Float', 'Double']
NAN = 'd7ff8000000000000'

def ticks_ok(rng):
    n = rng.choice([1, 1, 2, 3, 3, 5, 8, 40])
    base = rng.choice([-1e308, -5.0, -0.0, 0.0, 5e-324, 0.1, 1.0, 1e6])
    step = rng.choice([0.0, 5e-324, 0.1, 0.5, 1.0, 1e300])
    v = [base + i * step for i in range(n)]
    v = [x for x in v if x == x]
    v.sort()
    if rng.random() < 0.15: v = [float('-inf')] + v
    if rng.random() < 0.15: v = v + [float('inf')]
    if rng.random() < 0.2 and len(v) > 1: v[1] = v[0]            # duplicate
    return [f64(x) for x in v]

def ticks_bad(rng):
    r = rng.random()
    if r < 0.3: return [f64(3.0), f64(1.0), f64(2.0)]
    if r < 0.45: return [f64(1.0), f64(2.0), f64(1.9999999999999998)]
    if r < 0.6: return [f64(1.0), NAN, f64(0.5)]
    if r < 0.7: return [NAN, f64(1.0)]
    if r < 0.8: return [f64(0.0), f64(-5e-324)]
    if r < 0.9: return [f64(float('inf')), f64(1.0)]
    return [f64(1.0), f64(2.0), NAN]

def interval(rng, bad):
    if bad: return rng.choice([f64(0.0), f64(-0.0), f64(-1.5), NAN, f64(float('-inf')), f64(-5e-324)])
    return f64(rng.choice([5e-324, 0.1, 0.5, 1.0, 2.5, 1e308, float('inf')]))

def offset(rng):
    return rng.choice(['~', f64(0.0), f64(-0.0), f64(-1.0), f64(2.5), f64(1e300), NAN, f64(float('-inf'))])

def label(rng): return S(rng.choice(LABELS))
def unit(rng, bad=False): return S(rng.choice(UNITS_BAD if bad else UNITS_OK))

def data_values(dt, rng):
    n = rng.choice([0, 1, 2, 3, 5])
    if dt == 'Double':
        pool = [0.0, -0.0, 0.1, -2.5, 1e300, 5e-324, float('inf'), float('nan'), 3.0, 7.0]
    elif dt == 'Float':
        pool = [0.0, 0.1, -2.5, 1e40, 5e-324, 3.0, 7.0, float('inf'), 16777217.0]
    else:
        pool = [0.0, 1.0, 2.0, 1.7, -2.7, 40000.0, -40000.0, 3e9, -3e9, 1e19, 255.0, 127.5, 0.5]
    return [f64(rng.choice(pool)) for _ in range(n)]

def sorted_data(dt, rng):
    n = rng.choice([0, 1, 2, 4])
    pool = [-3.5, -1.0, 0.0, 0.5, 1.7, 2.0, 300.0, 70000.0] if dt not in ('Double', 'Float') else [-1e300, -0.5, 0.0, 0.1, 2.0, 1e300]
    v = sorted(rng.choice(pool) for _ in range(n))
    return [f64(x) for x in v]

class G:
    """generator state: what the array looks like if every legal call was accepted and every illegal one refused"""
    def __init__(self, rng, tier):
        self.rng = rng
        self.dt = rng.choice(NUMERIC + ['String', 'Bool'])
        self.rank = rng.choice([1, 1, 1, 2, 3])
        self.shape = [rng.choice([0, 1, 2, 3, 5]) for _ in range(self.rank)]
        self.ncols = rng.randint(1, 4)
        self.kinds = []          # kind letters of the descriptors believed to exist
        self.unit_ok = True      # array unit (if any) is SI / compound
        self.ro = False
        self.lines = ['dd_new %s %s %d %d' % (self.dt, lst([str(x) for x in self.shape]), self.ncols, rng.randint(0, 3)), 'dd_obs']
    def numeric1(self): return self.rank == 1 and self.dt in NUMERIC
    def emit(self, l, obs=True):
        self.lines.append(l)
        if obs: self.lines.append('dd_obs')
    def idx_of(self, kinds):
        c = [i + 1 for i, k in enumerate(self.kinds) if k in kinds]
        return self.rng.choice(c) if c else None

    def legal_append(self):
        r = self.rng; q = r.random()
        if self.numeric1() and not self.kinds and self.unit_ok and r.random() < 0.35:
            self.emit('dd_app alias'); self.kinds.append('A')
            if r.random() < 0.35: self.emit('dd_arr unit %s' % unit(r, True))       # non-SI unit under a sole alias: must be refused
        elif q < 0.2:
            n = r.choice([0, 0, 1, 3, 6])
            self.emit('dd_app set %s' % lst([S(r.choice(LABELS + ['', 'a', 'b'])) for _ in range(n)])); self.kinds.append('T')
        elif q < 0.45:
            self.emit('dd_app range %s %s %s' % (lst(ticks_ok(r)), r.choice(['~', label(r)]), r.choice(['~', unit(r)]))); self.kinds.append('R')
        elif q < 0.7:
            self.emit('dd_app sampled %s %s %s %s' % (interval(r, False), r.choice(['~', label(r)]), r.choice(['~', unit(r)]), offset(r))); self.kinds.append('S')
        elif q < 0.85:
            c = r.choice(['~', str(r.randrange(self.ncols)), 'n:' + S('c%d' % r.randrange(self.ncols))])
            self.emit('dd_app frame f %s' % c); self.kinds.append('F')
        elif q < 0.93 and self.numeric1() and not self.kinds and self.unit_ok:
            self.emit('dd_app alias'); self.kinds.append('A')
        else:
            k = r.choice(['set', 'range', 'sampled'])
            wrong_id = r.choice([0, 1, len(self.kinds) + 1, len(self.kinds) + 5])      # the id is ignored by the deprecated API
            if k == 'set': self.emit('dd_create set %d' % wrong_id); self.kinds.append('T')
            elif k == 'range': self.emit('dd_create range %d %s' % (wrong_id, lst(ticks_ok(r)))); self.kinds.append('R')
            else: self.emit('dd_create sampled %d %s' % (wrong_id, interval(r, False))); self.kinds.append('S')

    def legal_set(self):
        r = self.rng
        if not self.kinds: return self.legal_append()
        i = r.randrange(len(self.kinds)) + 1
        k = self.kinds[i - 1]
        if k == 'S':
            f = r.choice(['interval', 'offset', 'unit', 'label'])
            v = {'interval': lambda: interval(r, False), 'offset': lambda: offset(r), 'unit': lambda: r.choice(['~', unit(r)]),
                 'label': lambda: r.choice(['~', label(r)])}[f]()
        elif k == 'R':
            f = r.choice(['ticks', 'ticks', 'unit', 'label'])
            v = {'ticks': lambda: lst(ticks_ok(r) if r.random() < 0.9 else []), 'unit': lambda: r.choice(['~', unit(r)]),
                 'label': lambda: r.choice(['~', label(r)])}[f]()
        elif k == 'A':
            f = r.choice(['ticks', 'unit', 'label'])
            v = {'ticks': lambda: lst(sorted_data(self.dt, r)), 'unit': lambda: r.choice(['~', unit(r)]), 'label': lambda: r.choice(['~', label(r)])}[f]()
            if f == 'unit': self.unit_ok = True
        elif k == 'T':
            f = r.choice(['labels', 'label'])
            v = {'labels': lambda: r.choice(['~', lst([S(r.choice(LABELS + ['']))for _ in range(r.choice([0, 1, 4]))])]),
                 'label': lambda: r.choice(['~', label(r)])}[f]()
        else:
            return self.legal_append()
        self.emit('dd_set %d %s %s' % (i, f, v))

    def array_op(self):
        r = self.rng; q = r.random()
        if q < 0.3: self.emit('dd_arr label %s' % r.choice(['~', label(r)]))
        elif q < 0.6:
            sole_alias = self.kinds == ['A']
            if sole_alias and r.random() < 0.35:
                self.emit('dd_arr unit %s' % unit(r, True))                              # must be refused, the unit stays
            elif r.random() < 0.25 and not sole_alias:
                self.emit('dd_arr unit %s' % unit(r, True)); self.unit_ok = False
            else:
                u = r.choice(UNITS_OK)
                if r.random() < 0.2: u = ' ' + u + '\t'
                self.emit('dd_arr unit %s' % r.choice(['~', S(u)])); self.unit_ok = True
        elif q < 0.85 and self.numeric1():
            self.emit('dd_arr data %s' % lst(data_values(self.dt, r)))
        else:
            self.emit('dd_arr ext %s' % lst([str(r.choice([0, 1, 2, 4, 6])) for _ in range(self.rank)]))

    def illegal(self):
        r = self.rng; q = r.random(); n = len(self.kinds)
        if q < 0.12: self.emit('dd_app range %s ~ ~' % lst(ticks_bad(r)))
        elif q < 0.17: self.emit('dd_app range [] %s ~' % label(r))
        elif q < 0.25: self.emit('dd_app range %s ~ %s' % (lst(ticks_ok(r)), unit(r, True)))
        elif q < 0.33: self.emit('dd_app sampled %s ~ ~ ~' % interval(r, True))
        elif q < 0.39: self.emit('dd_app sampled %s %s %s ~' % (interval(r, False), label(r), unit(r, True)))
        elif q < 0.45: self.emit('dd_app frame f %d' % (self.ncols + r.choice([0, 0, 1, 7])))
        elif q < 0.49: self.emit('dd_app frame f n:%s' % S(r.choice(['zz', '', 'C0', 'x'])))
        elif q < 0.55: self.emit('dd_app frame g %s' % r.choice(['0', '1', '~', 'n:' + S('x'), '5']))
        elif q < 0.58: self.emit('dd_app frame - %s' % r.choice(['0', '~', 'n:' + S('c0')]))
        elif q < 0.64:
            # alias where it is not allowed (2-d, String / Bool, already described) — or allowed, then it is simply an append
            self.emit('dd_app alias')
            if self.numeric1() and not self.kinds and self.unit_ok: self.kinds.append('A')
        elif q < 0.72:
            f, v = r.choice([('label', label(r)), ('unit', unit(r)), ('ticks', lst(ticks_ok(r))), ('interval', interval(r, False)),
                             ('labels', '[]'), ('offset', '~')])
            self.emit('dd_set %d %s %s' % (r.choice([0, n + 1, n + 2]), f, v))
        elif q < 0.8 and n:
            i = r.randrange(n) + 1; k = self.kinds[i - 1]
            wrong = {'S': ('ticks', lst(ticks_ok(r))), 'R': ('interval', interval(r, False)), 'A': ('labels', '[]'), 'T': ('unit', unit(r)),
                     'F': ('label', label(r))}[k]
            self.emit('dd_set %d %s %s' % (i, wrong[0], wrong[1]))
        elif q < 0.9 and n:
            i = r.randrange(n) + 1; k = self.kinds[i - 1]
            if k == 'S': self.emit('dd_set %d %s' % (i, r.choice(['interval ' + interval(r, True), 'unit ' + unit(r, True), 'unit x', 'label x'])))
            elif k in 'RA': self.emit('dd_set %d %s' % (i, r.choice(['ticks ' + lst(ticks_bad(r)), 'unit ' + unit(r, True), 'unit x', 'label x'])))
            elif k == 'T': self.emit('dd_set %d label x' % i)
            else: self.emit('dd_set %d unit %s' % (i, unit(r)))
        elif q < 0.95:
            if self.kinds == ['A'] and r.random() < 0.6: self.emit('dd_arr unit %s' % unit(r, True))       # non-SI unit under a sole alias
            else: self.emit('dd_arr %s' % r.choice(['label x', 'unit x', 'unit ' + S(' \t')]))
        else:
            self.emit('dd_arr ext %s' % lst([str(2)] * (self.rank + 1)))

def history(rng, tier):
    g = G(rng, tier)
    n = rng.randint(8, 18 if tier == 'quick' else 40)
    if not g.numeric1() and rng.random() < 0.5:
        g.emit('dd_app alias')                       # 2-d / String / Bool array: must be refused
    for _ in range(n):
        q = rng.random()
        if g.ro:
            # a read-only session: observations, a few calls that must not change anything, then back to rw
            if q < 0.5: g.emit(rng.choice(['dd_del', 'dd_app set []', 'dd_arr label %s' % label(rng), 'dd_set 1 label %s' % label(rng),
                                           'dd_app sampled %s ~ ~ ~' % interval(rng, False)]))
            else: g.emit('dd_reopen rw'); g.ro = False
            continue
        if q < 0.18: g.illegal()
        elif q < 0.45: g.legal_append()
        elif q < 0.7: g.legal_set()
        elif q < 0.82: g.array_op()
        elif q < 0.87:
            g.emit('dd_del'); g.kinds = []
        elif q < 0.92 and g.kinds:
            i = g.idx_of('RA') or rng.randint(0, len(g.kinds) + 1)
            g.emit('dd_ticks %d %d %d' % (i, rng.choice([0, 0, 1, 2]), rng.choice([0, 1, 2, 3, 50])), obs=False)
        elif q < 0.97:
            g.emit('dd_reopen rw')
        else:
            g.emit('dd_reopen ro'); g.ro = True
    if rng.random() < 0.5:
        g.emit('dd_reopen %s' % rng.choice(['rw', 'ro']))
    return g.lines

def alias_history(rng, tier):
    """a 1-d numeric array under a sole alias dimension: every write path in both directions, legal and illegal (unsorted / NaN ticks
    through the dimension must be refused and leave the array's data alone), interleaved with reopen"""
    g = G(rng, tier)
    g.dt = rng.choice(NUMERIC); g.rank = 1; g.shape = [rng.choice([0, 1, 3, 5])]
    g.lines = ['dd_new %s %s %d %d' % (g.dt, lst([str(x) for x in g.shape]), g.ncols, rng.randint(0, 3)), 'dd_obs']
    if rng.random() < 0.5: g.emit('dd_arr data %s' % lst(sorted_data(g.dt, rng)))
    if rng.random() < 0.5: g.emit('dd_arr unit %s' % S(rng.choice(UNITS_OK)))
    g.emit('dd_app alias'); g.kinds = ['A']
    for _ in range(rng.randint(4, 10 if tier == 'quick' else 20)):
        q = rng.random()
        if q < 0.3: g.emit('dd_set 1 ticks %s' % lst(ticks_bad(rng)))
        elif q < 0.5: g.emit('dd_set 1 ticks %s' % lst(sorted_data(g.dt, rng)))
        elif q < 0.6: g.emit('dd_arr data %s' % lst(data_values(g.dt, rng)))
        elif q < 0.7: g.emit('dd_set 1 %s' % rng.choice(['unit ' + unit(rng), 'unit ' + unit(rng, True), 'label ' + label(rng), 'unit ~', 'label ~']))
        elif q < 0.8: g.emit('dd_arr %s' % rng.choice(['unit ' + unit(rng), 'unit ' + unit(rng, True), 'label ' + label(rng), 'unit ~']))
        elif q < 0.87: g.emit('dd_ticks 1 %d %d' % (rng.choice([0, 0, 1, 2]), rng.choice([0, 1, 2, 3, 50])), obs=False)
        elif q < 0.93: g.emit('dd_app %s' % rng.choice(['alias', 'set []', 'range %s ~ ~' % lst(ticks_bad(rng))]))
        else: g.emit('dd_reopen rw')
    if rng.random() < 0.5: g.emit('dd_reopen %s' % rng.choice(['rw', 'ro']))
    return g.lines

def cases(tier, seed, rng):
    from vlib.runner import Case
    n = 600 if tier == 'quick' else 2500
    out = [Case(history(rng, tier), 'gen:dimdesc') for _ in range(n)]
    out += [Case(alias_history(rng, tier), 'gen:alias') for _ in range(60 if tier == 'quick' else 400)]
    # an array that NEVER had a descriptor (or lost all of them) observed in a read-only session: 0 descriptors is an answer, not an error
    for k in range(6 if tier == 'quick' else 40):
        g = G(rng, tier)
        L = list(g.lines) if k % 3 else [g.lines[0]]     # every third: not even ASKED for its descriptors before the read-only session
        if k % 2 == 1 and k % 3:
            g.lines = []; g.legal_append(); L += g.lines + ['dd_del', 'dd_obs']
        L += ['dd_reopen ro', 'dd_obs', 'dd_reopen ro', 'dd_obs', 'dd_reopen rw', 'dd_obs']
        out.append(Case(L, 'gen:no-descriptors-read-only'))
    return out

def nontrivial(case, tags):
    return any(t.startswith('dd_app.') and t.endswith('.ok') for t in tags) and any(t.startswith('dd_obs.n') and not t.startswith('dd_obs.n0.') for t in tags)

def signature(f):
    t = f.tag().split('.')
    return '%s:%s:%s' % (f.kind, '.'.join(t[:2]), f.rule())

LEVEL_TEXT = ('Lean 4 theorems about a hand-written model of the dimension code (front-end checks in the C++ statement order, the HDF5 '
              '`dimensions` group as named links with createDimensionGroup / the deleteDimensions loop / lookup by name, alias = redirect to the '
              'array), for every array, every environment and every history of API calls, no bound on lengths: the link names are exactly 1..n in '
              'append order (so getDimension(i) is defined iff 1<=i<=n, dimensions() reports 1..n, deleteDimensions leaves none); one call of the '
              'model refines the positional specification (accepted iff the arguments are not illegal, effect exactly as specified, refused = '
              'unchanged); each kind reads back what it was given; range ticks pass the sortedness check and sampling intervals are > 0 in every '
              'reachable state whichever entry point stored them; an alias answers with the array\'s data / unit / label in both directions and is '
              'created only on a 1-d numeric undescribed array with an SI unit; and the whole relation C13.Rel holds of the model\'s observation after '
              'every history. The same Rel is evaluated on every observation the library returns in the differential histories (all element '
              'types, ranks, every setter / getter, illegal arguments, reopen).')
LEVEL_NOTE = ('Trusted: Lean kernel; the model DimDesc.lean as a description of the C++ (validated each run by bit-exact differential histories); '
              'isSIUnit / isCompoundSIUnit of the units model (C18); H5Tconvert for finite values; doubles are an abstract ordered type in the '
              'theorems (only ticks_sorted_pairwise assumes transitivity of <=). Sortedness means "no neighbours with !(a<=b)": duplicates are '
              'allowed by the library. In read-only sessions only "nothing changes" is judged.')
