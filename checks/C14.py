"""C14 — metadata property values round trip with type, order, unit and uncertainty."""
from vlib.tok import f64, lst, s as S
ID = 'C14'
TECHNIQUE = "Lean 4 proof over a hand-written model + a table translated from the source on every run (attribute names of the accessors: getter, setter and reset agree) + differential correspondence (trace validation) with the built library"
LEAN_MODULES = ['NixModel.Props.C14', 'NixModel.Props.C02Fields', 'NixModel.Gen.Fields']
THEOREMS = ['Nix.Fields.accessor_overloads_name_one_field', 'Nix.Fields.every_written_field_is_read', 'Nix.Fields.every_read_field_is_written', 'Nix.Fields.reset_removes_what_the_setter_writes', 'Nix.Fields.getter_has_a_setter', 'Nix.Fields.model_field_names', 'Nix.C14.values_roundtrip', 'Nix.C14.replace_changes_count', 'Nix.C14.clear_empty', 'Nix.C14.mixed_type_rejected',
            'Nix.C14.assign_accepted_iff', 'Nix.C14.rejected_assign_leaves_no_trace', 'Nix.C14.assign_keeps_attributes',
            'Nix.C14.unit_roundtrip', 'Nix.C14.unit_reread_stable', 'Nix.C14.definition_roundtrip',
            'Nix.C14.rejected_call_leaves_no_trace', 'Nix.C14.step_frame', 'Nix.C14.reopen_preserves', 'Nix.C14.readonly_changes_nothing',
            'Nix.C14.step_agree', 'Nix.C14.history_agree', 'Nix.C14.rel_of_agree', 'Nix.C14.history_last_assigned', 'Nix.C14.history_values']
FLAVOUR = {'quick': 'plain', 'thorough': 'asan'}
RULE = ('random histories on one section: 1-4 properties created through the three createProperty overloads (type only / value vector / single value) '
        'over the 7 value types; 8-40 ops from {assign a vector of length 0..64, clear (deleteValues / values(none) / empty vector), set / unset unit '
        '(with blanks and tabs), uncertainty (NaN, inf, -0.0, extremes as bit patterns), definition, delete + re-create under the same name, read '
        '(through the kept handle or a fresh lookup), list names, close + reopen ro / rw}; values are type extremes, NaN payloads, +-inf, -0.0, '
        'empty / long / UTF-8 strings; a separate malformed stream (~18 %): vectors of another type, mixed-type vectors, Nothing variants, '
        'calls on missing or deleted properties, duplicate / empty / slash names, element types without a Variant or without a file type, '
        'empty definition, mutators on a read-only file. The Lean property model is the oracle (DIFF); the history rules of Spec/C14.lean are '
        'evaluated on every answer of the library (REL). non-trivial = a successful read of a non-empty property after a successful assignment.')
TRUSTED = ['lean/NixModel/Property.lean: the 1-d dataset behind a property is an idealised list (H5Dset_extent keeps a prefix and fills with zero / ""; a whole-extent write replaces the content) — modelled, not verified',
           'HDF5 attribute I/O (unit, uncertainty, definition) and variable-length string storage for NUL-free strings',
           'persistence across close + reopen is established by the correspondence run, not by proof']
ASSUMPTIONS = ['string values and attributes contain no NUL byte (they travel as C strings)',
               'property names are not UUID-shaped (name-or-id lookup, known finding K1 of C03)',
               'file format version >= 1.1.1 (old-style compound values are not modelled)']

TYPES = ['Bool', 'Int32', 'UInt32', 'Int64', 'UInt64', 'Double', 'String']
RANGES = {'Int32': (-2 ** 31, 2 ** 31 - 1), 'UInt32': (0, 2 ** 32 - 1), 'Int64': (-2 ** 63, 2 ** 63 - 1), 'UInt64': (0, 2 ** 64 - 1)}
NAMES = ['p', 'q', 'name with space', 'ünï€', 'a.b', 'Z', 'p ']
UNITS = ['mV', ' m V\t', 'kg', 'not a unit', 'µm', 'm/s^2', ' ', '\t \t', 'x' * 70, 'mV ', '%']
DEFS = ['a definition', 'd', 'déf €', ' leading blank', 'y' * 400, 'tab\tnl\n']

def value(t, rng):
    if t == 'Bool':
        return 'Bool:%d' % rng.randint(0, 1)
    if t in RANGES:
        lo, hi = RANGES[t]
        r = rng.random()
        v = lo if r < 0.15 else hi if r < 0.3 else 0 if r < 0.38 else hi - 1 if r < 0.43 else rng.randint(max(lo, -10 ** 6), min(hi, 10 ** 6))
        return '%s:%d' % (t, v)
    if t == 'Double':
        r = rng.random()
        if r < 0.08: return 'Double:d7ff8000000000abc'      # NaN with payload
        if r < 0.12: return 'Double:dfff8000000000000'      # negative quiet NaN
        if r < 0.17: return 'Double:d7ff0000000000000'
        if r < 0.22: return 'Double:dfff0000000000000'
        if r < 0.28: return 'Double:d8000000000000000'      # -0.0
        return 'Double:' + f64(rng.choice([0.0, 0.1, -2.5, 1e300, 5e-324, 1.7976931348623157e308, rng.uniform(-1e3, 1e3)]))
    if t == 'String':
        s = rng.choice(['', 'a', 'hello world', 'äöü€ \U0001f600', 'x' * rng.randint(1, 300), 'z' * rng.randint(1000, 5000),
                        'tab\tnew\nline', 'byte \x01\x7f', ' ', 'a,b:c[d]'])
        return 'String:' + S(s)
    if t == 'Nothing':
        return 'Nothing:0'
    raise ValueError(t)

def vector(t, rng, lo=0):
    r = rng.random()
    n = lo if r < 0.06 else 1 if r < 0.25 else rng.randint(2, 8) if r < 0.8 else rng.randint(9, 64)
    n = max(n, lo)
    return [value(t, rng) for _ in range(n)]

def other_type(t, rng):
    return rng.choice([x for x in TYPES if x != t])

def history(rng, tier):
    lines = ['pv_open']
    props = {}            # name -> type of the properties the generator believes exist
    state = {'ro': False}
    via = lambda: rng.choice(['h', 'h', 'n', 'k', 'k'])

    def create(name=None):
        name = name if name is not None else rng.choice([n for n in NAMES if n not in props] or NAMES)
        t = rng.choice(TYPES)
        k = rng.random()
        if k < 0.3:
            lines.append('pv_mkd %s %s' % (S(name), t))
        elif k < 0.75:
            lines.append('pv_mkv %s %s' % (S(name), lst(vector(t, rng, lo=1))))
        else:
            lines.append('pv_mk1 %s %s' % (S(name), value(t, rng)))
        if name not in props and not state['ro']:
            props[name] = t
        return name

    def malformed():
        k = rng.random()
        have = list(props)
        if k < 0.2 and have:
            n = rng.choice(have); t = props[n]
            vs = vector(other_type(t, rng), rng, lo=1)                     # all of another type
            lines.append('pv_set %s %s %s' % (S(n), via(), lst(vs)))
        elif k < 0.42 and have:
            n = rng.choice(have); t = props[n]
            vs = vector(t, rng, lo=2)
            i = rng.randrange(len(vs)) if rng.random() < 0.6 else len(vs) - 1    # one intruder, often the last / not the first
            vs[i] = value(rng.choice([other_type(t, rng), 'Nothing']), rng)
            lines.append('pv_set %s %s %s' % (S(n), via(), lst(vs)))
        elif k < 0.52:
            t = rng.choice(TYPES)
            vs = vector(t, rng, lo=2)
            vs[rng.randrange(1, len(vs))] = value(rng.choice([other_type(t, rng), 'Nothing']), rng)
            name = rng.choice([n for n in NAMES if n not in props] or ['fresh'])
            lines.append('pv_mkv %s %s' % (S(name), lst(vs)))               # mixed-type creation
            lines.append('pv_get %s n' % S(name))
            lines.append('pv_names')
        elif k < 0.6:
            n = rng.choice(['missing', 'gone'])
            lines.append(rng.choice(['pv_set %s h [Int32:1]', 'pv_get %s n', 'pv_clr %s n del', 'pv_unit %s h x6d56', 'pv_unc %s n ~', 'pv_def %s h x64', 'pv_del %s']) % S(n))
        elif k < 0.7:
            bad = rng.choice(['', 'a/b', '/', rng.choice(have) if have else ''])  # empty, slash, duplicate
            t = rng.choice(TYPES)
            lines.append(rng.choice(['pv_mkd %s ' + t, 'pv_mkv %s ' + lst(vector(t, rng, lo=1)), 'pv_mk1 %s ' + value(t, rng)]) % S(bad))
            lines.append('pv_names')
        elif k < 0.76:
            lines.append('pv_mkv %s []' % S(rng.choice(NAMES)))
        elif k < 0.86:
            name = rng.choice(['odd', 'odd2'])
            lines.append('pv_mkd %s %s' % (S(name), rng.choice(['Char', 'Nothing', 'Float', 'Int8', 'Int16', 'UInt8', 'UInt16', 'Opaque'])))
            lines.append('pv_get %s n' % S(name))
            if rng.random() < 0.5: lines.append('pv_set %s h %s' % (S(name), lst(vector(rng.choice(TYPES), rng))))
            if rng.random() < 0.5: lines.append('pv_get %s h' % S(name))
        elif k < 0.9:
            lines.append('pv_mk1 %s Nothing:0' % S('nothing'))
            lines.append('pv_names')
        elif k < 0.95 and have:
            lines.append('pv_def %s %s x' % (S(rng.choice(have)), via()))   # empty definition
        elif have:
            n = rng.choice(have)
            lines.append('pv_set %s %s [Nothing:0]' % (S(n), via()))
        if have and rng.random() < 0.7:
            lines.append('pv_get %s %s' % (S(rng.choice(have)), via()))

    for _ in range(rng.randint(1, 3)):
        create()
    n_ops = rng.randint(8, 20 if tier == 'quick' else 40)
    for _ in range(n_ops):
        if rng.random() < 0.18:
            malformed()
            continue
        have = list(props)
        if not have:
            create(); continue
        n = rng.choice(have); t = props[n]
        r = rng.random()
        if r < 0.30:
            lines.append('pv_set %s %s %s' % (S(n), via(), lst(vector(t, rng))))
            if rng.random() < 0.6: lines.append('pv_get %s %s' % (S(n), via()))
        elif r < 0.50:
            lines.append('pv_get %s %s' % (S(n), via()))
        elif r < 0.57:
            lines.append(rng.choice(['pv_clr %s %s del', 'pv_clr %s %s none', 'pv_set %s %s []']) % (S(n), via()))
            lines.append('pv_get %s %s' % (S(n), via()))
        elif r < 0.66:
            lines.append('pv_unit %s %s %s' % (S(n), via(), S(rng.choice(UNITS)) if rng.random() < 0.85 else '~'))
        elif r < 0.73:
            u = rng.choice(['d7ff8000000000001', 'd7ff0000000000000', 'd8000000000000000', f64(0.5), f64(-1e-300), f64(rng.uniform(0, 10)), '~'])
            lines.append('pv_unc %s %s %s' % (S(n), via(), u))
        elif r < 0.79:
            lines.append('pv_def %s %s %s' % (S(n), via(), S(rng.choice(DEFS)) if rng.random() < 0.85 else '~'))
        elif r < 0.86:
            mode = rng.choice(['rw', 'rw', 'ro'])
            lines.append('pv_reopen %s' % mode)
            state['ro'] = mode == 'ro'
            for m in have:
                if rng.random() < 0.7: lines.append('pv_get %s %s' % (S(m), via()))
        elif r < 0.90:
            lines.append('pv_del %s' % S(n))
            if not state['ro']: del props[n]
            lines.append('pv_names')
            if rng.random() < 0.6: create(n)          # same name again: nothing of the old property may come back
            lines.append('pv_get %s n' % S(n))
        elif r < 0.96:
            create()
        else:
            lines.append('pv_names')
    if rng.random() < 0.8:
        lines.append('pv_reopen %s' % rng.choice(['ro', 'rw']))
    for m in props:
        lines.append('pv_get %s n' % S(m))
    lines.append('pv_names')
    return lines

def cases(tier, seed, rng):
    from vlib.runner import Case
    n = 300 if tier == 'quick' else 4000
    out = [Case(history(rng, tier), 'gen:props') for _ in range(n)]
    out.append(Case(old_format_lines(rng, 20 if tier == 'quick' else 400), 'gen:old-format'))
    return out

def old_format_lines(rng, n):
    """properties of files in the format before 1.1.1 (one compound record per value), prepared with the HDF5 C API and read through the
    public API: every value type, lengths 0..12, extremes"""
    pool = {'Int32': ['Int32:%d' % v for v in (0, 1, -2, 2 ** 31 - 1, -2 ** 31, 5)],
            'UInt32': ['UInt32:%d' % v for v in (0, 7, 2 ** 32 - 1)],
            'Int64': ['Int64:%d' % v for v in (-1, 2 ** 40, 2 ** 63 - 1, -2 ** 63)],
            'UInt64': ['UInt64:%d' % v for v in (3, 4, 2 ** 64 - 1)],
            'Double': ['Double:' + f64(v) for v in (0.5, -0.0, 1e300, float('inf'))] + ['Double:d7ff8000000000001'],
            'String': ['String:' + S(v) for v in ('alpha', '', 'grüße', 'x' * 300)],
            'Bool': ['Bool:1', 'Bool:0']}
    lines = []
    for k in range(n):
        t = list(pool)[k % len(pool)]
        vals = [rng.choice(pool[t]) for _ in range(rng.choice([0, 1, 1, 2, 3, 5, 12]))]
        lines.append('pv_old %s %s %s' % (t, lst(vals), f64(rng.choice([0.25, 1.5, 0.0, 1e-3]))))
        # the current layout under the version labels that use it: 1.1.1 (the first), later 1.1.x, 1.2.0
        vals1 = [rng.choice(pool[t]) for _ in range(rng.choice([1, 1, 2, 3, 5]))]
        lines.append('pv_relabel %s %s' % (rng.choice(['1 1 1', '1 1 1', '1 1 2', '1 1 9', '1 2 0']), lst(vals1)))
    return lines

def nontrivial(case, tags):
    return any(t.startswith('pv_set.ok') for t in tags) and any(t.startswith('pv_get.') and t.endswith('.values') for t in tags)
def signature(f):
    return '%s:%s:%s' % (f.kind, f.tag().split('.')[0], f.rule())

LEVEL_TEXT = ('Lean 4 theorems about a model of Property / PropertyHDF5 / the createProperty overloads that follows the C++ statement order, for every value and double token type and every history: an accepted assignment reads back exactly (types, order, length incl. 0) with valueCount = length; a later assignment replaces the earlier one entirely; clearing leaves no value and keeps type and attributes; a vector containing a value of another type is refused with the property untouched, at assignment and at creation; unit (deblanked, all-blank unsets), uncertainty and definition read back as last set and are independent of the values; a refused call of any kind leaves every property as it was; calls on one property leave the others alone; reopen changes nothing; and by induction over arbitrary call sequences (creations, assignments, clearings, attribute changes, deletions and re-creations, reopens, refused calls) the decidable relation Rel of Spec/C14.lean holds between every existing property and the history of accepted calls. The same Rel is evaluated on every answer of the library in differential histories over the 7 value types with extremes, NaN payloads, long and UTF-8 strings, vectors of length 0..64, read-only sessions and reopen.')
LEVEL_NOTE = ('Trusted: Lean kernel; the idealised 1-d dataset and attribute store (H5Dset_extent keeps a prefix and zero-fills, whole-extent write, attribute round trip) validated each run; persistence across close + reopen is checked by the correspondence run only; strings without NUL bytes; names not UUID-shaped; old-format (< 1.1.1) compound values are not part of the model: files of that format are prepared with the HDF5 C API and what the public API reads from them is compared with what the records hold (rule old_format_values_are_read_back); the initial content of a property created from a type alone (8 fill values) is compared with the model but not constrained by the property; harness.')
